#!/bin/bash
# offline setup: hypothesis into /venv (no-op when present) + generated bash function lists for the ebuild daemon
/venv/bin/python -c 'import hypothesis' 2>/dev/null || \
  /venv/bin/pip install --no-index --find-links /opt/veriftools/wheels hypothesis >/dev/null 2>&1
/venv/bin/python -c 'import hypothesis' || { echo "hypothesis unavailable" >&2; exit 1; }
make -s -C "${VERIF_REPO:-/repo}/data/lib/pkgcore/ebd" PYTHON=/venv/bin/python >/dev/null || exit 1
exit 0
