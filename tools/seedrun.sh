#!/bin/bash
# usage: tools/seedrun.sh <patch.diff> <ID> [ID...]   [env TIER=quick|thorough, SEED=n]
# Applies the patch to a throw-away worktree of /repo HEAD and runs the given checks against it
# (VERIF_REPO), without touching /repo or the evidence files. Prints "<ID> exit=<rc>" lines.
patch="$(readlink -f "$1")"; shift
wt="/tmp/seedrun-$$"
git -C /repo worktree add -q --detach "$wt" HEAD || exit 2
trap 'git -C /repo worktree remove --force "$wt" >/dev/null 2>&1; rm -rf "$wt"' EXIT
if ! git -C "$wt" apply "$patch"; then echo "PATCH-DOES-NOT-APPLY $patch"; exit 2; fi
# the generated bash function lists are git-ignored: copy them, rebuild only if the patch touches their inputs
cp -r /repo/data/lib/pkgcore/ebd/.generated "$wt/data/lib/pkgcore/ebd/.generated"
if grep -qE '^\+\+\+ b/(data/lib/pkgcore/ebd/|src/pkgcore/ebuild/eapi.py)' "$patch"; then
  timeout 900 make -s -B -C "$wt/data/lib/pkgcore/ebd" PYTHON=/venv/bin/python PYTHONPATH="$wt/src" >/dev/null 2>&1
fi
cd "$(dirname "$0")/.."
for id in "$@"; do
  out=$(VERIF_REPO="$wt" VERIF_SEED="${SEED:-1}" timeout 1800 ./check "$id" --tier "${TIER:-quick}" --no-evidence 2>&1)
  rc=$?
  echo "$id exit=$rc $(echo "$out" | grep -c '^VIOLATION') violation-line(s)"
  echo "$out" | grep -E '^(VIOLATION|  bucket=|HARNESS-ERROR)' | head -6
done
