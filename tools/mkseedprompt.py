#!/usr/bin/env python3
"""usage: tools/mkseedprompt.py <PID> [N]  -> prints the prompt for a blind seeding agent; creates the worktree."""
import json, os, subprocess, sys
HERE = os.path.dirname(os.path.dirname(os.path.abspath(__file__)))
pid = sys.argv[1]; n = int(sys.argv[2]) if len(sys.argv) > 2 else 2
p = next(json.loads(l) for l in open(os.path.join(HERE, "properties.jsonl")) if json.loads(l)["id"] == pid)
rnd = os.environ.get("ROUND", "")
wt = f"/tmp/seed-{pid}"; out = f"/tmp/seedout{rnd}-{pid}"
if not os.path.isdir(wt):
    subprocess.run(["git", "-C", "/repo", "worktree", "add", "-q", "--detach", wt, "HEAD"], check=True)
    subprocess.run(["cp", "-r", "/repo/data/lib/pkgcore/ebd/.generated", f"{wt}/data/lib/pkgcore/ebd/.generated"])
else:
    head = subprocess.run(["git", "-C", "/repo", "rev-parse", "HEAD"], capture_output=True, text=True).stdout.strip()
    subprocess.run(["git", "-C", wt, "checkout", "-q", "--detach", head])
    subprocess.run(["git", "-C", wt, "checkout", "-q", "--", "."])
os.makedirs(out, exist_ok=True)
t = open(os.path.join(HERE, "tools", "seed_brief.md")).read()
for k, v in {"{WT}": wt, "{OUT}": out, "{N}": str(n), "{PID}": pid, "{TITLE}": p["title"], "{STATEMENT}": p["statement"],
             "{QUANT}": ", ".join(p["quantifier"]["over"]) + " — " + p["quantifier"]["text"],
             "{FILES}": ", ".join(p["anchors"]["files"])}.items():
    t = t.replace(k, v)
if rnd:
    import glob
    used = []
    for m in sorted(glob.glob(os.path.join(HERE, "seeded", f"{pid}-m*", "meta.json"))):
        try:
            d = json.load(open(m)); used.append("- " + " ".join((d.get("summary") or "").split())[:400])
        except Exception:
            pass
    if used:
        t += "\n\nIdeas ALREADY USED for this property by an earlier round (do NOT repeat them or close variants; pick different functions / mechanisms):\n" + "\n".join(used) + "\n"
print(t)
