#!/bin/bash
# usage: tools/runall.sh [tier] -> runs every claimed check with evidence writing (seed 1), one line per check
tier=${1:-quick}
for id in $(python3 -c "import json;print(' '.join(json.load(open('tools/ready.json'))))"); do
  out=$(VERIF_SEED=1 timeout 3000 ./check $id --tier $tier --jobs 16 2>&1); rc=$?
  echo "$id rc=$rc $(echo "$out" | grep -E '^(OK|FAIL)' | sed 's/property=[A-Z0-9]* //' | cut -c1-160)"
  [ $rc -ne 0 ] && echo "$out" | grep -E "^(VIOLATION|  bucket|HARNESS)" | cut -c1-400
done
