#!/usr/bin/env python3
"""Validate seeded defects and run the checks against them.

usage: tools/seedeval.py [--jobs-per-check N] [--tier quick] [--only-check] <PID>:<mK> [...]   (source: /tmp/seedout-<PID>/<mK>/)
       tools/seedeval.py --recheck <PID>-<mK> [...]        (re-run the check on an already imported seeded/<PID>-<mK>/)

For each seeded defect:
 1. fresh throw-away worktree of /repo HEAD (outside /repo and /verif), demo on the pristine tree must exit 0
 2. apply patch.diff (must apply), demo must now exit non-zero
 3. pkgcore's own test suite must still pass (tools/baseline.sh <worktree>)
 4. ./check <PID> --tier quick against the patched worktree (VERIF_REPO) -> exit 1 expected (detected)
Results are written to seeded/<PID>-<mK>/{patch.diff,demo.py,meta.json}; the worktree is removed.
"""
import json, os, shutil, subprocess, sys, time

HERE = os.path.dirname(os.path.dirname(os.path.abspath(__file__)))


def sh(cmd, timeout=1800, **kw):
    try:
        r = subprocess.run(cmd, capture_output=True, text=True, timeout=timeout, **kw)
        return r.returncode, (r.stdout + r.stderr)
    except subprocess.TimeoutExpired as e:
        return 124, f"TIMEOUT {e}"


def run_check(pid, wt, tier, jobs, seed=1):
    env = dict(os.environ, VERIF_REPO=wt, VERIF_SEED=str(seed))
    rc, out = sh([os.path.join(HERE, "check"), pid, "--tier", tier, "--no-evidence", "--jobs", str(jobs)], timeout=3600, env=env, cwd=HERE)
    lines = [l for l in out.splitlines() if l.startswith(("VIOLATION", "  bucket", "HARNESS", "OK ", "FAIL "))]
    return rc, lines[:12]


def evaluate(pid, mk, src, tier, jobs, only_check=False):
    name = f"{pid}-{mk}"
    dst = os.path.join(HERE, "seeded", name)
    os.makedirs(dst, exist_ok=True)
    if src != dst:
        for f in ("patch.diff", "demo.py", "meta.json"):
            if os.path.exists(os.path.join(src, f)):
                shutil.copy(os.path.join(src, f), os.path.join(dst, f))
        # some agents wrote pytest-style or differently named demos
        for f in os.listdir(src):
            if f.startswith(("demo", "test_")) and f not in ("demo.py",) and os.path.isfile(os.path.join(src, f)):
                shutil.copy(os.path.join(src, f), os.path.join(dst, f))
    meta_p = os.path.join(dst, "meta.json")
    try:
        meta = json.load(open(meta_p))
    except Exception:
        meta = {}
    meta.setdefault("property", pid)
    v = meta.setdefault("validation", {})
    wt = f"/tmp/seedeval-{name}-{os.getpid()}"
    sh(["git", "-C", "/repo", "worktree", "add", "-q", "--detach", wt, "HEAD"])
    try:
        gen = os.path.join(wt, "data/lib/pkgcore/ebd/.generated")
        shutil.copytree("/repo/data/lib/pkgcore/ebd/.generated", gen, dirs_exist_ok=True)
        env = dict(os.environ, PYTHONPATH=f"{wt}/src", PYTHONDONTWRITEBYTECODE="1")
        demo = os.path.join(dst, "demo.py")
        head = subprocess.run(["git", "-C", "/repo", "rev-parse", "--short", "HEAD"], capture_output=True, text=True).stdout.strip()
        v["repo_head"] = head
        if not only_check:
            rc0, out0 = sh(["/venv/bin/python", demo], timeout=600, env=env, cwd=wt) if os.path.exists(demo) else (None, "no demo.py")
            v["demo_pristine_exit"] = rc0
        rca, outa = sh(["git", "-C", wt, "apply", os.path.join(dst, "patch.diff")])
        v["patch_applies"] = rca == 0
        if rca != 0:
            v["error"] = outa[-400:]
            return name, meta
        patch_text = open(os.path.join(dst, "patch.diff")).read()
        if "data/lib/pkgcore/ebd/" in patch_text or "ebuild/eapi.py" in patch_text:
            sh(["make", "-s", "-B", "-C", f"{wt}/data/lib/pkgcore/ebd", "PYTHON=/venv/bin/python", f"PYTHONPATH={wt}/src"], timeout=1500)
        if not only_check:
            rc1, out1 = sh(["/venv/bin/python", demo], timeout=600, env=env, cwd=wt) if os.path.exists(demo) else (None, "")
            v["demo_patched_exit"] = rc1
            v["demo_patched_tail"] = out1[-300:]
            rcb, outb = sh([os.path.join(HERE, "tools", "baseline.sh"), wt], timeout=2400)
            v["pkgcore_tests_pass"] = rcb == 0
            v["pkgcore_tests"] = outb.strip().splitlines()[:6]
        t0 = time.time()
        rcc, lines = run_check(pid, wt, tier, jobs)
        v[f"check_{tier}"] = {"exit": rcc, "detected": rcc == 1, "wall_s": round(time.time() - t0, 1), "lines": lines,
                              "cmd": f"VERIF_REPO=<worktree with patch> ./check {pid} --tier {tier} --no-evidence --jobs {jobs}"}
        return name, meta
    finally:
        json.dump(meta, open(meta_p, "w"), indent=1)
        sh(["git", "-C", "/repo", "worktree", "remove", "--force", wt])
        shutil.rmtree(wt, ignore_errors=True)


def main():
    args = sys.argv[1:]
    jobs, tier, only_check, recheck, rnd = 4, "quick", False, False, ""
    items = []
    while args:
        a = args.pop(0)
        if a == "--jobs-per-check":
            jobs = int(args.pop(0))
        elif a == "--tier":
            tier = args.pop(0)
        elif a == "--only-check":
            only_check = True
        elif a == "--recheck":
            recheck = True
        elif a == "--round":
            rnd = args.pop(0)
        else:
            items.append(a)
    for it in items:
        if recheck:
            pid, mk = it.split("-", 1)
            src = os.path.join(HERE, "seeded", it)
            oc = True
        else:
            pid, mk = it.split(":")
            src = f"/tmp/seedout{rnd}-{pid}/{mk}"
            if rnd:
                mk = f"r{rnd}{mk}"
            oc = only_check
        name, meta = evaluate(pid, mk, src, tier, jobs, oc)
        v = meta["validation"]
        c = v.get(f"check_{tier}", {})
        print(f"{name}: applies={v.get('patch_applies')} demo={v.get('demo_pristine_exit')}/{v.get('demo_patched_exit')} "
              f"tests={v.get('pkgcore_tests_pass')} check_exit={c.get('exit')} detected={c.get('detected')} {c.get('wall_s')}s", flush=True)
        for l in c.get("lines", [])[:4]:
            print("    " + l[:220], flush=True)


if __name__ == "__main__":
    main()
