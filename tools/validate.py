#!/opt/veriftools/pyvenv/bin/python
"""validate MANIFEST.json and evidence/*.json against the schemas (uses jsonschema from the tooling venv)"""
import glob, json, sys, os
import jsonschema
HERE = os.path.dirname(os.path.dirname(os.path.abspath(__file__)))
ok = True
def chk(path, schema):
    global ok
    try:
        jsonschema.validate(json.load(open(path)), json.load(open(schema)))
    except Exception as e:
        ok = False
        print("INVALID", path, str(e)[:300])
chk(os.path.join(HERE, "MANIFEST.json"), "/root/.vp/MANIFEST.schema.json")
for p in sorted(glob.glob(os.path.join(HERE, "evidence", "*.json"))):
    chk(p, "/root/.vp/EVIDENCE.schema.json")
print("valid" if ok else "INVALID FILES")
sys.exit(0 if ok else 1)
