#!/venv/bin/python
"""Regenerate MANIFEST.json from the property modules present in vf/props and NOT_APPLICABLE below."""
import glob, importlib, json, os, sys
HERE = os.path.dirname(os.path.dirname(os.path.abspath(__file__)))
sys.path.insert(0, HERE)
os.environ.setdefault("VERIF_REPO", "/repo")
sys.path.insert(0, os.path.join(os.environ["VERIF_REPO"], "src"))

NOT_APPLICABLE = json.load(open(os.path.join(HERE, "tools", "not_applicable.json")))

props = [json.loads(l) for l in open(os.path.join(HERE, "properties.jsonl"))]
ids = [p["id"] for p in props]
READY = set(json.load(open(os.path.join(HERE, "tools", "ready.json"))))
checks = []
have = set()
for pid in ids:
    if pid not in READY:
        continue
    if not os.path.exists(os.path.join(HERE, "vf", "props", pid.lower() + ".py")):
        continue
    m = importlib.import_module(f"vf.props.{pid.lower()}")
    if getattr(m, "DISABLED", False):
        continue
    have.add(pid)
    checks.append({
        "property_id": pid,
        "quick_cmd": f"./check {pid} --tier quick",
        "thorough_cmd": f"./check {pid} --tier thorough",
        "evidence_file": f"evidence/{pid}.json",
        "replay_cmd_template": f"./check {pid} --replay {{path}}",
        "engine": "vf",
        "level_claimed": {"category": m.LEVEL, "text": m.LEVEL_TEXT, "design_ref": m.DESIGN_REF},
        "level_note": m.LEVEL_NOTE,
        "technique": m.TECHNIQUE,
    })
na = []
for pid in ids:
    if pid in have:
        continue
    reason = NOT_APPLICABLE.get(pid) or "check not built yet (work in progress); no claim is made for this property"
    na.append({"property_id": pid, "reason": reason})
man = {
    "version": 1,
    "setup_cmd": "./setup.sh",
    "hooks": {
        "guard": "PKGCORE_VERIF",
        "enable": "no source hooks are needed: checks import /repo/src directly (PYTHONPATH) and observe through public APIs, audit hooks and wrapped I/O in the harness",
        "baseline_off_cmd": "cd /repo && /venv/bin/python -m pytest -ra -q -p no:cacheprovider --timeout=900 --continue-on-collection-errors",
        "source_commits": [],
        "add_only": True,
    },
    "engines": [{"name": "vf", "path": "vf/", "serves_properties": sorted(have),
                 "kind_free_text": "property-based testing / fuzzing harness: hypothesis strategies + bounded-exhaustive enumeration + fork-based crash/fault injection, independent reference models as oracles"}],
    "checks": checks,
    "not_applicable": na,
    "notes": "All checks: ./check <ID> --tier quick|thorough (VERIF_SEED, VERIF_TIER honoured). Exit 0 held / 1 VIOLATION / 2 harness error. Known findings in known_findings.json.",
}
json.dump(man, open(os.path.join(HERE, "MANIFEST.json"), "w"), indent=1)
print(f"MANIFEST.json: {len(checks)} checks, {len(na)} not claimed")
