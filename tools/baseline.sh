#!/bin/bash
# Run pkgcore's own test suite (the BASELINE command) and compare against BASELINE.json:
# every stable_pass test must pass. usage: tools/baseline.sh [repo-dir]
repo="${1:-/repo}"
out=$(mktemp /var/tmp/junit-XXXX.xml)
cd "$repo" && PYTHONPATH="$repo/src" /venv/bin/python -m pytest -q -p no:cacheprovider --timeout=900 \
   --continue-on-collection-errors -n 8 --junitxml="$out" >/var/tmp/baseline-pytest.log 2>&1
python3 - "$out" <<'PY'
import json,sys,xml.etree.ElementTree as ET
b=json.load(open('/root/.vp/BASELINE.json'))
stable=set(b['stable_pass'])
t=ET.parse(sys.argv[1]).getroot()
res={}
for tc in t.iter('testcase'):
    name=f"{tc.get('classname')}::{tc.get('name')}"
    ok=not any(c.tag in('failure','error','skipped') for c in tc)
    res[name]=ok
bad=[n for n in stable if not res.get(n,False)]
print(f"baseline: {len(stable)-len(bad)}/{len(stable)} stable tests pass")
for n in bad[:30]: print("  NOT PASSING:",n, "(missing)" if n not in res else "")
sys.exit(1 if bad else 0)
PY
rc=$?
rm -f "$out"
exit $rc
