#!/bin/bash
# usage: tools/sweep.sh "<seeds>" [ids...]  -> runs quick tier without touching evidence; prints one line per run
seeds="$1"; shift
ids="$@"; [ -z "$ids" ] && ids=$(python3 -c "import json;print(' '.join(json.load(open('tools/ready.json'))))")
for s in $seeds; do for id in $ids; do
  out=$(VERIF_SEED=$s timeout 1500 ./check $id --no-evidence --jobs ${JOBS:-8} 2>&1); rc=$?
  echo "seed=$s $id rc=$rc $(echo "$out" | grep -E '^(OK|FAIL)' | sed 's/property=[A-Z0-9]* tier=quick //' | cut -c1-140)"
  [ $rc -ne 0 ] && echo "$out" | grep -E "^(VIOLATION|  bucket|HARNESS)" | cut -c1-400
done; done
