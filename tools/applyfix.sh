#!/bin/bash
# usage: tools/applyfix.sh <name> [<name>...]   (names of proposed_fixes/<name>.diff/.md)
# Applies each patch to /repo and commits it separately with the message from the .md (must start "fix:").
set -e
cd /repo
for n in "$@"; do
  d=/verif/proposed_fixes/$n.diff; m=/verif/proposed_fixes/$n.md
  [ -f "$d" ] || { echo "no $d"; exit 2; }
  if [ -f "$m" ]; then msg=$(cat "$m"); else msg="fix: $n"; fi
  case "$msg" in fix:*) ;; *) echo "message for $n does not start with fix:"; exit 2;; esac
  git apply --3way "$d" || git apply "$d"
  git add -A
  git commit -q -m "$msg"
  echo "committed $n as $(git rev-parse --short HEAD)"
done
