#!/usr/bin/env python3
"""usage: tools/mergeknown.py fixed <ID> <proposed-fix-name> [...]   -> add 'fixed' entries (commit looked up in /repo log)
          tools/mergeknown.py known <ID> [...]                      -> merge proposed_fixes/<ID>.known.json entries"""
import json, os, subprocess, sys
HERE = os.path.dirname(os.path.dirname(os.path.abspath(__file__)))
path = os.path.join(HERE, "known_findings.json")
data = json.load(open(path))
F = data["findings"]
mode = sys.argv[1]
if mode == "fixed":
    pid = sys.argv[2]
    for name in sys.argv[3:]:
        md = os.path.join(HERE, "proposed_fixes", name + ".md")
        subj = open(md).read().splitlines()[0] if os.path.exists(md) else "fix: " + name
        log = subprocess.run(["git", "-C", "/repo", "log", "--format=%h %s"], capture_output=True, text=True).stdout.splitlines()
        commit = next((l.split()[0] for l in log if l.split(" ", 1)[1] == subj), None)
        if commit is None:
            sys.exit(f"no commit with subject {subj!r}")
        what = subj[len("fix:"):].strip()
        ent = {"property": pid, "kind": "fixed", "key": name, "commit": commit,
               "what": f"fixed: property={pid} {commit} {what}"}
        if not any(e.get("kind") == "fixed" and e.get("commit") == commit and e["property"] == pid for e in F):
            F.append(ent)
            print("added", ent["what"])
elif mode == "known":
    for pid in sys.argv[2:]:
        p = os.path.join(HERE, "proposed_fixes", pid + ".known.json")
        for e in json.load(open(p)):
            assert e["property"] == pid and e["kind"] == "known" and e["key"] and e["what"], e
            if not any(x.get("kind") == "known" and x["property"] == pid and x["key"] == e["key"] for x in F):
                F.append({k: e[k] for k in ("property", "kind", "key", "what")})
                print("added known", pid, e["key"])
F.sort(key=lambda e: (e["property"], e["kind"], e.get("key", "")))
json.dump(data, open(path, "w"), indent=1)
open(path, "a").write("\n")
