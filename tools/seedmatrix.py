#!/usr/bin/env python3
"""write seeded/RESULTS.md from seeded/*/meta.json"""
import glob, json, os
HERE = os.path.dirname(os.path.dirname(os.path.abspath(__file__)))
rows = []
for p in sorted(glob.glob(os.path.join(HERE, "seeded", "*", "meta.json"))):
    name = os.path.basename(os.path.dirname(p))
    m = json.load(open(p)); v = m.get("validation", {}); c = v.get("check_quick", {})
    valid = v.get("patch_applies") and v.get("demo_pristine_exit") == 0 and v.get("demo_patched_exit") not in (0, None) and v.get("pkgcore_tests_pass")
    buckets = [l.split("bucket=")[1].split(" ")[0] for l in c.get("lines", []) if "bucket=" in l]
    rows.append((name, m.get("property"), "yes" if valid else "NO", "caught" if c.get("detected") else f"missed(exit {c.get('exit')})",
                 ", ".join(buckets[:2]), (m.get("needs") or m.get("summary") or "")[:160].replace("\n", " ").replace("|", "/")))
with open(os.path.join(HERE, "seeded", "RESULTS.md"), "w") as f:
    f.write("# Seeded defects (written by blind sub-agents) vs. the quick tier of the matching check\n\n"
            "validated = patch applies to /repo HEAD, demo exits 0 on the pristine tree and non-zero with the patch, pkgcore's own suite still passes.\n"
            "Each directory holds patch.diff, demo.py, meta.json (incl. `validation`: what was run and the result).\n\n"
            "| seed | property | validated | quick check | first buckets | needs |\n|---|---|---|---|---|---|\n")
    for r in rows:
        f.write("| " + " | ".join(str(x) for x in r) + " |\n")
    n = len(rows); c = sum(1 for r in rows if r[3] == "caught")
    f.write(f"\n{c}/{n} caught by the quick tier.\n")
print(f"{sum(1 for r in rows if r[3]=='caught')}/{len(rows)} caught; not validated: {[r[0] for r in rows if r[2]=='NO']}")
