"""Reference models for the Bugzilla-facing properties (C37, C38, C39), written from the Bugzilla
WebService/Search documentation and the pkgcore docstrings, not from the code under test.

* `chart_parse` / `bz_eval`  -- interpreter for the query parameters of `GET /rest/bug`: repeated plain
  parameters (OR within a key, AND across keys) plus the boolean chart `f<N>/o<N>/v<N>/n<N>/j<N>` with `OP`/`CP`
  groups, evaluated against a synthetic bug (dict).
* `apply_change` / `apply_wire` -- Bugzilla's list-update model (`add`/`remove`/`set`) on a set of values.
* `pl_split_line` / `pl_expand`  -- the documented syntax of a `cf_stabilisation_atoms` line and the
  `*` / `^` / `-` sentinel expansion.
"""

from __future__ import annotations

import re

# --------------------------------------------------------------------------- search evaluation

PAGING_KEYS = ("limit", "offset", "order")
_CHART_KEY = re.compile(r"^([fovnj])([0-9]+)$")
_WORD_SPLIT = re.compile(r"[\s,]+")

# how a synthetic bug stores each searchable field
LIST_FIELDS = {"cc", "keywords", "flagtypes.name", "tag"}
TEXT_WORD_FIELDS = {"cf_stabilisation_atoms"}
SIMPLE_FIELD_OF = {
    "id": "id",
    "product": "product",
    "component": "component",
    "resolution": "resolution",
    "bug_status": "bug_status",
    "cc": "cc",
    "assigned_to": "assigned_to",
}


class ChartError(Exception):
    """the rendered parameters do not form a well-formed boolean chart; .kind is a stable bucket suffix"""

    def __init__(self, kind, msg):
        super().__init__(msg)
        self.kind = kind


def split_params(params):
    """-> (simple: dict key -> [values] in order, chart: dict slot -> {'f','o','v':[..],'n','j'}, paging: dict)"""
    simple = {}
    chart = {}
    paging = {}
    for key, value in params:
        m = _CHART_KEY.match(key)
        if m:
            kind, slot = m.group(1), int(m.group(2))
            if m.group(2) != str(slot):
                raise ChartError("slot-spelling", f"slot number with leading zero: {key}")
            ent = chart.setdefault(slot, {"f": None, "o": None, "v": [], "n": None, "j": None})
            if kind == "v":
                ent["v"].append(value)
            else:
                if ent[kind] is not None:
                    raise ChartError(f"slot-collision:{kind}", f"{key} rendered twice ({ent[kind]!r} and {value!r})")
                ent[kind] = value
        elif key in PAGING_KEYS:
            if key in paging:
                raise ChartError("paging-twice", f"{key} rendered twice")
            paging[key] = value
        else:
            simple.setdefault(key, []).append(value)
    return simple, chart, paging


def chart_parse(chart):
    """slot dict -> nested tree: ('group', join, [children]) / ('cond', field, op, [values], negate).
    Bugzilla walks the f<N> in numeric order; gaps are fine. Top level joins with AND."""
    root = ("group", "AND", [])
    stack = [root]
    for slot in sorted(chart):
        ent = chart[slot]
        f = ent["f"]
        if f is None:
            raise ChartError("orphan", f"o/v/n/j for slot {slot} without f{slot}")
        if f == "OP":
            if ent["o"] is not None or ent["v"]:
                raise ChartError("op-with-operator", f"OP slot {slot} carries o/v")
            g = ("group", ent["j"] or "AND", [])
            stack[-1][2].append(g)
            stack.append(g)
        elif f == "CP":
            if ent["o"] is not None or ent["v"] or ent["j"] is not None or ent["n"] is not None:
                raise ChartError("cp-with-extras", f"CP slot {slot} carries o/v/j/n")
            if len(stack) == 1:
                raise ChartError("unbalanced:cp", f"CP at slot {slot} closes nothing")
            stack.pop()
        else:
            if ent["j"] is not None:
                raise ChartError("join-on-condition", f"j{slot} on a plain condition")
            if ent["o"] is None:
                raise ChartError("no-operator", f"f{slot} without o{slot}")
            stack[-1][2].append(("cond", f, ent["o"], list(ent["v"]), ent["n"] is not None and ent["n"] != "0"))
    if len(stack) != 1:
        raise ChartError("unbalanced:op", f"{len(stack) - 1} OP group(s) never closed")
    return root


def _field_words(bug, field):
    val = bug.get(field)
    if val is None:
        return [], ""
    if isinstance(val, list):
        return [str(x) for x in val], ", ".join(str(x) for x in val)
    s = str(val)
    return [w for w in _WORD_SPLIT.split(s) if w], s


def _value_words(values):
    # several v<N> for one slot reach Bugzilla as an array, which it joins with ","; the word operators then
    # split on whitespace and commas
    return [w for w in _WORD_SPLIT.split(",".join(values)) if w]


def eval_cond(bug, field, op, values, negate):
    fwords, ftext = _field_words(bug, field)
    vwords = _value_words(values)
    vtext = ",".join(values)
    if op == "equals":
        r = ftext == vtext
    elif op == "notequals":
        r = ftext != vtext
    elif op == "anyexact":
        r = any(v == w for v in values for w in (fwords or [ftext]))
    elif op == "substring":
        r = vtext.lower() in ftext.lower()
    elif op == "casesubstring":
        r = vtext in ftext
    elif op == "notsubstring":
        r = vtext.lower() not in ftext.lower()
    elif op == "anywords":
        r = any(v.lower() == w.lower() for v in vwords for w in fwords)
    elif op == "allwords":
        r = all(any(v.lower() == w.lower() for w in fwords) for v in vwords)
    elif op == "nowords":
        r = not any(v.lower() == w.lower() for v in vwords for w in fwords)
    elif op == "anywordssubstr":
        r = any(v.lower() in ftext.lower() for v in vwords)
    elif op == "allwordssubstr":
        r = all(v.lower() in ftext.lower() for v in vwords)
    elif op == "nowordssubstr":
        r = not any(v.lower() in ftext.lower() for v in vwords)
    else:
        raise ChartError("unknown-operator", f"operator {op!r} not modelled")
    return (not r) if negate else r


def eval_tree(bug, node):
    if node[0] == "cond":
        return eval_cond(bug, node[1], node[2], node[3], node[4])
    _, join, children = node
    if not children:
        return True
    vals = [eval_tree(bug, c) for c in children]
    if join == "OR":
        return any(vals)
    if join in ("AND", "AND_G"):
        return all(vals)
    raise ChartError("unknown-join", f"join {join!r}")


def eval_simple(bug, simple):
    for key, values in simple.items():
        field = SIMPLE_FIELD_OF.get(key)
        if field is None:
            raise ChartError("unknown-simple-key", f"plain parameter {key!r} not modelled")
        have = bug.get(field)
        if key == "resolution":
            # an open bug stores the empty string; "---" selects it
            want = ["" if v == "---" else v for v in values]
            ok = have in want
        elif isinstance(have, list):
            ok = any(v in have for v in values)
        else:
            ok = str(have) in values
        if not ok:
            return False
    return True


def bz_parse(params):
    """-> (simple, tree, paging); raises ChartError for malformed charts"""
    simple, chart, paging = split_params(params)
    return simple, chart_parse(chart), paging


def bz_eval(parsed, bug):
    simple, tree, _ = parsed
    return eval_simple(bug, simple) and eval_tree(bug, tree)


# --------------------------------------------------------------------------- list updates

def apply_change(kind_add, kind_remove, kind_set, current):
    """Bugzilla's list update: `set` replaces; otherwise `add` then `remove` (disjoint, so order is moot)."""
    if kind_set is not None:
        return frozenset(kind_set)
    return (frozenset(current) | frozenset(kind_add)) - frozenset(kind_remove)


def apply_wire(wire, current):
    """apply an {"add":[..],"remove":[..]} / {"set":[..]} object as Bugzilla would"""
    extra = set(wire) - {"add", "remove", "set"}
    if extra:
        raise ValueError(f"keys Bugzilla ignores: {sorted(extra)}")
    if "set" in wire:
        if "add" in wire or "remove" in wire:
            raise ValueError("set together with add/remove")
        return frozenset(wire["set"])
    return (frozenset(current) | frozenset(wire.get("add", ()))) - frozenset(wire.get("remove", ()))


# --------------------------------------------------------------------------- package lists

def pl_split_line(raw):
    """one line without its EOL -> (indent, spec|None, [(gap, keyword)...], trail, comment)
    A `#` starts a comment at the start of the line or after whitespace."""
    cut = len(raw)
    for i, ch in enumerate(raw):
        if ch == "#" and (i == 0 or raw[i - 1].isspace()):
            cut = i
            break
    body, comment = raw[:cut], raw[cut:]
    pos = 0
    toks = []
    n = len(body)
    while pos < n:
        s = pos
        while pos < n and body[pos].isspace():
            pos += 1
        gap = body[s:pos]
        if pos >= n:
            return _mk(toks, gap, comment)
        s = pos
        while pos < n and not body[pos].isspace():
            pos += 1
        toks.append((gap, body[s:pos]))
    return _mk(toks, "", comment)


def _mk(toks, trail, comment):
    if not toks:
        return trail, None, [], "", comment
    indent, spec = toks[0]
    return indent, spec, toks[1:], trail, comment


def pl_expand(lines, suggest):
    """lines: [(spec_key|None, [keywords])]; suggest: key -> [keywords].
    -> ('ok', [new keyword list per line (None for blank lines)]) or ('error', lineno)"""
    out = []
    previous = None
    for idx, (key, kws) in enumerate(lines):
        if key is None:
            out.append(None)
            continue
        new = []
        for kw in kws:
            if kw == "*":
                new.extend(suggest(key) or ["-"])
            elif kw == "^":
                if previous is None:
                    return "error", idx
                if not previous and len(kws) > 1:
                    return "error", idx
                new.extend(previous)
            else:
                new.append(kw)
        previous = new
        out.append(new)
    return "ok", out
