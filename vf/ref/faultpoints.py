"""In-process event logging and single-EIO injection on top of vf.crash's hook, plus the list of injection
points that really need a forked process death (used by C27 C28 C30).

Why: a fork costs 0.1-0.2 s on the verification host and forks do not scale over workers, so only the modes that
need a process to *die* (vf.crash "before"/"after") are forked. The event log of an uninterrupted run and the
"eio" mode (event k raises OSError(EIO), the code's own handlers run to completion) are pure in-process
semantics: one permanent audit hook per worker dispatches to the vf.crash._Hook that is armed for the current
operation and is inert otherwise (audit hooks cannot be removed; forked children inherit it unarmed).

    log_run(op, roots)      -> crash.Result  (events of a complete run; status completed|raised)
    eio_run(op, roots, k)   -> crash.Result  (status completed|raised|not-reached)
    fork_points(events)     -> [(k, "before"|"after")]  as vf.crash.points() minus "before event 1"
                               (nothing has happened yet: the state is the pristine tree)
"""
import json
import os
import sys

from .. import crash

_current = None
_installed = False


def _dispatch(event, args):
    h = _current
    if h is not None:
        h(event, args)


def _run(op, roots, k, mode):
    global _current, _installed
    if not _installed:
        sys.addaudithook(_dispatch)
        _installed = True
    fd = os.memfd_create("vf-faultlog")
    hook = crash._Hook(list(roots), k, mode, fd)
    status, exc = "completed", None
    _current = hook
    try:
        try:
            op()
        except Exception as e:  # noqa: BLE001  (reported to the caller as status "raised", like vf.crash does)
            status, exc = "raised", f"{type(e).__name__}: {e}"
    finally:
        _current = None
        hook.active = False
    try:
        data = os.pread(fd, 1 << 22, 0)
    finally:
        os.close(fd)
    events = [json.loads(l) for l in data.decode("utf8", "replace").splitlines() if l]
    if status == "completed" and k is not None and len(events) < k:
        status = "not-reached"
    return crash.Result(status, events, exc, None)


def log_run(op, roots):
    return _run(op, roots, None, None)


def eio_run(op, roots, k):
    return _run(op, roots, k, "eio")


def fork_points(events):
    return [(k, m) for k, m in crash.points(events, modes=("before", "after")) if not (m == "before" and k == 1)]


def injections(ctx, events, fresh, make_op):
    """yield (k, mode, Result, workdir) for an EIO at every event (in-process) and every forked crash point.
    fresh(tag) -> a new copy of the pristine tree; make_op(workdir) -> the operation closure for that copy.
    Stops (counting it) when the budget guard of a generated run is hit."""
    import shutil

    from .. import core

    pts = [(k, "eio") for k in range(1, len(events) + 1)] + fork_points(events)
    for k, mode in sorted(pts):
        if ctx.deadline is not None and ctx.out_of_time():
            ctx.count("enumeration_cut_by_budget")
            return
        w = fresh(f"{k}{mode}")
        op = make_op(w)
        res = eio_run(op, [w], k) if mode == "eio" else crash.inject(op, [w], k, mode)
        if res.status in ("died", "not-reached"):
            raise core.HarnessError(f"injection {k}/{mode} ended {res.status} (events={res.events})")
        if res.status == "raised" and mode != "eio":
            raise core.HarnessError(f"injection {k}/{mode}: operation raised without a fault: {res.exc}")
        ctx.count(f"inject_{mode}")
        yield k, mode, res, w
        shutil.rmtree(w, ignore_errors=True)
