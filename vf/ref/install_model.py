"""Reference placement model for the PMS install helpers (PMS ch. 12.3 "Install commands", EAPI 0-8).

Written from the PMS text, not from pkgcore:

* into/insinto/exeinto/docinto set the destination trees (defaults: /usr, "", "", ""), `X /` means the root.
* doins [-r] f..    -> INSDESTTREE/basename (basename of `dir/.` is ".", i.e. the contents go directly into the
                       destination), install options of the last insopts (default -m0644); -r descends
                       into directories, "any directories are created as if dodir was called" (diropts);
                       EAPI>=4: symlinks are installed as symlinks.
* dodoc [-r] f..    -> /usr/share/doc/${PF}/${docinto}/basename mode 0644; -r only EAPI>=4; directories without
                       (allowed) -r make the command fail; new directories as `install -d` (0755).
* doexe f..         -> EXEDESTTREE/basename, exeopts (default -m0755)
* dobin/dosbin f..  -> DESTTREE/{bin,sbin}/basename mode 0755, owner/group superuser
* dolib/.a/.so f..  -> DESTTREE/<libdir>/basename; dolib.a 0644, dolib.so 0755, dolib libopts (default -m0644)
* doman [-i18n=l]   -> /usr/share/man/[lang/]man<sect>/name mode 0644; EAPI>=2 `foo.<lang>.<sect>` goes to
                       <lang>/man<sect>/foo.<sect> with lang = [a-z]{2}(_[A-Z]{2})?; -i18n=<lang> puts the page
                       below <lang> (level skipped when empty), takes precedence over the file name's language in
                       EAPI>=4 (name then kept unchanged); a page without a section suffix is an error.
* domo f..          -> <dest>/share/locale/<basename without .*>/LC_MESSAGES/${PN}.mo mode 0644
                       (dest = DESTTREE for EAPI<=6, /usr for EAPI>=7)
* dohtml [opts] f.. -> /usr/share/doc/${PF}/${docinto:-html}/[prefix/]..., only files whose extension is allowed
                       (css gif htm html jpeg jpg js png; -a replaces, -A adds) or whose name is in -f; -r recurses,
                       skipping directories named in -x; mode 0644.
* dodir d..         -> directories with diropts (default -m0755)
* keepdir d..       -> as dodir plus an empty file whose name starts with ".keep" in each
* dosym [-r] t l    -> symlink ${ED}/l -> t (t verbatim); parent directory created; fails if l ends in "/" or is an
                       existing directory *in the image*; -r (EAPI 8 only, t absolute) makes t relative to dirname(l)
                       (PMS algorithm 12.1 = `realpath -m -s --relative-to`, purely lexical).
* dohard s l        -> hard link ${ED}/l to ${ED}/s (EAPI<=3)

The model answers, for one helper invocation on a given source tree (read from the real scratch directory, lstat
level) and a snapshot of the image taken before the call:

    Result.status   "ok" | "reject" | "either" (PMS silent: may fail, or succeed with exactly `entries`)
    Result.entries  {image relpath: spec} that must exist afterwards (parents are implied)
    Result.optional image relpaths (directories) that may or may not be created
    spec: {"type":"file","src":abs source path,"mode":int|None,"uid":int|None,"gid":int|None,"preserve":bool}
          {"type":"dir","mode":int|None} {"type":"sym","target":str} {"type":"hardlink","to":relpath}
          {"type":"keepfile"}   (key is the directory; any single new empty regular file named .keep*)
"""
from __future__ import annotations

import os
import posixpath as pp
import re

HTML_EXTS = ("css", "gif", "htm", "html", "jpeg", "jpg", "js", "png")
LANG_RE = re.compile(r"^[a-z][a-z](_[A-Z][A-Z])?$")
SECTION_RE = re.compile(r"^[0-9n]$")  # only the unambiguous single-character sections are in the domain


class Result:
    def __init__(self, status="ok", reason=""):
        self.status = status
        self.reason = reason
        self.entries = {}
        self.optional = set()
        self.features = []

    def reject(self, why):
        self.status = "reject"
        self.reason = why
        return self

    def either(self, why):
        if self.status == "ok":
            self.status = "either"
            self.reason = why


# ---- install(1) option strings -------------------------------------------------------------

def _sym_mode(s):
    """chmod-style symbolic mode relative to 0, explicit 'who' only (ugoa)(=|+)(rwx)*; None if not understood"""
    mode = 0
    for clause in s.split(","):
        m = re.match(r"^([ugoa]+)([=+])([rwx]*)$", clause)
        if not m:
            return None
        who, op, perms = m.groups()
        bits = 0
        for p in perms:
            bits |= {"r": 4, "w": 2, "x": 1}[p]
        mask = 0
        val = 0
        for w in who:
            for sh in {"u": (6,), "g": (3,), "o": (0,), "a": (6, 3, 0)}[w]:
                mask |= 7 << sh
                val |= bits << sh
        if op == "=":
            mode = (mode & ~mask) | val
        else:
            mode |= val
    return mode


def parse_install_opts(words):
    """-> dict(mode, owner, group, preserve, external, strip); mode None = install's default.
    `external` lists options beyond -m/-o/-g/-p (numeric mode), i.e. what needs the real install(1)."""
    o = {"mode": None, "owner": None, "group": None, "preserve": False, "external": [], "strip": False}
    i = 0
    words = list(words)

    def setmode(v):
        try:
            o["mode"] = int(v, 8)
        except ValueError:
            o["mode"] = _sym_mode(v)
            o["external"].append("symbolic-mode")

    while i < len(words):
        w = words[i]
        i += 1
        if w.startswith("--"):
            k, eq, v = w.partition("=")
            if k in ("--mode", "--owner", "--group"):
                if not eq:
                    v = words[i]
                    i += 1
                if k == "--mode":
                    setmode(v)
                else:
                    o[k[2:]] = v
            elif k == "--preserve-timestamps":
                o["preserve"] = True
            elif k == "--strip":
                o["strip"] = True
                o["external"].append(w)
            else:
                o["external"].append(w)
            continue
        if w.startswith("-") and len(w) > 1:
            j = 1
            while j < len(w):
                c = w[j]
                j += 1
                if c in "mog":
                    v = w[j:]
                    if not v:
                        v = words[i]
                        i += 1
                    if c == "m":
                        setmode(v)
                    else:
                        o["owner" if c == "o" else "group"] = v
                    break
                elif c == "p":
                    o["preserve"] = True
                elif c == "s":
                    o["strip"] = True
                    o["external"].append("-s")
                else:
                    o["external"].append("-" + c)
            continue
        o["external"].append(w)
    return o


def _ids(o):
    def num(v):
        if v is None:
            return None
        try:
            return int(v)
        except ValueError:
            return {"root": 0}.get(v)
    return num(o["owner"]), num(o["group"])


def file_spec(src, o):
    uid, gid = _ids(o)
    return {"type": "file", "src": src, "mode": 0o755 if o["mode"] is None else o["mode"], "uid": uid, "gid": gid,
            "preserve": o["preserve"]}


def dir_spec(o):
    uid, gid = _ids(o)
    return {"type": "dir", "mode": 0o755 if o["mode"] is None else o["mode"], "uid": uid, "gid": gid}


FIXED_0644 = {"mode": 0o644, "owner": None, "group": None, "preserve": False, "external": [], "strip": False}
FIXED_0755 = dict(FIXED_0644, mode=0o755)
ROOT_0755 = dict(FIXED_0644, mode=0o755, owner="0", group="0")


# ---- helpers ------------------------------------------------------------------------------

def _tree(d):
    """d = destination tree value as set by into/insinto/... ('/' or '' = root)"""
    return d.strip("/")


def _j(*parts):
    return pp.normpath(pp.join(*[p for p in parts if p != ""])) if any(parts) else ""


def _abs_src(cwd, a):
    return a if a.startswith("/") else os.path.join(cwd, a)


def lexical_relpath(target, start):
    """`realpath -m -s --relative-to=start target` for absolute, purely lexical paths"""
    def comps(p):
        out = []
        for c in p.split("/"):
            if c in ("", "."):
                continue
            if c == "..":
                if out:
                    out.pop()
                continue
            out.append(c)
        return out
    t, s = comps(target), comps(start)
    k = 0
    while k < len(t) and k < len(s) and t[k] == s[k]:
        k += 1
    rel = [".."] * (len(s) - k) + t[k:]
    return "/".join(rel) if rel else "."


def _put(res, rel, spec):
    """two different sources for one destination in a single call: PMS does not say which one wins"""
    old = res.entries.get(rel)
    if old is not None and old.get("type") == "file" and spec.get("type") == "file" and old.get("src") != spec.get("src"):
        spec = dict(spec, ambiguous=True)
    res.entries[rel] = spec


def _add_file_or_link(res, rel, srcpath, o, eapi, symlinks_as_links):
    if os.path.islink(srcpath) and symlinks_as_links:
        res.entries[rel] = {"type": "sym", "target": os.readlink(srcpath)}
    else:
        _put(res, rel, file_spec(srcpath, o))


def _add_tree(res, dest, srcdir, fileopts, diropts, symlinks_as_links, eapi, file_filter=None, skip_dirs=()):
    """recursive placement of directory srcdir below dest/<basename>; returns nothing.
    file_filter(path)->bool (dohtml); directories whose basename is in skip_dirs are not entered.
    With a file_filter, directories are required only if a file below them is installed."""
    base = os.path.basename(srcdir.rstrip("/"))
    top = _j(dest, base)

    def walk(sdir, drel):
        installed = False
        mine = []
        for name in sorted(os.listdir(sdir)):
            p = os.path.join(sdir, name)
            rel = _j(drel, name)
            if os.path.islink(p):
                if os.path.isdir(p) or symlinks_as_links:
                    res.entries[rel] = {"type": "sym", "target": os.readlink(p)}
                else:
                    _put(res, rel, file_spec(p, fileopts))
                installed = True
            elif os.path.isdir(p):
                if name in skip_dirs:
                    continue
                if walk(p, rel):
                    installed = True
            else:
                if file_filter is None or file_filter(p):
                    _put(res, rel, file_spec(p, fileopts))
                    installed = True
        if base == "." and drel == top:
            # `dir/.`: the contents go straight into the destination directory, whose own mode PMS leaves open
            res.entries[drel or "."] = dict(dir_spec(diropts), mode=None, uid=None, gid=None)
        elif file_filter is None or installed:
            res.entries[drel] = dir_spec(diropts)
        else:
            res.optional.add(drel)
        return installed

    walk(srcdir, top)


# ---- the model ----------------------------------------------------------------------------

def model(req, cwd, before):
    """req: {"eapi","helper","args","env":{into,insinto,exeinto,docinto,insopts,diropts,exeopts,libopts},"PF","PN"}
    cwd: real directory holding the source tree; before: fsx snapshot of the image before the call."""
    eapi = int(req["eapi"])
    h = req["helper"]
    args = list(req["args"])
    env = req.get("env", {})
    PF, PN = req.get("PF", "pkg-1.0"), req.get("PN", "pkg")
    res = Result()

    into = _tree(env.get("into", "/usr"))
    insopts = parse_install_opts(env.get("insopts", "-m0644").split())
    diropts = parse_install_opts(env.get("diropts", "-m0755").split())
    exeopts = parse_install_opts(env.get("exeopts", "-m0755").split())
    libopts = parse_install_opts(env.get("libopts", "-m0644").split())

    def img_is_real_dir(rel):
        e = before.get(rel or ".")
        return e is not None and e["type"] == "dir"

    # ---- link helpers
    if h in ("dosym", "dohard"):
        relative = False
        if h == "dosym" and args and args[0] == "-r":
            relative = True
            args = args[1:]
        if len(args) != 2:
            return res.reject("needs exactly two arguments")
        target, link = args
        if h == "dosym":
            if link.endswith("/"):
                return res.reject("link name with trailing slash")
            lrel = pp.normpath(link.lstrip("/"))
            if img_is_real_dir(lrel):
                return res.reject("link name is an existing directory in the image")
            if relative:
                if eapi < 8:
                    return res.reject("-r needs EAPI 8")
                if not target.startswith("/"):
                    return res.reject("-r needs an absolute target")
                target = lexical_relpath(target, pp.dirname("/" + link.lstrip("/")))
                res.features.append("relative")
            res.entries[lrel] = {"type": "sym", "target": target}
        else:
            srel = pp.normpath(target.lstrip("/"))
            lrel = pp.normpath(link.lstrip("/"))
            e = before.get(srel)
            if e is None or e["type"] == "dir":
                return res.reject("hard link source missing in image")
            res.entries[lrel] = {"type": "hardlink", "to": srel}
        return res

    # ---- directories
    if h in ("dodir", "keepdir"):
        if not args:
            return res.reject("no arguments")
        for a in args:
            rel = pp.normpath(a.lstrip("/")) if a.strip("/") else ""
            if rel:
                res.entries[rel] = dir_spec(diropts)
            if h == "keepdir":
                res.entries[(rel or ".") + "//keep"] = {"type": "keepfile", "dir": rel or "."}
        return res

    # ---- file installers
    recursive = False
    i18n = None
    html = {"a": None, "A": [], "f": [], "x": [], "p": ""}
    if h in ("doins", "dodoc") and args and args[0] == "-r":
        recursive = True
        args = args[1:]
    elif h == "doman":
        if args and args[0].startswith("-i18n="):
            i18n = args[0][len("-i18n="):]
            args = args[1:]
    elif h == "dohtml":
        rest = []
        it = iter(args)
        for a in it:
            if a == "-r":
                recursive = True
            elif a == "-V":
                pass
            elif a in ("-a", "-A", "-f", "-x"):
                v = next(it).split(",")
                if a == "-a":
                    html["a"] = v
                else:
                    html[a[1]].extend(v)
            elif a == "-p":
                html["p"] = next(it)
            else:
                rest.append(a)
        args = rest
    if not args:
        return res.reject("no files given")

    for a in args:
        if not os.path.lexists(_abs_src(cwd, a)):
            return res.reject(f"nonexistent source {a!r}")

    if h == "doins":
        dest, fo, do, links = _tree(env.get("insinto", "")), insopts, diropts, eapi >= 4
    elif h == "dodoc":
        dest, fo, do, links = _j("usr/share/doc", PF, _tree(env.get("docinto", ""))), FIXED_0644, FIXED_0755, False
    elif h == "doexe":
        dest, fo, do, links = _tree(env.get("exeinto", "")), exeopts, FIXED_0755, False
    elif h in ("dobin", "dosbin"):
        dest, fo, do, links = _j(into, h[2:]), ROOT_0755, FIXED_0755, False
    elif h in ("dolib", "dolib.so", "dolib.a"):
        fo = {"dolib": libopts, "dolib.so": FIXED_0755, "dolib.a": FIXED_0644}[h]
        dest, do, links = _j(into, env.get("libdir", "lib")), FIXED_0755, h == "dolib.so"
    elif h == "doman":
        dest, fo, do, links = "usr/share/man", FIXED_0644, FIXED_0755, False
    elif h == "domo":
        dest, fo, do, links = _j(into if eapi <= 6 else "usr", "share/locale"), FIXED_0644, FIXED_0755, False
    elif h == "dohtml":
        dest = _j("usr/share/doc", PF, _tree(env.get("docinto", "")) or "html", html["p"].strip("/"))
        fo, do, links = FIXED_0644, FIXED_0755, False
    elif h == "doinfo":
        dest, fo, do, links = "usr/share/info", FIXED_0644, FIXED_0755, False
    else:
        raise ValueError(h)

    d = dest
    while d:
        res.optional.add(d)
        d = pp.dirname(d)
    allowed_exts = set(html["a"] if html["a"] is not None else HTML_EXTS) | set(html["A"])

    def html_ok(p):
        b = os.path.basename(p)
        ext = b.rsplit(".", 1)[1] if "." in b else ""
        return ext in allowed_exts or b in html["f"]

    for a in args:
        sp = _abs_src(cwd, a)
        base = os.path.basename(a.rstrip("/"))
        is_dir = os.path.isdir(sp)
        if h == "doins":
            if is_dir:
                if recursive:
                    _add_tree(res, dest, sp, fo, do, links, eapi)
                else:
                    res.either("doins of a directory without -r")
            else:
                _add_file_or_link(res, _j(dest, base), sp, fo, eapi, links)
        elif h == "dodoc":
            if is_dir:
                if recursive and eapi >= 4:
                    _add_tree(res, dest, sp, fo, do, links, eapi)
                else:
                    return res.reject("dodoc of a directory without (supported) -r")
            else:
                _add_file_or_link(res, _j(dest, base), sp, fo, eapi, links)
        elif h == "dohtml":
            if is_dir:
                if recursive:
                    if base not in html["x"]:
                        _add_tree(res, dest, sp, fo, do, links, eapi, file_filter=html_ok, skip_dirs=set(html["x"]))
                else:
                    res.either("dohtml of a directory without -r")
            elif html_ok(sp):
                _put(res, _j(dest, base), file_spec(sp, fo))
        elif h == "doman":
            if is_dir:
                return res.reject("doman of a directory")
            parts = base.split(".")
            if len(parts) < 2 or not parts[0]:
                return res.reject("man page without a section suffix")
            sect = parts[-1]
            if not SECTION_RE.match(sect):
                return res.reject("not a man section")
            name = base
            langdir = ""
            file_lang = len(parts) >= 3 and LANG_RE.match(parts[-2]) is not None
            if i18n is not None and (eapi >= 4 or not (eapi >= 2 and file_lang)):
                langdir = i18n.strip("/")
            elif eapi >= 2 and file_lang:
                langdir = parts[-2]
                name = ".".join(parts[:-2] + [sect])
            res.entries[_j(dest, langdir, "man" + sect, name)] = file_spec(sp, fo)
            res.entries[_j(dest, langdir, "man" + sect)] = dir_spec(do)
        elif h == "domo":
            if is_dir:
                return res.reject("domo of a directory")
            stem = base.rsplit(".", 1)[0] if "." in base else base
            res.entries[_j(dest, stem, "LC_MESSAGES", PN + ".mo")] = file_spec(sp, fo)
        else:
            if is_dir:
                return res.reject(f"{h} of a directory")
            _add_file_or_link(res, _j(dest, base), sp, fo, eapi, links)
    return res
