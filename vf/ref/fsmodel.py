"""Path resolution over an `fsx.snapshot` dict (used by C20/C21 oracles).

The snapshot is keyed by paths relative to a root ("." is the root).  `Tree.resolve` walks a
root-relative path the way the kernel would for an lstat() inside that root: symlinks in *parent*
components are followed, the last component is not (unless follow_last).  Absolute symlink
targets are interpreted relative to the root when they start with `absprefix`
(`""` for a chroot: every absolute target is root-relative; the offset directory for an
offset-mode run: only targets pointing back into the offset are resolvable); any other absolute
target, and any `..` that climbs above the root outside a chroot, is "outside" -> None.

Written from POSIX path resolution, independent of pkgcore.
"""
import posixpath


class Tree:
    def __init__(self, snap, absprefix=""):
        self.snap = snap
        self.absprefix = absprefix.rstrip("/")
        self.chroot = absprefix == ""

    def get(self, rel):
        return self.snap.get(rel if rel else ".")

    def _abs_to_rel(self, target):
        """absolute symlink target -> list of components relative to the root, or None (outside)"""
        if self.chroot:
            return [c for c in target.split("/") if c and c != "."]
        t = posixpath.normpath(target)
        if t == self.absprefix:
            return []
        if t.startswith(self.absprefix + "/"):
            return [c for c in t[len(self.absprefix) + 1:].split("/") if c and c != "."]
        return None

    def resolve(self, rel, follow_last=False, trace=None):
        """physical root-relative path ('' = the root itself) of `rel`, or None when a parent
        component does not exist / is not a directory / leaves the root / loops.
        The returned path's last component may itself not exist.  `trace` (a list) receives the
        physical path of every symlink followed on the way."""
        todo = [c for c in rel.split("/") if c and c != "."]
        cur = []  # physical components so far (always an existing directory)
        hops = 0
        while todo:
            c = todo.pop(0)
            if c == "..":
                if cur:
                    cur.pop()
                elif not self.chroot:
                    return None
                continue
            cand = "/".join(cur + [c])
            e = self.snap.get(cand)
            last = not todo
            if e is None:
                return cand if last else None
            if e["type"] == "sym" and (not last or follow_last):
                hops += 1
                if hops > 40:
                    return None
                if trace is not None:
                    trace.append(cand)
                tgt = e["target"]
                if tgt.startswith("/"):
                    comps = self._abs_to_rel(tgt)
                    if comps is None:
                        return None
                    cur = []
                else:
                    comps = [x for x in tgt.split("/") if x and x != "."]
                todo = comps + todo
                continue
            if last:
                return cand
            if e["type"] != "dir":
                return None
            cur.append(c)
        return "/".join(cur)

    def lexists(self, rel):
        p = self.resolve(rel)
        return p is not None and (p == "" or p in self.snap)

    def children(self, phys):
        pre = phys + "/" if phys else ""
        return [p for p in self.snap if p != "." and p.startswith(pre) and p != phys]
