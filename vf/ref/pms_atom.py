r"""Independent acceptor/parser for PMS package dependency specifications ("atoms").

Written from the PMS text (chapter 3 "Names and Versions", section 8.3 "Package
dependency specifications", the per-EAPI feature tables 8.4-8.7); it shares no code with
pkgcore.ebuild.atom / cpv / eapi and does not read pkgcore's EAPI objects.

Grammar implemented (``eapi`` selects which optional parts are legal)::

    atom      := blocker? ( op cat "/" pkg "-" fullver "*"? | cat "/" pkg ) slotdep? repodep? usedep?
    blocker   := "!" | "!!"                       "!!" needs strong blockers (EAPI >= 2)
    op        := "<" | "<=" | "=" | "~" | ">=" | ">"      "*" only after "=" ; "~" takes no revision
    cat       := [A-Za-z0-9+_.-]+   not starting with - . +
    pkg       := [A-Za-z0-9+_-]+    not starting with - + ; must not end in "-" + fullver syntax
    fullver   := [0-9]+(\.[0-9]+)*[a-z]?(_(alpha|beta|pre|rc|p)[0-9]*)*(-r[0-9]+)?
    slotdep   := ":" slot                          EAPI >= 1
               | ":" slot "/" slot | ":" slot ("/" slot)? "=" | ":*" | ":="     EAPI >= 5
    slot      := [A-Za-z0-9+_.-]+   not starting with - . +
    repodep   := "::" repo                         only for eapi=None (pkgcore extension, not PMS)
    repo      := [A-Za-z0-9_-]+     not starting with -
    usedep    := "[" item ("," item)* "]"          EAPI >= 2
    item      := "-"? flag default? | "!"? flag default? ("?" | "=")
    default   := "(+)" | "(-)"                     EAPI >= 4
    flag      := [A-Za-z0-9][A-Za-z0-9+_@-]*

All character classes are ASCII and the whole string must be consumed (no trailing newline).

Deliberate readings (documented, the property checks rely on them):

* ``~`` combined with a revision is rejected.  PMS only says the revision is ignored; portage
  and pkgcore's own test-suite (tests/ebuild/test_atom.py::test_norev) define it as malformed.
* ``:slot/subslot=`` is accepted for EAPI >= 5 (package managers write it to the VDB).
* ``::repo`` is not PMS; it is accepted only for ``eapi=None`` with the character set pkgcore
  documents in its error messages.  PMS' extra rule "a repository name must also be a valid
  package name" is NOT applied to the extension.
* ``eapi=None`` ("no EAPI given") means: every feature of the newest EAPI plus ``::repo``.

``DIALECT_FLAGS`` name two places where pkgcore's test-suite pins behaviour that differs from
the PMS text; ``parse(..., dialect={flag})`` evaluates the grammar with that one rule relaxed so
a caller can attribute a disagreement to its root cause:

* ``upper_version_letter``: version letter ``[a-zA-Z]`` instead of ``[a-z]`` (``=c/p-1A``)
* ``slot_leading_plus``:    slot names may start with ``+`` (``c/p:+x``)

Public API: ``features_for``, ``parse`` (-> Fields dict or raises Reject), ``parse_any`` + ``gate``
(the EAPI-independent parse and the per-EAPI feature gate ``parse`` is composed of; use them to
judge one string under many EAPIs with a single parse), ``accepts``, ``why``, ``render``,
``valid_*`` predicates for the individual name classes, ``version_tail``, ``EAPIS``, ``FEATURES``.
"""
from __future__ import annotations

import re

EAPIS = ("0", "1", "2", "3", "4", "5", "6", "7", "8", "9", None)

DIALECT_FLAGS = ("upper_version_letter", "slot_leading_plus")

FEATURES = ("strong_blockers", "slot_deps", "sub_slots", "use_deps", "use_defaults", "repo_ids")


def features_for(eapi):
    """set of optional atom features legal under `eapi` ('0'..'9' or None), from the PMS tables."""
    if eapi is None:
        return frozenset(FEATURES)
    n = int(eapi)
    if not 0 <= n <= 9:
        raise ValueError(f"unknown EAPI {eapi!r}")
    f = set()
    if n >= 1:
        f.add("slot_deps")
    if n >= 2:
        f.update(("use_deps", "strong_blockers"))
    if n >= 4:
        f.add("use_defaults")
    if n >= 5:
        f.add("sub_slots")
    return frozenset(f)


class Reject(Exception):
    """the string is not a valid atom; .rule is a short stable identifier of the violated rule"""

    def __init__(self, rule):
        super().__init__(rule)
        self.rule = rule


_CAT = re.compile(r"[A-Za-z0-9_][A-Za-z0-9+_.-]*\Z")
_PKG = re.compile(r"[A-Za-z0-9_][A-Za-z0-9+_-]*\Z")
_SLOT = re.compile(r"[A-Za-z0-9_][A-Za-z0-9+_.-]*\Z")
_SLOT_PLUS = re.compile(r"[A-Za-z0-9_+][A-Za-z0-9+_.-]*\Z")
_REPO = re.compile(r"[A-Za-z0-9_][A-Za-z0-9_-]*\Z")
_FLAG = re.compile(r"[A-Za-z0-9][A-Za-z0-9+_@-]*\Z")
_VERSION = r"[0-9]+(?:\.[0-9]+)*[a-z]?(?:_(?:alpha|beta|pre|rc|p)[0-9]*)*"
_VERSION_UP = r"[0-9]+(?:\.[0-9]+)*[a-zA-Z]?(?:_(?:alpha|beta|pre|rc|p)[0-9]*)*"
_FULLVER = re.compile(rf"({_VERSION})(?:-r([0-9]+))?\Z")
_FULLVER_UP = re.compile(rf"({_VERSION_UP})(?:-r([0-9]+))?\Z")
_OPS = ("<=", ">=", "<", ">", "=", "~")  # longest first


def _fullver_re(dialect):
    return _FULLVER_UP if "upper_version_letter" in dialect else _FULLVER


def valid_category(s):
    return bool(_CAT.match(s))


def valid_slot(s, dialect=frozenset()):
    return bool((_SLOT_PLUS if "slot_leading_plus" in dialect else _SLOT).match(s))


def valid_repo(s):
    return bool(_REPO.match(s))


def valid_use_flag(s):
    return bool(_FLAG.match(s))


def valid_fullver(s, dialect=frozenset()):
    return bool(_fullver_re(dialect).match(s))


def version_tail(name, dialect=frozenset()):
    """the version-like tail of `name` ('foo-1-r1' -> '1-r1'), or None"""
    fv = _fullver_re(dialect)
    for i, ch in enumerate(name):
        if ch == "-" and fv.match(name[i + 1:]):
            return name[i + 1:]
    return None


def valid_pkgname(s, dialect=frozenset()):
    return bool(_PKG.match(s)) and version_tail(s, dialect) is None


def _split_versioned(pv, dialect):
    """'foo-1.2-r1' -> ('foo', '1.2', '1'); Reject if there is no valid (name, fullver) split"""
    fv = _fullver_re(dialect)
    hits = []
    for i, ch in enumerate(pv):
        if ch != "-":
            continue
        m = fv.match(pv[i + 1:])
        if m and valid_pkgname(pv[:i], dialect):
            hits.append((pv[:i], m.group(1), m.group(2)))
    if len(hits) > 1:  # cannot happen (a fullver holds at most one hyphen, directly before r<digits>)
        raise AssertionError(f"ambiguous name/version split for {pv!r}: {hits}")
    if hits:
        return hits[0]
    # classify why
    if "-" not in pv:
        raise Reject("op-needs-version")
    for i, ch in enumerate(pv):
        if ch == "-" and fv.match(pv[i + 1:]):
            raise Reject("pkgname")
    raise Reject("version")


def _parse_use(body):
    out = []
    for item in body.split(","):
        x = item
        if not x:
            raise Reject("use-empty")
        if x[-1] in "?=":
            x = x[:-1]
            if x.startswith("!"):
                x = x[1:]
        elif x.startswith("-"):
            x = x[1:]
        if x.endswith("(+)") or x.endswith("(-)"):
            x = x[:-3]
        if not valid_use_flag(x):
            raise Reject("use-flag" if x else "use-empty")
        out.append(item)
    return out


_GATE_ORDER = ("slot_deps", "sub_slots", "use_deps", "use_defaults", "strong_blockers", "repo_ids")


def gate(fields, eapi):
    """None if every feature `fields` needs is legal under `eapi`, else the rule id 'gate:<feature>'"""
    feats = features_for(eapi)
    for feat in _GATE_ORDER:
        if feat in fields["features"] and feat not in feats:
            return "gate:" + feat
    return None


def parse(s, eapi, dialect=frozenset()):
    """Parse `s` under `eapi`; returns the Fields dict or raises Reject(rule).

    Fields: blocks, strong (bool); op ('' '<' '<=' '=' '=*' '~' '>=' '>'); category, package;
    version, revision (str or None; revision as written, digits only); slot, subslot,
    slot_op (None '=' '*'); repo; use (list of items as written, or None); features (set of
    FEATURES the string needs).  Equivalent to parse_any() followed by gate()."""
    f = parse_any(s, dialect)
    g = gate(f, eapi)
    if g is not None:
        raise Reject(g)
    return f


def parse_any(s, dialect=frozenset()):
    """Parse `s` with every optional feature enabled (the EAPI-independent part of the grammar);
    the returned Fields' `features` says which EAPIs accept it (see gate())."""
    if not isinstance(s, str):
        raise TypeError(s)
    dialect = frozenset(dialect)
    if not s:
        raise Reject("empty")
    f = dict(blocks=False, strong=False, op="", category=None, package=None, version=None,
             revision=None, slot=None, subslot=None, slot_op=None, repo=None, use=None)
    need = set()
    rest = s
    # ---- blocker
    if rest.startswith("!!"):
        f["blocks"] = f["strong"] = True
        need.add("strong_blockers")
        rest = rest[2:]
    elif rest.startswith("!"):
        f["blocks"] = True
        rest = rest[1:]
    # ---- operator
    op = ""
    for o in _OPS:
        if rest.startswith(o):
            op = o
            rest = rest[len(o):]
            break
    # ---- qualified name: up to the first ':' or '['
    end = len(rest)
    for i, ch in enumerate(rest):
        if ch in ":[":
            end = i
            break
    qn, tail = rest[:end], rest[end:]
    glob = False
    if qn.endswith("*"):
        if op != "=":
            raise Reject("glob-op")
        glob = True
        qn = qn[:-1]
    if qn.count("/") != 1:
        raise Reject("structure" if qn else "empty-name")
    cat, pv = qn.split("/")
    if not valid_category(cat):
        raise Reject("category")
    if op:
        name, ver, rev = _split_versioned(pv, dialect)
        if op == "~" and rev is not None:
            raise Reject("tilde-revision")
        f.update(package=name, version=ver, revision=rev)
    else:
        if not _PKG.match(pv):
            raise Reject("pkgname")
        if version_tail(pv, dialect) is not None:
            raise Reject("version-needs-op")
        f["package"] = pv
    f["category"] = cat
    f["op"] = "=*" if glob else op
    # ---- slot dependency
    if tail.startswith(":") and not tail.startswith("::"):
        end = len(tail)
        for i in range(1, len(tail)):
            if tail[i] == "[" or tail.startswith("::", i):
                end = i
                break
        sd, tail = tail[1:end], tail[end:]
        need.add("slot_deps")
        if sd in ("*", "="):
            f["slot_op"] = sd
            need.add("sub_slots")
        else:
            if sd.endswith("="):
                f["slot_op"] = "="
                need.add("sub_slots")
                sd = sd[:-1]
            parts = sd.split("/")
            if len(parts) > 2:
                raise Reject("slot-name")
            if len(parts) == 2:
                need.add("sub_slots")
                f["subslot"] = parts[1]
            f["slot"] = parts[0]
            for p in parts:
                if not valid_slot(p, dialect):
                    raise Reject("slot-name" if p else "slot-empty")
    # ---- repository (extension)
    if tail.startswith("::"):
        end = tail.find("[")
        if end == -1:
            end = len(tail)
        repo, tail = tail[2:end], tail[end:]
        need.add("repo_ids")
        if not valid_repo(repo):
            raise Reject("repo-name" if repo else "repo-empty")
        f["repo"] = repo
    # ---- use dependency
    if tail.startswith("["):
        if not tail.endswith("]") or "]" in tail[1:-1] or "[" in tail[1:]:
            raise Reject("use-structure")
        need.add("use_deps")
        f["use"] = _parse_use(tail[1:-1])
        if any(x.rstrip("?=").endswith(")") for x in f["use"]):
            need.add("use_defaults")
        tail = ""
    if tail:
        raise Reject("trailing-garbage")
    f["features"] = frozenset(need)
    return f


def accepts(s, eapi, dialect=frozenset()) -> bool:
    try:
        parse(s, eapi, dialect)
    except Reject:
        return False
    return True


def why(s, eapi, dialect=frozenset()):
    """None if accepted, else the rule identifier"""
    try:
        parse(s, eapi, dialect)
    except Reject as e:
        return e.rule
    return None


def render(f) -> str:
    """canonical text for a Fields dict (the order PMS/pkgcore write the parts in)"""
    s = ""
    if f["blocks"]:
        s += "!!" if f["strong"] else "!"
    op = f["op"]
    s += "=" if op == "=*" else op
    s += f"{f['category']}/{f['package']}"
    if f["version"] is not None:
        s += f"-{f['version']}"
        if f["revision"] is not None:
            s += f"-r{f['revision']}"
    if op == "=*":
        s += "*"
    if f["slot"] is not None:
        s += f":{f['slot']}"
        if f["subslot"] is not None:
            s += f"/{f['subslot']}"
        if f["slot_op"] == "=":
            s += "="
    elif f["slot_op"]:
        s += f":{f['slot_op']}"
    if f["repo"] is not None:
        s += f"::{f['repo']}"
    if f["use"] is not None:
        s += "[" + ",".join(f["use"]) + "]"
    return s
