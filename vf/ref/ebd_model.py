"""Reference model of the bash side of pkgcore's ebuild daemon protocol (property C35).

Hand transcription, at *message granularity*, of

    data/lib/pkgcore/ebd/ebuild-daemon.bash      __ebd_main_loop, __ebd_process_ebuild_phases,
                                                 __ebd_process_metadata, signal handlers
    data/lib/pkgcore/ebd/ebuild-daemon-lib.bash  __ebd_read_line/_size/_array, __ebd_write_*,
                                                 __ebd_ipc_cmd, __internal_inherit, __source_bashrcs
    data/lib/pkgcore/ebd/exit-handling.bash      die  ("dying <log>" ... "dead", exit 1)
    data/lib/pkgcore/ebd/ebuild.bash             __execute_phases (only what is written to the pipe:
                                                 key lines, receive_env)

It is written from the bash source only (never from processor.py), so that the Python side can be
run against it.  What the ebuild/eclass code does while a phase runs is not bash-daemon logic but
*daemon-side events*; they are given to the model as a script (one list per execution request):

    ["inherit", name]          inherit: "request_inherit name", then reads mode line + data line
                               (skipped silently when the eclass was preloaded, as in bash)
    ["bashrcs"]                __source_bashrcs conversation
    ["ipc", cmd, [args], nf]   helper request (__ebd_ipc_cmd): 6 lines out, one array line in;
                               non-zero status and not nonfatal => die
    ["stderr", n]              n lines on stderr (only visible in a failing gen_metadata reply)
    ["die", n]                 die with n message lines
    ["exit", status]           the (sub)shell ends with `status` without die (ebuild called exit /
                               fatal expansion error)
    ["sig", "INT"|"TERM"]      the signal is delivered to the daemon's *main pid* now.  bash defers
                               the trap until the foreground subshell is finished, then the handler
                               writes the notice and exits *instead of* the "phases ..." reply
                               (checked against real bash 5.2: see vf/props/c35.py conformance)
    (end of list)              phase function returns; depend => key lines (n = model.nkeys),
                               generate_env => "receive_env N" + N raw bytes; subshell exit 0

plus `idle_signals = {k: "INT"|"TERM"}`: signal delivered while the main loop waits for its k-th
command (0-based) -> handler writes the notice, exit.

Every output line carries a hidden Tag(end, kind): `end` = number of input bytes the daemon had
consumed when it wrote the line (= stream offset of the end of the request the line answers),
`kind` in {reply_ok, reply_fail, event, notice, die}.  The tag never reaches the code under test;
the harness uses it to decide whether a line was consumed by the request it belongs to.

Simplifications (stated, not hidden):
  * `read` without -r strips leading/trailing blanks and removes backslashes; payloads the harness
    sends contain neither, so only the stripping is modelled.
  * __ebd_read_size counts bytes: the daemon is spawned without LANG/LC_* (C locale), so `read -N`
    counts bytes; checked by the conformance run with non-ASCII payloads.
  * whether an env chunk evaluates successfully / an eclass passes `bash -n` is decided by
    predicates given by the harness (`env_ok`, `eclass_ok`), not by interpreting bash.
  * die output text is abstract ("<die text i>"); only its framing (dying ... dead) matters.
  * signals are only modelled as delivered to the main pid (what kill <pid> does); the sandbox
    summary request is not modelled (unreachable: __execute_phases never returns non-zero).
"""
from __future__ import annotations

from collections import deque, namedtuple

Tag = namedtuple("Tag", "end kind cmd")

# behaviour of the pinned bash source that a maintainer may legitimately change; detected from the
# source text of the tree under test (and cross-checked by the conformance traces)
FEATURES_PINNED = {"multiline_fail_reply": True}


def detect_features(ebd_dir):
    """multiline_fail_reply: the gen_metadata failure reply embeds the captured stderr verbatim
    (`__ebd_write_line "phases failed ${error_output}"`), i.e. one protocol reply may span lines"""
    import os
    import re

    with open(os.path.join(ebd_dir, "ebuild-daemon.bash")) as f:
        src = f.read()
    m = re.search(r'__ebd_write_line "phases failed (\$\{error_output[^"]*\})"', src)
    if not m:
        raise ValueError("cannot find the gen_metadata failure reply in ebuild-daemon.bash")
    return {"multiline_fail_reply": m.group(1) == "${error_output}"}

WAIT = "WAIT"


class _Exit(Exception):
    def __init__(self, status):
        self.status = status


class Daemon:
    def __init__(self, scripts=None, idle_signals=None, env_ok=None, eclass_ok=None, nkeys=3,
                 handshake=False, cwd="/", sandbox_log=None, features=None, env_events=None, on_reply_input=None):
        # scripts: list of event lists (k-th execution request uses scripts[k]) or a callable
        # returning the event list for the execution request that is starting
        self.scripts = scripts if callable(scripts) else [list(s) for s in (scripts or [])]
        self.cwd = cwd
        self.sandbox_log = sandbox_log
        self.features = dict(FEATURES_PINNED, **(features or {}))
        # env_events(payload) -> events the evaluated env chunk itself performs (a chunk is bash code; the
        # conformance driver sends chunks that call __source_bashrcs / __internal_inherit directly)
        self.env_events = env_events or (lambda payload: [])
        # on_reply_input(rec, line): called whenever running ebuild code consumes a line as the *reply* to
        # one of its own requests (inherit / bashrcs / helper); lets the harness see which bytes those were
        self.on_reply_input = on_reply_input or (lambda rec, line: None)
        self.idle_signals = {int(k): v for k, v in (idle_signals or {}).items()}
        self.env_ok = env_ok or (lambda payload: True)
        self.eclass_ok = eclass_ok or (lambda path: True)
        self.nkeys = nkeys

        self.inbuf = bytearray()
        self.in_closed = False  # python closed its write end
        self.out_closed = False  # python closed its read end
        self.consumed = 0
        self.out = deque()  # (bytes, Tag)
        self.alive = True
        self.status = None
        self.waiting = False  # blocked in read with no data
        self.where = "startup"  # for diagnostics: which loop is reading
        self.cur_cmd = ""

        self.main_cmds = 0  # commands read by the main loop
        self.exec_index = 0
        self.execs = []  # per execution request: dict(cmd, outcome, keys, tagend)
        self.preloaded = {}
        self.metadata_path = None
        self.pending_trap = None  # signal received by the main pid while a subshell runs
        self.disable_die = False
        self.logfile = ""

        self._co = self._exec_main() if handshake else self._main_loop()

    # ------------------------------------------------------------------ endpoints
    def feed(self, data: bytes):
        if data:
            self.inbuf += data

    def close_input(self):
        self.in_closed = True

    def close_output(self):
        self.out_closed = True

    def pump(self):
        """run until the daemon blocks on input or exits; returns True if anything happened"""
        if not self.alive:
            return False
        before = (self.consumed, len(self.out))
        try:
            self.waiting = False
            while True:
                r = next(self._co)
                if r is WAIT:
                    self.waiting = True
                    break
        except StopIteration:
            self._die_process(0)
        except _Exit as e:
            self._die_process(e.status)
        return before != (self.consumed, len(self.out)) or not self.alive

    def kill(self):
        """SIGKILL of the process group"""
        if self.alive:
            self._die_process(-9)

    def _die_process(self, status):
        self.alive = False
        self.waiting = False
        self.status = status
        self.inbuf.clear()

    # ------------------------------------------------------------------ bash i/o primitives
    def _w(self, text, kind="event", raw=False):
        """__ebd_write_line / __ebd_write_raw"""
        if self.out_closed:
            raise _Exit(141)  # SIGPIPE
        data = text.encode("utf8") if isinstance(text, str) else text
        if not raw:
            data += b"\n"
        self.out.append((data, Tag(self.consumed, kind, self.cur_cmd)))

    def _read_raw_line(self):
        while True:
            i = self.inbuf.find(b"\n")
            if i >= 0:
                line = bytes(self.inbuf[:i])
                del self.inbuf[: i + 1]
                self.consumed += i + 1
                return line
            if self.in_closed:
                self.consumed += len(self.inbuf)
                self.inbuf.clear()
                return None
            yield WAIT

    def _read_line_nonfatal(self):
        """read -u fd var : strips blanks (IFS), None on EOF"""
        line = yield from self._read_raw_line()
        if line is None:
            return None
        return line.decode("utf8", "replace").strip(" \t").replace("\\", "")

    def _read_line(self):
        line = yield from self._read_line_nonfatal()
        if line is None:
            yield from self._die(1, "coms error, read_line failed")
        return line

    def _read_size(self, count):
        """read -r -N count var ; die on bad count / EOF"""
        try:
            n = int(count)
            if n < 0:
                raise ValueError
        except ValueError:
            yield from self._die(1, "coms error, read_size failed")
        while len(self.inbuf) < n:
            if self.in_closed:
                self.consumed += len(self.inbuf)
                self.inbuf.clear()
                yield from self._die(1, "coms error, read_size failed")
            yield WAIT
        data = bytes(self.inbuf[:n])
        del self.inbuf[:n]
        self.consumed += n
        return data

    def _die(self, nlines, msg="die"):
        """exit-handling.bash die(): dying <logfile>, error text, dead, exit 1"""
        if self.disable_die:
            return
        self._w(f"dying {self.logfile}", "die")
        for i in range(max(1, nlines)):
            self._w(f" * <die text {i}: {msg}>", "die")
        self._w("dead", "die")
        raise _Exit(1)
        yield  # pragma: no cover  (makes this a generator so callers can `yield from`)

    # ------------------------------------------------------------------ signals
    def _run_trap(self, sig):
        """__ebd_sigint_handler / __ebd_sigterm_handler in the main shell"""
        self.disable_die = True
        self.cur_cmd = "signal"
        self._w("SIG" + sig, "notice")
        raise _Exit(2 if sig == "INT" else 15)

    # ------------------------------------------------------------------ startup (__ebd_exec_main)
    def _early_die(self):
        """the temporary die() of ebuild-daemon.bash: message to stderr, exit 1 (nothing on the pipe)"""
        raise _Exit(1)

    def _exec_main(self):
        self.where = "startup"
        com = yield from self._read_line_nonfatal()
        self.cur_cmd = "ebd?"
        if com != "ebd?":
            self._early_die()
        self._w("ebd!", "reply_ok")
        com = yield from self._read_line_nonfatal()  # real die is loaded now
        if com is None:
            yield from self._die(1, "coms error, read_line failed")
        self.cur_cmd = com
        if com == "sandbox_log?":
            if not self.sandbox_log:
                yield from self._die(1, "sandbox enabled but no SANDBOX_LOG?!")
            self._w(self.sandbox_log, "reply_ok")
        elif com == "no_sandbox":
            pass
        else:
            yield from self._die(1, f"unknown sandbox com: '{com}'")
        self._w("BASHOPTS BASHPID BASH_VERSINFO EUID PPID SHELLOPTS UID", "reply_ok")
        yield from self._main_loop()

    # ------------------------------------------------------------------ main loop
    def _main_loop(self):
        while True:
            self.where = "main"
            sig = self.idle_signals.get(self.main_cmds)
            if sig:
                self._run_trap(sig)
            com = yield from self._read_line_nonfatal()
            if com is None:
                com = "shutdown_daemon"
            self.main_cmds += 1
            self.cur_cmd = com.split(" ", 1)[0]
            if com.startswith("process_ebuild"):
                phases = com[len("process_ebuild"):].split()
                rec = self._new_exec("process_ebuild", phases)
                st = yield from self._subshell(self._phase_subshell(phases, rec))
                self.where = "main"
                if self.pending_trap:
                    rec["outcome"] = "signaled"
                    self._run_trap(self.pending_trap)
                self.cur_cmd = "process_ebuild"
                if st == 0:
                    self._w("phases succeeded", "reply_ok")
                else:
                    self._w(f"phases failed ebd::{self._strip_last_word(com)} failed", "reply_fail")
            elif com == "shutdown_daemon":
                return
            elif com.startswith("preload_eclass "):
                ok = True
                for e in com[len("preload_eclass "):].split():
                    if not self.eclass_ok(e):
                        ok = False
                        break
                    x = e.rsplit("/", 1)[-1]
                    if x.endswith(".eclass"):
                        x = x[: -len(".eclass")]
                    self.preloaded[x] = e
                self._w("preload_eclass " + ("succeeded" if ok else "failed"), "reply_ok" if ok else "reply_fail")
            elif com == "clear_preloaded_eclasses":
                self.preloaded = {}
                self._w("clear_preloaded_eclasses succeeded", "reply_ok")
            elif com.startswith("set_metadata_path "):
                data = yield from self._read_size(com[len("set_metadata_path "):])
                self.metadata_path = data
                self._w("metadata_path_received", "reply_ok")
            elif com.startswith("gen_metadata ") or com.startswith("gen_ebuild_env "):
                mode = "generate_env" if com.startswith("gen_ebuild_env") else "depend"
                rec = self._new_exec(com.split(" ", 1)[0], [mode])
                stderr = []
                st = yield from self._subshell(self._metadata_subshell(com.split(" ", 1)[1], mode, rec, stderr))
                self.where = "main"
                if self.pending_trap:
                    rec["outcome"] = "signaled"
                    self._run_trap(self.pending_trap)
                self.cur_cmd = com.split(" ", 1)[0]
                if st == 0:
                    self._w("phases succeeded", "reply_ok")
                else:
                    sep = "\n" if self.features["multiline_fail_reply"] else " "
                    err = sep.join(stderr) or f"ebd::{self._strip_last_word(com)} failed"
                    self._w("phases failed " + err, "reply_fail")
            elif com == "alive":
                self._w("yep!", "reply_ok")
            else:
                yield from self._die(1, f"unknown ebd com: '{com}'")

    @staticmethod
    def _strip_last_word(com):
        """${com% *}"""
        i = com.rfind(" ")
        return com if i < 0 else com[:i]

    def _new_exec(self, cmd, phases):
        if callable(self.scripts):
            script = list(self.scripts(cmd) or [])
        else:
            script = self.scripts[self.exec_index] if self.exec_index < len(self.scripts) else []
        rec = {"cmd": cmd, "phases": phases, "outcome": "running", "keys": {}, "index": self.exec_index,
               "script": script, "cwd": self.cwd}
        self.exec_index += 1
        self.execs.append(rec)
        return rec

    def _subshell(self, gen):
        """( ... ) : exit inside only ends the subshell; returns its status"""
        saved = (self.logfile,)
        try:
            yield from gen
            st = 0
        except _Exit as e:
            st = e.status
        (self.logfile,) = saved  # variable assignments do not leak out of a subshell
        return st

    # ------------------------------------------------------------------ process_ebuild
    def _phase_subshell(self, phases, rec):
        self.where = "phase-loop"
        while True:
            line = yield from self._read_line()
            self.cur_cmd = line.split(" ", 1)[0]
            if line.startswith("start_receiving_env"):
                rest = line[len("start_receiving_env"):]
                if rest.startswith(" "):
                    rest = rest[1:]
                if rest.startswith("file"):
                    path = rest[len("file"):].lstrip(" ")
                    try:
                        with open(path, "rb") as f:
                            ok = self.env_ok(f.read())
                    except OSError:
                        ok = False
                elif rest.startswith("bytes"):
                    payload = yield from self._read_size(rest[len("bytes"):].strip())
                    ok = self.env_ok(payload)
                    if ok:
                        rec.setdefault("tagend", self.consumed)
                        yield from self._run_events(rec, [list(e) for e in self.env_events(payload)], "phase", None)
                        self.where = "phase-loop"
                else:
                    ok = True
                    while True:
                        l2 = yield from self._read_line()
                        if l2 == "end_receiving_env":
                            break
                        if not self.env_ok(l2.encode()):
                            ok = False
                            break
                if not ok:
                    rec["outcome"] = "env_failed"
                    self._w("env_receiving_failed", "reply_fail")
                    raise _Exit(1)
                self._w("env_received", "reply_ok")
            elif line.startswith("logging"):
                self.logfile = line[len("logging"):].lstrip(" ")
                self._w("logging_ack", "reply_ok")
            elif line.startswith("set_sandbox_state"):
                pass
            elif line == "start_processing":
                break
            elif line == "shutdown_daemon":
                rec["outcome"] = "left"
                return
            elif line == "alive":
                self._w("yep!", "reply_ok")
            else:
                rec["outcome"] = "died"
                yield from self._die(1, f"unknown phase processing com: '{line}'")
        yield from self._execute(rec, "phase")

    # ------------------------------------------------------------------ gen_metadata / gen_ebuild_env
    def _metadata_subshell(self, size, mode, rec, stderr):
        self.where = "metadata"
        payload = yield from self._read_size(size)
        if not self.env_ok(payload):
            rec["outcome"] = "failed"
            stderr.append("bash: export: not a valid identifier")
            raise _Exit(1)
        yield from self._execute(rec, mode, stderr)

    # ------------------------------------------------------------------ what ebuild code does
    def _execute(self, rec, mode, stderr=None):
        self.where = "exec"
        rec["tagend"] = self.consumed
        yield from self._run_events(rec, rec["script"], mode, stderr)
        self._finish(rec, mode)

    def _reply_line(self, rec):
        """a line read as the reply to a request the running ebuild code made itself"""
        line = yield from self._read_line()
        self.on_reply_input(rec, line)
        return line

    def _run_events(self, rec, events, mode, stderr):
        self.where = "exec"
        for ev in events:
            kind = ev[0]
            self.cur_cmd = "exec:" + kind
            if kind == "inherit":
                name = ev[1]
                if name in self.preloaded:
                    continue
                self._w(f"request_inherit {name}")
                line = yield from self._reply_line(rec)
                if line in ("path", "transfer"):
                    yield from self._reply_line(rec)
                else:
                    rec["outcome"] = "died"
                    yield from self._die(1, f"unknown inherit command from python for eclass {name}: '{line}'")
            elif kind == "bashrcs":
                self._w("request_bashrcs")
                line = yield from self._reply_line(rec)
                while line != "end_request":
                    if line in ("path", "transfer"):
                        # the ack is written whatever the status of the sourced file's last command is
                        yield from self._reply_line(rec)
                    else:
                        self._w("failed")
                        rec["outcome"] = "died"
                        yield from self._die(1, f"unknown profile bashrc transfer mode from python: '{line}'")
                    self._w("next", "reply_ok")
                    line = yield from self._reply_line(rec)
            elif kind == "ipc":
                _, cmd, args, nonfatal = ev
                self._w(cmd)
                self._w("true" if nonfatal else "false")
                self._w(rec.get("cwd", "/"))
                self._w(rec["phases"][0] if rec["phases"] else "")
                self._w("")
                self._w(b"".join(a.encode() + b"\0" for a in args))
                raw = yield from self._read_raw_line()  # __ebd_read_array
                self.on_reply_input(rec, raw)
                if raw is None:
                    rec["outcome"] = "died"
                    yield from self._die(1, "coms error, read_array failed")
                ret = raw.decode("utf8", "replace").split("\x07")
                rec.setdefault("ipc_rets", []).append(ret)
                if ret[0].strip() != "0" and not nonfatal:
                    rec["outcome"] = "died"
                    yield from self._die(1, f"{cmd}: exitcode {ret[0]}")
            elif kind == "stderr":
                if stderr is not None:
                    stderr.extend(f"<stderr {i}>" for i in range(ev[1]))
            elif kind == "die":
                rec["outcome"] = "died"
                yield from self._die(ev[1], "ebuild called die")
            elif kind == "exit":
                rec["outcome"] = "failed" if ev[1] else "exit0"  # exit 0: no keys / env were written
                raise _Exit(ev[1])
            elif kind == "sig":
                if self.pending_trap is None:
                    self.pending_trap = ev[1]
            else:
                raise ValueError(f"unknown model event {ev!r}")

    def _finish(self, rec, mode):
        self.cur_cmd = "exec:end"
        if mode == "depend":
            for i in range(self.nkeys):
                k, v = f"K{i}", f"x{rec['index']}v{i}"
                rec["keys"][k] = v
                self._w(f"key {k}={v}")
        elif mode == "generate_env":
            body = f"declare -x MODEL_ENV_{rec['index']}=1"
            rec["env"] = body
            self._w(f"receive_env {len(body)}")
            self._w(body, raw=True)
        rec["outcome"] = "ok"
        raise _Exit(0)


# ---------------------------------------------------------------------- trace abstraction
def tokens(lines):
    """Abstract a daemon->python line sequence (list of str without trailing newline) to the
    tokens the protocol distinguishes; used to compare recorded real traces with model output."""
    out = []
    i = 0
    n = len(lines)
    while i < n:
        l = lines[i]
        cmd = l.strip().split(" ", 1)[0] if l.strip() else ""
        if cmd == "dying":
            out.append("dying")
            i += 1
            while i < n and lines[i].strip() != "dead":
                i += 1
            if i < n:
                out.append("dead")
                i += 1
            continue
        if cmd == "key":
            if not out or out[-1] != "key+":
                out.append("key+")
        elif cmd == "receive_env":
            out.append("receive_env")
        elif cmd == "phases":
            out.append(" ".join(l.split(" ")[:2]))
        elif cmd == "request_inherit":
            out.append(l.strip())
        else:
            out.append(l.strip())
        i += 1
    return out
