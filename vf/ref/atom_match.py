"""Reference semantics of "atom matches package" (PMS 8.3 package dependency specifications), written
from the PMS text and the C04 statement, independent of pkgcore.ebuild.atom / restricts.

An atom is described by *fields* (a plain dict, the generator knows them by construction -- nothing is
parsed back out of pkgcore):

    {"blocks": "" | "!" | "!!", "op": "" | "<" | "<=" | "=" | "~" | ">=" | ">" | "=*",
     "cat": str, "pkg": str, "ver": str|None, "rev": str|None,
     "slot": str|None, "subslot": str|None, "slotop": None | "=" | "*",
     "repo": str|None, "use": [token, ...]}          token = [-]flag[(+)|(-)]  (non-conditional forms)

A package is {"cat","pkg","ver","rev","slot","subslot","repo","iuse":[...],"use":[...]}.

Version operators: vf.ref.pms_version (op_holds for < <= = ~ >= >, glob_holds for =V*).
"""
from . import pms_version as R


def fullver(ver, rev):
    return ver if rev is None else f"{ver}-r{rev}"


def atom_str(f):
    """the spelling of the atom `f` (extended syntax: ::repo allowed)"""
    s = f.get("blocks", "")
    op = f.get("op", "")
    if op == "=*":
        s += "="
    else:
        s += op
    s += f"{f['cat']}/{f['pkg']}"
    if op:
        s += "-" + fullver(f["ver"], f.get("rev"))
    if op == "=*":
        s += "*"
    slot, sub, sop = f.get("slot"), f.get("subslot"), f.get("slotop")
    if slot is not None:
        s += ":" + slot
        if sub is not None:
            s += "/" + sub
        if sop == "=":
            s += "="
    elif sop:
        s += ":" + sop
    if f.get("repo") is not None:
        s += "::" + f["repo"]
    if f.get("use"):
        s += "[" + ",".join(f["use"]) + "]"
    return s


def split_use_token(tok):
    """'-flag(+)' -> (negated, flag, default) with default in (None, True, False)"""
    neg = tok.startswith("-")
    if neg:
        tok = tok[1:]
    default = None
    if tok.endswith("(+)"):
        default, tok = True, tok[:-3]
    elif tok.endswith("(-)"):
        default, tok = False, tok[:-3]
    return neg, tok, default


def use_dep_holds(tok, iuse, use):
    """PMS 8.3.4: [opt] must be enabled, [-opt] must be disabled; a (+)/(-) default says what the
    flag counts as when the package does not have it in IUSE.  Without a default the flag is read
    from the package's USE as is (DESIGN.md C04: a flag in neither USE nor IUSE is 'disabled')."""
    neg, flag, default = split_use_token(tok)
    if flag in iuse or default is None:
        state = flag in use
    else:
        state = default
    return state != neg


def version_holds(op, av, ar, pv, pr):
    if not op:
        return True
    if op == "=*":
        return R.glob_holds(fullver(pv, pr), fullver(av, ar))
    return R.op_holds(op, pv, pr, av, ar)


def why_not(f, p):
    """None if atom `f` matches package `p`, else the name of the first failing part"""
    if f["cat"] != p["cat"]:
        return "category"
    if f["pkg"] != p["pkg"]:
        return "package"
    if not version_holds(f.get("op", ""), f.get("ver"), f.get("rev"), p["ver"], p.get("rev")):
        return "version"
    if f.get("slot") is not None:
        if f["slot"] != p["slot"]:
            return "slot"
        if f.get("subslot") is not None and f["subslot"] != p["subslot"]:
            return "subslot"
    if f.get("repo") is not None and f["repo"] != p.get("repo"):
        return "repo"
    iuse, use = set(p.get("iuse", ())), set(p.get("use", ()))
    for tok in f.get("use") or ():
        if not use_dep_holds(tok, iuse, use):
            return "use"
    return None


def atom_matches(f, p) -> bool:
    return why_not(f, p) is None


# ---- conditional (transitive) USE deps: PMS 8.3.4 table ------------------------------------------

def resolve_conditional_use(tokens, parent_use):
    """Rewrite the 2-style conditional forms against the USE of the package that carries the
    dependency:  f? -> f if f on;  !f? -> -f if f off;  f= -> f if on else -f;  !f= -> -f if on else f.
    Defaults '(+)'/'(-)' stay attached.  Returns the list of plain tokens."""
    out = []
    for t in tokens:
        if t[-1] not in "?=":
            out.append(t)
            continue
        kind = t[-1]
        body = t[:-1]
        inv = body.startswith("!")
        if inv:
            body = body[1:]
        flag = body[:-3] if body.endswith(")") else body
        on = flag in parent_use
        if kind == "?":
            if not inv and on:
                out.append(body)
            elif inv and not on:
                out.append("-" + body)
        else:
            want_on = on != inv
            out.append(body if want_on else "-" + body)
    return out
