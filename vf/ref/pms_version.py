r"""PMS version comparison (Algorithms 3.1-3.7), transcribed from the PMS text.

Independent of pkgcore.ebuild.cpv: parses version text itself.
A version is (ver, rev) where ver matches  \d+(\.\d+)*[a-z]?(_(alpha|beta|pre|rc|p)\d*)*
and rev is None / "" / digits (the part after "-r").
"""
import re

_VER = re.compile(r"^(\d+(?:\.\d+)*)([a-zA-Z]?)((?:_(?:alpha|beta|pre|rc|p)\d*)*)\Z")
_SUF = re.compile(r"_(alpha|beta|pre|rc|p)(\d*)")
_SUFRANK = {"alpha": 0, "beta": 1, "pre": 2, "rc": 3, "p": 4}


def valid(ver: str) -> bool:
    return bool(_VER.match(ver))


def parse(ver: str):
    m = _VER.match(ver)
    if not m:
        raise ValueError(ver)
    nums = m.group(1).split(".")
    letter = m.group(2)
    sufs = [(t, int(n) if n else 0) for t, n in _SUF.findall(m.group(3))]
    return nums, letter, sufs


def _sgn(x):
    return (x > 0) - (x < 0)


def _cmp(a, b):
    return (a > b) - (a < b)


def cmp_numeric_components(a, b):
    # Algorithm 3.2: first component: integer comparison
    c = _cmp(int(a[0]), int(b[0]))
    if c:
        return c
    # Algorithm 3.3 for the rest
    for x, y in zip(a[1:], b[1:]):
        if x.startswith("0") or y.startswith("0"):
            c = _cmp(x.rstrip("0"), y.rstrip("0"))  # ASCII stringwise
        else:
            c = _cmp(int(x), int(y))
        if c:
            return c
    return _cmp(len(a), len(b))


def cmp_suffixes(a, b):
    # Algorithm 3.5 / 3.6
    for (ta, na), (tb, nb) in zip(a, b):
        if ta != tb:
            return _cmp(_SUFRANK[ta], _SUFRANK[tb])
        c = _cmp(na, nb)
        if c:
            return c
    if len(a) > len(b):
        return 1 if a[len(b)][0] == "p" else -1
    if len(b) > len(a):
        return -1 if b[len(a)][0] == "p" else 1
    return 0


def rev_int(rev) -> int:
    if rev is None or rev == "":
        return 0
    return int(str(rev))


def vcmp(v1, r1, v2, r2, ignore_rev=False) -> int:
    n1, l1, s1 = parse(v1)
    n2, l2, s2 = parse(v2)
    c = cmp_numeric_components(n1, n2)
    if c:
        return c
    c = _cmp(l1, l2)  # "" < any letter; ASCII
    if c:
        return c
    c = cmp_suffixes(s1, s2)
    if c:
        return c
    if ignore_rev:
        return 0
    return _cmp(rev_int(r1), rev_int(r2))


def split_fullver(fullver: str):
    """'1.2_p3-r4' -> ('1.2_p3', '4'); no revision -> (ver, None)"""
    m = re.match(r"^(.*?)(?:-r(\d+))?\Z", fullver)
    return m.group(1), m.group(2)


def op_holds(op: str, pv, pr, av, ar) -> bool:
    """does package version (pv,pr) satisfy `op (av,ar)` (non-glob operators)"""
    if op == "~":
        return vcmp(pv, None, av, None, ignore_rev=True) == 0
    c = vcmp(pv, pr, av, ar)
    return {"<": c < 0, "<=": c <= 0, "=": c == 0, ">=": c >= 0, ">": c > 0}[op]


_COMPONENT = re.compile(r"\d+|[a-zA-Z]+|.")


def glob_holds(pkg_fullver: str, atom_fullver: str) -> bool:
    """`=V*`: the written version components are a prefix of the package version on
    component boundaries: plain string prefix, and the next character (if any) must not
    continue the last component of V -- i.e. a digit may not follow a digit (1* !~ 10) and a
    lowercase letter may not follow a letter run (_p* !~ _pre)."""
    if not pkg_fullver.startswith(atom_fullver):
        return False
    rest = pkg_fullver[len(atom_fullver):]
    if not rest:
        return True
    last, nxt = atom_fullver[-1], rest[0]
    if last.isdigit() and nxt.isdigit():
        return False
    if last.isalpha() and nxt.isalpha():
        return False
    return True
