"""Random resolver universes (source repos + installed db of FakePkg with dependency strings), JSON-able,
plus an independent reference model of "what a valid plan is" used by C15/C16.

World (plain JSON):

    {"repos": {"src": [PKG...], "src2": [PKG...]?, "vdb": [PKG...]},
     "targets": ["a/p0", ">=a/p1-2:0", ...],
     "resolver": {"kind": "upgrade"|"min_install", "empty_tree": bool, "force_replace": bool,
                  "verify_vdb": bool, "group": bool}}
    PKG = {"cpv": "a/p0-2", "slot": "0", "deps": {"RDEPEND": [CLAUSE...], ...}}
    CLAUSE = [atomstr]            plain dependency / blocker (a generated package never blocks itself)
           | [atomstr, atomstr..] any-of group  `|| ( a b )`  (never contains blockers)

The dependency string handed to pkgcore is rendered from the clause lists, so the oracle never has to parse
dependency syntax: it works on the clause lists, with its own atom matcher (`ratom`, PMS version comparison from
vf.ref.pms_version).  Atoms are restricted to `[!|!!][op]cat/pkg[-ver][:slot]`, op in {>=,>,<=,<,=,~}; versions are
small integers (version syntax is C01-C04's business, not the resolver's).

pkgcore is imported lazily; props modules call preload() at import time so that the runner's forked workers
inherit the (4-5 s) import instead of repeating it per task.
"""

from __future__ import annotations

import random
import re

from hypothesis import strategies as st

from ..ref import pms_version as R

CLASSES = ("DEPEND", "BDEPEND", "RDEPEND", "IDEPEND", "PDEPEND")
NAMES = ("a/p0", "a/p1", "a/p2", "a/p3", "a/p4")
MISSING = "a/zz"  # a name that is never in any repository
VERS = ("1", "2", "3", "4")
OPS = ("", ">=", ">", "<=", "<", "=", "~")

_ATOM = re.compile(r"^(!!|!|)(>=|<=|>|<|=|~|)([a-z]+/[a-z0-9]+?)(?:-(\d+(?:-r\d+)?))?(?::([0-9]+))?$")


class RAtom:
    """reference atom: blocker prefix, operator, key, version, slot"""

    __slots__ = ("text", "blocks", "strong", "op", "key", "ver", "rev", "slot")

    def __init__(self, text):
        m = _ATOM.match(text)
        if m is None:
            raise ValueError(f"resolverworld: unsupported atom {text!r}")
        pre, op, key, fullver, slot = m.groups()
        if bool(op) != bool(fullver):
            raise ValueError(f"resolverworld: operator/version mismatch in {text!r}")
        self.text = text
        self.blocks = bool(pre)
        self.strong = pre == "!!"
        self.op = op
        self.key = key
        if fullver:
            self.ver, self.rev = R.split_fullver(fullver)
        else:
            self.ver = self.rev = None
        self.slot = slot

    def match(self, p) -> bool:
        """p: RPkg. Blocker prefix is ignored (matches what the blocker blocks)."""
        if p.key != self.key:
            return False
        if self.slot is not None and p.slot != self.slot:
            return False
        if self.op:
            return R.op_holds(self.op, p.ver, p.rev, self.ver, self.rev)
        return True


_ratoms = {}


def ratom(text) -> RAtom:
    a = _ratoms.get(text)
    if a is None:
        a = _ratoms[text] = RAtom(text)
    return a


class RPkg:
    __slots__ = ("id", "repo", "livefs", "cpv", "key", "ver", "rev", "slot", "deps")

    def __init__(self, repo, d):
        self.repo = repo
        self.livefs = repo == "vdb"
        self.cpv = d["cpv"]
        self.id = f"{repo}:{self.cpv}"
        key, fullver = d["cpv"].rsplit("-", 1) if not re.search(r"-r\d+$", d["cpv"]) else _split_rev(d["cpv"])
        self.key = key
        self.ver, self.rev = R.split_fullver(fullver)
        self.slot = d["slot"]
        self.deps = d.get("deps", {})

    def clauses(self, cls):
        return self.deps.get(cls, ())

    def __repr__(self):
        return f"<{self.id}:{self.slot}>"


def _split_rev(cpv):
    head, rev = cpv.rsplit("-", 1)
    key, ver = head.rsplit("-", 1)
    return key, f"{ver}-{rev}"


def rpkgs(world) -> dict:
    """id -> RPkg for every package of the world"""
    out = {}
    for repo, pkgs in world["repos"].items():
        for d in pkgs:
            p = RPkg(repo, d)
            out[p.id] = p
    return out


def render_depstr(clauses) -> str:
    parts = []
    for cl in clauses:
        if len(cl) == 1:
            parts.append(cl[0])
        else:
            parts.append("|| ( " + " ".join(cl) + " )")
    return " ".join(parts)


# --------------------------------------------------------------------------------------------------------------
# reference model: validity of a final state
# --------------------------------------------------------------------------------------------------------------

BUILD_TIME = ("DEPEND", "BDEPEND", "IDEPEND")


def timeline(pk, ops):
    """[T_0, T_1, ... T_n]: T_0 = installed packages, T_k+1 = T_k after op k (plan order, the way pmerge walks it:
    add = install, replace = install new + unmerge old, remove = unmerge). Lists of ids in stable order."""
    cur = [i for i, p in pk.items() if p.livefs]
    out = [list(cur)]
    for desc, pid, old in ops:
        if desc == "replace" and old is not None and old in cur:
            cur.remove(old)
        if desc in ("add", "replace"):
            if pid not in cur:
                cur.append(pid)
        elif desc == "remove" and pid in cur:
            cur.remove(pid)
        out.append(list(cur))
    return out


def final_state(pk, ops):
    """S = (vdb - replaced/removed) + every package named by an add/replace op; merged = non-installed packages
    the plan installs. ops: [[desc, pkgid, oldid|None], ...]."""
    S = timeline(pk, ops)[-1]
    merged = []
    for desc, pid, old in ops:
        if desc in ("add", "replace") and not pk[pid].livefs and pid not in merged and pid in S:
            merged.append(pid)
    return S, merged


def _any_match(alts, pkgs):
    return any((not a.blocks) and any(a.match(q) for q in pkgs) for a in alts)


def self_excluding(p, alts, pk):
    """clause of package p that only another version of p's own name+slot could satisfy (a package that cannot be
    installed together with what it requires; for build-time classes the bootstrap idiom `DEPEND="<self"`)"""
    pos = [a for a in alts if not a.blocks and any(a.match(q) for q in pk.values())]  # ignore dead alternatives
    if not pos:
        return False
    for a in pos:
        if a.key != p.key or a.match(p):
            return False
        if any(a.match(q) for q in pk.values() if (q.key, q.slot) != (p.key, p.slot)):
            return False
    return True


def has_self_excluding(pk):
    for p in pk.values():
        for cls in CLASSES:
            for cl in p.clauses(cls):
                if self_excluding(p, [ratom(x) for x in cl], pk):
                    return True
    return False


def plan_problems(world, pk, ops):
    """All ways in which a successful plan violates the C15 contract. Returns [(bucket, message)].

    Bucket = symptom + a diagnosis computed from the plan (so that different root causes get different keys):
      target:unmatched:<never-present|replaced-later>
      slot:duplicate:<vdb+merged|merged+merged|vdb+vdb>
      closure:<class>:<diagnosis>   diagnosis in
          provider-replaced    an alternative was matched at some point of the plan but its provider was replaced
                               before it was needed / is not in the final state
          own-slot             only a different version of the package's own name+slot could satisfy it
          other-version-in-slot  the final state holds a non-matching version in the slot an alternative asks for
          absent               the final state holds no package of any alternative's name (in the slot asked for)
      blocker:<weak|strong>:<blocked-first|blocker-first|unplanned-installed>
    Build-time classes (DEPEND/BDEPEND/IDEPEND) also count as satisfied when an alternative is matched in the
    state right before the package's own operation (the version it replaces is still installed while it is built).
    """
    out = []
    T = timeline(pk, ops)
    S = T[-1]
    Sp = [pk[i] for i in S]
    opidx = {}
    for k, (desc, pid, old) in enumerate(ops):
        if desc in ("add", "replace"):
            opidx.setdefault(pid, k)
    merged = [i for i in opidx if not pk[i].livefs and i in S]
    for t in world["targets"]:
        a = ratom(t)
        if not any(a.match(p) for p in Sp):
            ever = any(a.match(pk[i]) for st_ in T for i in st_)
            out.append(
                (
                    "target:unmatched:" + ("replaced-later" if ever else "never-present"),
                    f"no package of the final state matches target {t}",
                )
            )
    seen = {}
    for p in Sp:
        k = (p.key, p.slot)
        if k in seen:
            q = seen[k]
            kind = "vdb+merged" if (p.livefs != q.livefs) else ("vdb+vdb" if p.livefs else "merged+merged")
            out.append((f"slot:duplicate:{kind}", f"{q.id} and {p.id} both occupy {p.key}:{p.slot}"))
        else:
            seen[k] = p
    for i in merged:
        p = pk[i]
        before = [pk[x] for x in T[opidx[i]]]
        for cls in CLASSES:
            for cl in p.clauses(cls):
                alts = [ratom(x) for x in cl]
                if len(alts) == 1 and alts[0].blocks:
                    b = alts[0]
                    for q in Sp:
                        if q is not p and b.match(q):
                            if q.id not in opidx:
                                order = "unplanned-installed"
                            elif opidx[q.id] < opidx[i]:
                                order = "blocked-first"
                            else:
                                order = "blocker-first"
                            out.append(
                                (
                                    f"blocker:{'strong' if b.strong else 'weak'}:{order}",
                                    f"{p.id} {cls} has {b.text} but {q.id} is in the final state",
                                )
                            )
                    continue
                if _any_match(alts, Sp):
                    continue
                if cls in BUILD_TIME and _any_match(alts, before):
                    continue
                if any(_any_match(alts, [pk[x] for x in st_]) for st_ in T):
                    diag = "provider-replaced"
                elif self_excluding(p, alts, pk):
                    diag = "own-slot"
                elif any(
                    (not a.blocks) and any(q.key == a.key and (a.slot is None or a.slot == q.slot) for q in Sp) for a in alts
                ):
                    diag = "other-version-in-slot"
                else:
                    diag = "absent"
                out.append(
                    (
                        f"closure:{cls.lower()}:{diag}",
                        f"{p.id} {cls} clause {render_depstr([cl])!r} is not satisfied by the final state"
                        + (" nor when the package is built" if cls in BUILD_TIME else ""),
                    )
                )
    return out


# --------------------------------------------------------------------------------------------------------------
# building the pkgcore objects
# --------------------------------------------------------------------------------------------------------------

def build(world, shuffle_seed=None):
    """-> dict(trees={repo_id: SimpleTree}, vdbs=[...], dbs=[...], targets=[atom...], by_obj=callable)
    shuffle_seed: permute the insertion order of every repository dict (determinism checks)."""
    from pkgcore.ebuild.atom import atom
    from pkgcore.repository.util import SimpleTree
    from pkgcore.test.misc import FakePkg

    trees = {}
    for repo_id in sorted(world["repos"]):
        plist = list(world["repos"][repo_id])
        if shuffle_seed is not None:
            random.Random(f"{shuffle_seed}:{repo_id}").shuffle(plist)
        cpv_dict = {}
        objs = {}
        tree = SimpleTree(cpv_dict, livefs=(repo_id == "vdb"), repo_id=repo_id)
        for d in plist:
            data = {cls: render_depstr(cl) for cls, cl in d.get("deps", {}).items() if cl}
            p = FakePkg(d["cpv"], data=data, eapi="8", repo=tree, slot=d["slot"])
            cpv_dict.setdefault(p.category, {}).setdefault(p.package, []).append(p.fullver)
            objs[(p.category, p.package, p.fullver)] = p
        tree.package_class = _Lookup(objs)
        trees[repo_id] = tree
    vdbs = [trees["vdb"]]
    dbs = [trees[r] for r in sorted(trees) if r != "vdb"]
    return {"trees": trees, "vdbs": vdbs, "dbs": dbs, "targets": [atom(t) for t in world["targets"]]}


class _Lookup:
    def __init__(self, objs):
        self.objs = objs

    def __call__(self, c, p, v):
        return self.objs[(c, p, v)]


def preload():
    """import everything the resolver needs (called once in the parent process before the worker pool forks)"""
    import logging
    import signal

    logging.getLogger("pkgcore").setLevel(logging.ERROR)
    # pkgcore.ebuild.processor installs a SIGTERM handler that raises SystemExit at import.  Inherited by pool
    # workers it turns Pool.terminate() into an exception at an arbitrary point of a freshly forked worker
    # ("Exception ignored in _after_fork"), which then never exits and the runner hangs in join(). Keep the
    # runner's own disposition.
    prev = signal.getsignal(signal.SIGTERM)
    try:
        _preload_imports()
    finally:
        signal.signal(signal.SIGTERM, prev)


def _preload_imports():
    import pkgcore.ebuild.atom  # noqa: F401
    import pkgcore.ebuild.resolver  # noqa: F401
    import pkgcore.repository.util  # noqa: F401
    import pkgcore.resolver.choice_point  # noqa: F401
    import pkgcore.resolver.plan  # noqa: F401
    import pkgcore.resolver.state  # noqa: F401
    import pkgcore.test.misc  # noqa: F401


class StepLimit(Exception):
    """raised by the counting resolver subclass when resolution does not terminate within the step bound"""


_counting = {}


def counting_cls(base):
    """subclass of a merge_plan class that counts _rec_add_atom calls and raises StepLimit beyond
    `self._vf_limit` (deterministic guard against non-terminating resolution)."""
    c = _counting.get(base)
    if c is None:

        class counting(base):
            _vf_steps = 0
            _vf_limit = 20000

            _vf_vdb_forced = 0

            def _rec_add_atom(self, *a, **kw):
                self._vf_steps += 1
                if len(a) > 2 and a[2] is self.livefs_dbs:
                    self._vf_vdb_forced += 1  # a dependency cycle made the resolver retry this atom installed-only
                if self._vf_steps > self._vf_limit:
                    raise StepLimit(f"more than {self._vf_limit} _rec_add_atom calls")
                return base._rec_add_atom(self, *a, **kw)

        counting.__name__ = f"counting_{base.__name__}"
        c = _counting[base] = counting
    return c


def make_resolver(built, cfg, step_limit=20000):
    """construct the resolver the way pmerge does (pkgcore.scripts.pmerge: options.resolver_kls(vdbs=, dbs=, ...))"""
    from pkgcore.ebuild import resolver
    from pkgcore.repository.util import RepositoryGroup
    from pkgcore.resolver import plan

    vdbs, dbs = list(built["vdbs"]), list(built["dbs"])
    if cfg.get("group"):
        vdbs, dbs = RepositoryGroup(vdbs), RepositoryGroup(dbs)
    base = resolver.empty_tree_merge_plan if cfg.get("empty_tree") else plan.merge_plan
    fn = {"upgrade": resolver.upgrade_resolver, "min_install": resolver.min_install_resolver}[cfg["kind"]]
    r = fn(
        vdbs=vdbs,
        dbs=dbs,
        verify_vdb=bool(cfg.get("verify_vdb", True)),
        nodeps=False,
        drop_cycles=False,
        force_replace=bool(cfg.get("force_replace")),
        process_built_depends=False,
        resolver_cls=counting_cls(base),
    )
    r._vf_limit = step_limit
    return r


def pkgid(pkg) -> str:
    return f"{pkg.repo.repo_id}:{pkg.cpvstr}"


def plan_ops(r):
    """[[desc, pkgid, oldid|None], ...] of the user-visible operations (what pmerge walks)"""
    out = []
    for op in r.state.iter_ops(True):
        old = getattr(op, "old_pkg", None)
        out.append([op.desc, pkgid(op.pkg), pkgid(old) if old is not None else None])
    return out


# --------------------------------------------------------------------------------------------------------------
# generation.  A world is a deterministic function of one integer (drawn by hypothesis) - building it from
# ~150 separate hypothesis draws cost 20 ms per world, ten times the cost of resolving it.  Shrinking is done on
# the JSON world itself (`shrink_world`), which gives smaller counterexamples than shrinking the integer could.
# --------------------------------------------------------------------------------------------------------------

def _w(rnd, pairs):
    tot = sum(w for _, w in pairs)
    x = rnd.randrange(tot)
    for v, w in pairs:
        if x < w:
            return v
        x -= w
    raise AssertionError


def _dep_atom(rnd, names, profile, blocker=False, own=None):
    miss = (not blocker) and rnd.randrange(30) == 0
    key = MISSING if miss else rnd.choice(names)
    if key == own and rnd.randrange(4):
        key = rnd.choice(names)  # dependencies on the package's own name: kept, but rarer
    if profile == "mono-cyclic":
        op = _w(rnd, [("", 7), (">=", 1)])  # mostly the same plain atom everywhere: one atom, many requesters
    elif profile.startswith("mono"):
        op = _w(rnd, [("", 5), (">=", 3)])
    elif blocker:
        op = _w(rnd, [("", 3), ("<", 4), ("<=", 1), (">=", 1), ("=", 1), (">", 1)])
    else:
        op = _w(rnd, [("", 8), (">=", 5), ("<", 2), ("=", 1), ("~", 1), ("<=", 1), (">", 1)])
    s = key
    if op:
        s = f"{op}{key}-{rnd.choice(VERS)}"
    if rnd.randrange(12 if profile == "mono-cyclic" else 5) == 0:
        s += ":" + rnd.choice(("0", "0", "1"))
    if blocker:
        s = rnd.choice(("!", "!", "!!")) + s
    return s


def _dep_clause(rnd, names, profile, own=None):
    k = rnd.randrange(10)
    if k <= 1 and not profile.startswith("mono"):
        return [_dep_atom(rnd, names, profile, blocker=True, own=own)]
    if k <= 4:
        alts = []
        for _ in range(rnd.randint(2, 3)):
            a = _dep_atom(rnd, names, profile, own=own)
            if a not in alts:
                alts.append(a)
        return alts
    return [_dep_atom(rnd, names, profile, own=own)]


class _Self:
    """just enough of a package for RAtom.match"""

    def __init__(self, key, ver, slot):
        self.key, self.ver, self.rev, self.slot = key, ver, None, slot


def _pkg_deps(rnd, names, profile, density, own=None, ver=None, slot=None, singles=()):
    n = _w(rnd, [(0, 3), (1, 4), (2, 3), (3, 1)]) if density else _w(rnd, [(0, 6), (1, 3), (2, 1)])
    cyclic = profile == "mono-cyclic"
    if cyclic:
        n = _w(rnd, [(1, 3), (2, 4), (3, 2)])
    elif profile == "mono-slots":
        n = _w(rnd, [(1, 4), (2, 4), (3, 1)])
    elif profile == "mono-sparse":
        n = _w(rnd, [(0, 5), (1, 4), (2, 1)])
    deps = {}
    for _ in range(n):
        if cyclic or profile == "mono-slots":
            cls = _w(rnd, [("DEPEND", 4), ("BDEPEND", 2), ("RDEPEND", 3), ("IDEPEND", 1), ("PDEPEND", 1)])
        elif profile.startswith("mono"):
            cls = _w(rnd, [("RDEPEND", 4), ("PDEPEND", 2), ("DEPEND", 2), ("BDEPEND", 1), ("IDEPEND", 1)])
        else:
            cls = _w(rnd, [("RDEPEND", 4), ("DEPEND", 3), ("PDEPEND", 2), ("BDEPEND", 2), ("IDEPEND", 2)])
        pool = names
        if profile.startswith("mono") and cls != "PDEPEND":
            # acyclic except through PDEPEND: only names ranked after the package's own
            pool = names[names.index(own) + 1:] if own in names else names
            if not pool:
                continue
        cl = _dep_clause(rnd, pool, profile, own)
        if profile.startswith("mono") and cls != "PDEPEND" and own in names and rnd.randrange(3) < (2 if cyclic else 1):
            # a back edge (own or lower-ranked name) as an extra alternative of an any-of group that keeps >=1
            # forward alternative: dependency cycles - build-time ones included - that a resolver can get out of
            lower = names[: names.index(own) + 1]
            single = [k for k in lower if k in singles]
            if single and rnd.randrange(8):
                # prefer names with one version: every requester of such a name gets the same package whatever the
                # cycle context, which is what makes the world judgeable by C16's model
                own_single = [own] if own in single else single
                back = _dep_atom(rnd, own_single if cyclic and rnd.randrange(2) else single, profile)
            elif rnd.randrange(4) == 0:
                back = _dep_atom(rnd, [own] if cyclic and rnd.randrange(2) else lower, profile)
            else:
                back = cl[0]  # no back alternative this time
            if back not in cl:
                cl.insert(0 if cyclic and rnd.randrange(3) else rnd.randrange(len(cl) + 1), back)
        if ver is not None and len(cl) == 1 and ratom(cl[0]).blocks and ratom(cl[0]).match(_Self(own, ver, slot)):
            continue  # a package that blocks itself is not a well-formed package
        deps.setdefault(cls, [])
        if cl not in deps[cls]:
            deps[cls].append(cl)
    return {c: deps[c] for c in CLASSES if c in deps}


def gen_world(seed: int, profile="full", max_pkgs=12):
    """profile 'full': everything the C15 quantifier lists. profile 'mono' (C16): only unversioned or `>=` non-blocker
    dependencies (the highest version of a slot satisfies every dependency any version satisfies); names are ranked
    and a DEPEND/BDEPEND/RDEPEND/IDEPEND clause always has an alternative on a higher-ranked name, so cycles exist
    only through PDEPEND or through extra any-of alternatives pointing back (the resolver accepts cycles only under
    context-dependent conditions; with a forward alternative in every clause it can always get out of one).
    Slot-1 versions may build-depend on slot 0 of their own name; blockers exist but match no package at all.
    profile 'mono-cyclic': the same rules with more build-time clauses and back-pointing alternatives;
    'mono-slots': mostly multi-slot names, cross-slot build deps, slot-qualified deps, little installed;
    'mono-sparse': few dependencies (independent targets), more inert blockers."""
    rnd = random.Random(seed)
    nnames = rnd.randint(1, 5) if rnd.randrange(8) == 0 else rnd.randint(2, 5)
    if profile in ("mono-cyclic", "mono-slots", "mono-sparse"):
        nnames = rnd.randint(4, 5)
    names = list(NAMES[:nnames])
    density = rnd.randrange(4) != 0
    src, src2, vdb = [], [], []
    singles = []  # names with a single version in the source repositories
    total = 0
    two_src = rnd.randrange(6) == 0
    for key in names:
        multislot = rnd.randrange(4) < {"mono-cyclic": 2, "mono-slots": 3}.get(profile, 1)
        nv = _w(rnd, {"mono-cyclic": [(1, 6), (2, 3), (3, 1)], "mono-slots": [(1, 1), (2, 4), (3, 4)]}.get(profile, [(1, 3), (2, 4), (3, 2)]))
        vers = sorted(rnd.sample(VERS, nv))
        if nv == 1:
            singles.append(key)
        slot_of = {v: (rnd.choice(("0", "1")) if multislot else "0") for v in VERS}
        for v in vers:
            if total >= max_pkgs:
                break
            d = {"cpv": f"{key}-{v}", "slot": slot_of[v], "deps": _pkg_deps(rnd, names, profile, density, key, v, slot_of[v], singles)}
            where = src2 if (two_src and rnd.randrange(3) == 0) else src
            where.append(d)
            total += 1
            if two_src and rnd.randrange(4) == 0 and total < max_pkgs:
                other = src if where is src2 else src2  # same cpv offered by both source repositories
                other.append({"cpv": d["cpv"], "slot": d["slot"], "deps": _pkg_deps(rnd, names, profile, density, key, v, slot_of[v], singles)})
                total += 1
        inst_mode = _w(rnd, [("none", 7), ("one", 3), ("perslot", 1)] if profile == "mono-slots" else [("none", 4), ("one", 5), ("perslot", 2)])
        if inst_mode != "none" and total < max_pkgs:
            pool = vers if rnd.randrange(4) else list(VERS)
            cnt = min(len(pool), 1 if inst_mode == "one" else 2)
            chosen = {}
            for v in rnd.sample(pool, cnt):
                chosen.setdefault(slot_of[v], v)  # installed: at most one per slot
            for sl in sorted(chosen):
                if total >= max_pkgs:
                    break
                v = chosen[sl]
                same = next((x for x in src + src2 if x["cpv"] == f"{key}-{v}"), None)
                if same is not None and rnd.randrange(3) > 0:
                    deps = {c: [list(cl) for cl in cls] for c, cls in same["deps"].items()}
                else:
                    deps = _pkg_deps(rnd, names, profile, density, key, v, sl, singles)
                vdb.append({"cpv": f"{key}-{v}", "slot": sl, "deps": deps})
                total += 1
    repos = {"src": src, "vdb": vdb}
    if src2:
        repos["src2"] = src2
    targets = []
    for _ in range(_w(rnd, [(1, 5), (2, 3), (3, 1)])):
        key = rnd.choice(names)
        k = rnd.randrange(10)
        if k <= 5:
            t = key
        elif k <= 7:
            t = f">={key}-{rnd.choice(VERS)}"
        elif k == 8 and not profile.startswith("mono"):
            t = f"{rnd.choice(('=', '<', '~', '<='))}{key}-{rnd.choice(VERS)}"
        else:
            t = f"{key}:{rnd.choice(('0', '0', '1'))}"
        if t not in targets:
            targets.append(t)
    targets.sort()  # pmerge sorts its targets
    cfg = {
        "kind": _w(rnd, [("upgrade", 3), ("min_install", 2)]),
        "empty_tree": rnd.randrange(5) == 0,
        "force_replace": rnd.randrange(6) == 0,
        "verify_vdb": rnd.randrange(3) > 0,
        "group": rnd.randrange(4) == 0,
    }
    if profile.startswith("mono"):
        _mono_extras(rnd, repos, names, profile)
    return {"repos": repos, "targets": targets, "resolver": cfg}


def _mono_extras(rnd, repos, names, profile):
    """mono profiles, added last (does not disturb the rest of the world):
    * cross-slot build dependencies: a slot-1 version needs slot 0 of its own name (`DEPEND="a/p2:0"`, the bootstrap
      shape); always from the higher to the lower slot, so they cannot form a cycle of their own;
    * inert blockers: blockers on generated names whose range matches no package of any repository or the installed
      db - they must not influence anything."""
    xslot = {"mono-cyclic": 2, "mono-slots": 3}.get(profile, 1)  # of 4
    btries, bprob = (2, 3) if profile == "mono-sparse" else (1, 1)  # blocker attempts per package, probability of 3
    qual = 3 if profile == "mono-slots" else 1  # of 6
    everything = [RPkg(r, d) for r, pkgs in repos.items() for d in pkgs]
    for r in sorted(repos):
        for d in repos[r]:
            key = d["cpv"].rsplit("-", 1)[0]
            has0 = any(q.key == key and q.slot == "0" for q in everything)
            if d["slot"] == "1" and rnd.randrange(4) < xslot and (has0 or rnd.randrange(5) == 0):
                cls = rnd.choice(("DEPEND", "DEPEND", "BDEPEND"))
                cl = [f"{key}:0"]
                if cl not in d["deps"].setdefault(cls, []):
                    d["deps"][cls].append(cl)
            for _ in range(btries):
                if r == "vdb" or rnd.randrange(3) >= bprob:
                    continue
                k = rnd.choice(names)
                forms = [f"<{k}-1", f">{k}-4", f"={k}-{rnd.choice(VERS)}", f"{k}:1", f"<{k}-{rnd.choice(VERS)}", f">{k}-{rnd.choice(VERS)}"]
                rnd.shuffle(forms)
                for f in forms:
                    if not any(ratom(f).match(q) for q in everything):
                        cls = rnd.choice(CLASSES)
                        b = [rnd.choice(("!", "!", "!!")) + f]
                        if b not in d["deps"].setdefault(cls, []):
                            d["deps"][cls].append(b)
                        break
            d["deps"] = {c: d["deps"][c] for c in CLASSES if d["deps"].get(c)}
    # dependencies on a name that has slot-1 versions are often written against that slot
    slot1 = {q.key for q in everything if q.slot == "1"}
    for r in sorted(repos):
        for d in repos[r]:
            for cls in CLASSES:
                for cl in d["deps"].get(cls, ()):
                    for i, a in enumerate(cl):
                        ra = ratom(a)
                        if not ra.blocks and not ra.op and ra.slot is None and ra.key in slot1 and rnd.randrange(6) < qual:
                            if a + ":1" not in cl:
                                cl[i] = a + ":1"


def worlds(profile="full", max_pkgs=12):
    return st.integers(0, 2**62).map(lambda s: gen_world(s, profile, max_pkgs))


def drive(ctx, profile, examples, fn, salt=0, max_pkgs=12):
    """call fn(world) for `examples` worlds; the world seeds come from a Random seeded by (run seed, shard, salt),
    i.e. the run seed selects which slice of the finite seed space is visited.  (Driving the same generator through
    hypothesis cost ~3x the resolution itself; worlds are minimised structurally by shrink_world instead.)"""
    rnd = random.Random(f"resolverworld:{ctx.seed}:{ctx.shard}:{salt}")
    done = 0
    for i in range(examples):
        if i % 32 == 0 and ctx.out_of_time():
            break
        fn(gen_world(rnd.getrandbits(62), profile, max_pkgs))
        done += 1
    return done


def world_size(world):
    return sum(len(v) for v in world["repos"].values())


def shrink_world(world, still_fails, max_rounds=6):
    """greedy structural minimisation of a world: drop packages, targets, clauses, alternatives, dependency
    classes and resolver switches while `still_fails(candidate)` stays true."""
    import copy

    cur = copy.deepcopy(world)

    def attempt(cand):
        nonlocal cur
        try:
            ok = still_fails(cand)
        except Exception:  # noqa: BLE001 (a candidate that breaks the harness is simply not taken)
            ok = False
        if ok:
            cur = cand
        return ok

    for _ in range(max_rounds):
        progress = False
        # packages
        for repo in sorted(cur["repos"]):
            i = 0
            while i < len(cur["repos"][repo]):
                cand = copy.deepcopy(cur)
                del cand["repos"][repo][i]
                if repo != "src" and repo != "vdb" and not cand["repos"][repo]:
                    del cand["repos"][repo]
                if attempt(cand):
                    progress = True
                    if repo not in cur["repos"]:
                        break
                else:
                    i += 1
        # targets
        i = 0
        while len(cur["targets"]) > 1 and i < len(cur["targets"]):
            cand = copy.deepcopy(cur)
            del cand["targets"][i]
            if attempt(cand):
                progress = True
            else:
                i += 1
        # clauses / alternatives
        for repo in sorted(cur["repos"]):
            for pi in range(len(cur["repos"][repo])):
                for cls in list(cur["repos"][repo][pi].get("deps", {})):
                    ci = 0
                    while cls in cur["repos"][repo][pi]["deps"] and ci < len(cur["repos"][repo][pi]["deps"][cls]):
                        cand = copy.deepcopy(cur)
                        del cand["repos"][repo][pi]["deps"][cls][ci]
                        if not cand["repos"][repo][pi]["deps"][cls]:
                            del cand["repos"][repo][pi]["deps"][cls]
                        if attempt(cand):
                            progress = True
                            continue
                        clause = cur["repos"][repo][pi]["deps"][cls][ci]
                        ai = 0
                        while len(clause) > 1 and ai < len(clause):
                            cand = copy.deepcopy(cur)
                            del cand["repos"][repo][pi]["deps"][cls][ci][ai]
                            if attempt(cand):
                                progress = True
                                clause = cur["repos"][repo][pi]["deps"][cls][ci]
                            else:
                                ai += 1
                        ci += 1
        # atoms: drop slot restriction / version restriction
        for repo in sorted(cur["repos"]):
            for pi in range(len(cur["repos"][repo])):
                for cls in list(cur["repos"][repo][pi].get("deps", {})):
                    for ci in range(len(cur["repos"][repo][pi]["deps"][cls])):
                        for ai in range(len(cur["repos"][repo][pi]["deps"][cls][ci])):
                            a = ratom(cur["repos"][repo][pi]["deps"][cls][ci][ai])
                            pre = "!!" if a.strong else ("!" if a.blocks else "")
                            simpler = []
                            if a.slot is not None:
                                simpler.append(a.text.rsplit(":", 1)[0])
                            if a.op:
                                simpler.append(pre + a.key + (f":{a.slot}" if a.slot else ""))
                            for t in simpler:
                                cand = copy.deepcopy(cur)
                                cand["repos"][repo][pi]["deps"][cls][ci][ai] = t
                                if attempt(cand):
                                    progress = True
                                    break
        # resolver switches
        for k in ("group", "force_replace", "empty_tree"):
            if cur["resolver"].get(k):
                cand = copy.deepcopy(cur)
                cand["resolver"][k] = False
                if attempt(cand):
                    progress = True
        if not cur["resolver"].get("verify_vdb", True):
            cand = copy.deepcopy(cur)
            cand["resolver"]["verify_vdb"] = True
            if attempt(cand):
                progress = True
        if cur["resolver"]["kind"] != "upgrade":
            cand = copy.deepcopy(cur)
            cand["resolver"]["kind"] = "upgrade"
            if attempt(cand):
                progress = True
        if not progress:
            break
    return cur
