"""JSON-able filesystem tree specs: package image trees and pre-existing live roots that collide with them.

A *tree spec* is a list of entry dicts in creation order (superset of `vf.fsx.build` specs):

    {"path": "a/b", "type": "dir"|"file"|"sym"|"fifo"|"hardlink",
     "mode": int, "uid": int, "gid": int, "mtime": int,
     "data": "latin-1 text", "rep": int   (file content = data * rep; keeps 40 kB files small in JSON),
     "target": "..."                      (sym),
     "to": "relpath"                      (hardlink: an earlier file of the same spec)}

    materialise(dir, spec)     build it (expands data*rep, then vf.fsx.build)
    rm_tree(path)              remove a scratch tree without ever opening a fifo (shutil.rmtree of a fifo
                               path blocks on 3.12.1) and regardless of modes
    image_tree(...)            hypothesis strategy: a package image (nested dirs, odd names, hardlink groups of
                               2-3, symlinks to file/dir/dangling/absolute-dangling/./.., fifos, setuid bits,
                               empty / binary / >32 kB files); uids/gids in {0, 12345, 12346} (no passwd entry)
    live_root(image, ...)      hypothesis strategy: a pre-existing root relative to `image`: for each image entry
                               nothing / same-type entry with other content+metadata / a "twin" file equal to the
                               image file in a drawn subset of {content, size, mtime, mode, uid, gid} (re-merge of
                               an unchanged or merely touched/chmod'ed/chown'ed file) / another type (file, fifo,
                               directory, symlink to a file, symlink to a directory, dangling relative or
                               absolute symlink) / a file hardlinked to an unrelated "victim" file, stale
                               `<name>#new` siblings (file or symlink to a victim), unrelated files and dirs.
                               A directory of the image may pre-exist as a symlink to a real directory
                               `<name>.real` (children then live below the real directory).
    merge_case(...)            strategy for {"img": spec, "root": spec, "variant": {...}}

Symlink targets never lead outside the root: absolute targets only point below /vf-nonexistent (dangling), a
symlink that stands where an image *directory* goes points to a sibling directory, never to `..`.

Names: `odd="all"` adds tab/newline names (not representable in a VDB CONTENTS file), `odd="vdb"` keeps spaces,
unicode, `#new`, quotes, leading dash/dot, trailing `~`; `odd="plain"` is [a-z0-9.] only.
"""
from __future__ import annotations

import os
import stat

from hypothesis import strategies as st

from .. import fsx

UIDS = (0, 12345, 12346)
FILE_MODES = (0o644, 0o600, 0o640, 0o755, 0o444, 0o4755, 0o2755, 0o6711, 0o000)
DIR_MODES = (0o755, 0o750, 0o700, 0o1777, 0o2755, 0o711)
FIFO_MODES = (0o644, 0o600, 0o666)
MTIMES = (0, 1, 1000000000, 1234567890, 2000000000)
PLAIN_NAMES = ("a", "b", "f", "g", "lib", "lib64", "bin", "x.so.1", "f2")
VDB_ODD_NAMES = ("with space", "ünï¢øde", "f#new", "a#new", "x.so.1#new", ".hid", "t~", "-dash",
                 "q'uo\"te", "semi;c$lon", "star*", "#new", "back\\slash")
ALL_ODD_NAMES = VDB_ODD_NAMES + ("tab\tname", "nl\nname")
DATA = (("", 1), ("x", 1), ("hello\n", 1), ("\x00\xff\x7f bin\r\n", 1), ("A", 100), ("0123456789abcdef", 64),
        ("new-content ", 7))
BIG_DATA = (("B", 40000), ("0123456789abcde\n", 4400))  # > snakeoil's 32 kB buffering window
OLD_DATA = (("OLD", 1), ("old-old-old-old-old-old-old-old-old-old-old-old-", 8), ("", 1), ("o", 33000))
SYM_MISC = ("nonexistent", "/vf-nonexistent/t", ".", "..", "../nonexistent/x")


def names(odd="all"):
    pool = PLAIN_NAMES + {"all": ALL_ODD_NAMES, "vdb": VDB_ODD_NAMES, "plain": ()}[odd]
    return st.sampled_from(pool)


def expand(spec):
    """fsx.build spec with data*rep expanded"""
    out = []
    for e in spec:
        if e.get("type") == "file" and e.get("rep", 1) != 1:
            e = dict(e, data=e.get("data", "") * e["rep"])
            e.pop("rep")
        out.append(e)
    return out


def materialise(root, spec):
    os.makedirs(root, exist_ok=True)
    fsx.build(root, expand(spec))


def rm_tree(path):
    """remove path recursively; never opens anything but directories"""
    try:
        st_ = os.lstat(path)
    except OSError:
        return
    if not stat.S_ISDIR(st_.st_mode):
        os.unlink(path)
        return
    for dirpath, dirnames, filenames in os.walk(path, topdown=False):
        for n in filenames:
            try:
                os.unlink(os.path.join(dirpath, n))
            except OSError:
                pass
        for n in dirnames:
            p = os.path.join(dirpath, n)
            try:
                if os.path.islink(p):
                    os.unlink(p)
                else:
                    os.rmdir(p)
            except OSError:
                pass
    try:
        os.rmdir(path)
    except OSError:
        pass


def _meta(draw, modes):
    # one draw decoded as mixed radix: hypothesis' per-draw overhead dominates otherwise
    n = draw(st.integers(0, len(modes) * len(UIDS) * len(UIDS) * len(MTIMES) - 1))
    n, m = divmod(n, len(modes))
    n, u = divmod(n, len(UIDS))
    t, g = divmod(n, len(UIDS))
    return {"mode": modes[m], "uid": UIDS[u], "gid": UIDS[g], "mtime": MTIMES[t]}


def _data(draw, big=True):
    pool = DATA + (BIG_DATA if big and draw(st.integers(0, 11)) == 0 else ())
    d, r = draw(st.sampled_from(pool))
    return {"data": d, "rep": r}


def _join(a, b):
    return f"{a}/{b}" if a else b


def _rel(frm_dir, to_path):
    """relative symlink text from a link living in directory frm_dir to to_path (both tree-relative)"""
    return os.path.relpath("/" + to_path, "/" + frm_dir) if frm_dir else to_path


@st.composite
def image_tree(draw, max_entries=10, min_entries=1, odd="all", max_depth=3, big=True):
    n = draw(st.integers(min_entries, max_entries))
    nm = names(odd)
    spec, dirs, files, used = [], [""], [], set()
    for _ in range(n):
        parent = draw(st.sampled_from(dirs))
        name = draw(nm)
        path = _join(parent, name)
        if path in used:
            continue
        used.add(path)
        kinds = ["file", "file", "file", "dir", "dir", "sym", "fifo"]
        if files:
            kinds += ["hardlink", "hardlink"]
        if parent.count("/") + (1 if parent else 0) >= max_depth:
            kinds = [k for k in kinds if k != "dir"]
        kind = draw(st.sampled_from(kinds))
        if kind == "file":
            e = {"path": path, "type": "file", **_data(draw, big), **_meta(draw, FILE_MODES)}
            files.append(path)
        elif kind == "dir":
            e = {"path": path, "type": "dir", **_meta(draw, DIR_MODES)}
            dirs.append(path)
        elif kind == "fifo":
            e = {"path": path, "type": "fifo", **_meta(draw, FIFO_MODES)}
        elif kind == "hardlink":
            e = {"path": path, "type": "hardlink", "to": draw(st.sampled_from(files))}
        else:
            choice = draw(st.integers(0, 3))
            if choice == 0 and files:
                target = _rel(parent, draw(st.sampled_from(files)))
            elif choice == 1 and len(dirs) > 1:
                target = _rel(parent, draw(st.sampled_from(dirs[1:])))
            elif choice == 2:
                target = draw(nm)  # a sibling name, existing or not
            else:
                target = draw(st.sampled_from(SYM_MISC))
            e = {"path": path, "type": "sym", "target": target, "uid": draw(st.sampled_from(UIDS)),
                 "gid": draw(st.sampled_from(UIDS)), "mtime": draw(st.sampled_from(MTIMES))}
        spec.append(e)
    return spec


# weighted pools; the kinds for which a merge may refuse (REFUSING_*) are kept rare: a refused merge only exercises
# the frame condition
REFUSING_DIR = ("file", "fifo", "symfile")
REFUSING_NONDIR = ("dir", "dir_with_target", "dir_with_target")
COLLISIONS_DIR = ("same",) * 6 + ("symdir",) * 6 + ("dangling",) * 2 + ("dangling_abs",) * 2 + REFUSING_DIR
COLLISIONS_NONDIR = (("same",) * 4 + ("file",) * 4 + ("hardlinked", "symfile", "symdir", "dangling", "dangling_abs",
                     "fifo", "sym") * 2 + REFUSING_NONDIR)


def _chance(draw, percent):
    # integers, not floats: hypothesis' float strategy is heavily biased towards 0.0
    return draw(st.integers(0, 99)) < percent


def _file_of(image, e):
    """the image entry that carries data and metadata of e (hardlinks point to it)"""
    while e["type"] == "hardlink":
        e = next(x for x in image if x["path"] == e["to"])
    return e


def same_size_other_data(data):
    """a string of the same length that differs (if there is anything to differ in)"""
    return "".join("Z" if c != "Z" else "Y" for c in data)


def twin(draw, src):
    """a pre-existing regular file that equals the image file `src` in a drawn subset of
    {content, size, mtime, mode, uid, gid} (a re-merge of an unchanged, touched, chmod'ed, chown'ed or edited file):
    bit 0-1: content same / same size but other bytes / other size; bit 2: mtime; 3: mode; 4: uid; 5: gid"""
    bits = draw(st.integers(0, 95))
    content, keep = bits % 3, bits // 3
    e = {"type": "file", "data": src.get("data", ""), "rep": src.get("rep", 1)}
    if content == 1:
        e["data"] = same_size_other_data(e["data"])
    elif content == 2:
        e["data"], e["rep"] = e["data"] + "+", e["rep"] + 1
    other = {"mtime": [m for m in MTIMES if m != src["mtime"]], "mode": [m for m in FILE_MODES if m != src["mode"]],
             "uid": [u for u in UIDS if u != src["uid"]], "gid": [g for g in UIDS if g != src["gid"]]}
    for i, k in enumerate(("mtime", "mode", "uid", "gid")):
        e[k] = src[k] if keep >> i & 1 else draw(st.sampled_from(other[k]))
    return e


@st.composite
def live_root(draw, image, collide=0.45, refusals=True, stale=0.08, dangling_dir=True):
    """root spec colliding with `image`. refusals=False leaves out the collisions for which a merge may legitimately
    refuse (directory where a non-directory goes, non-directory where a directory goes)."""
    spec = []
    counter = [0]

    def fresh(prefix):
        counter[0] += 1
        return f"{prefix}-{counter[0]}"

    def victim(at_dir):
        p = _join(at_dir, fresh("zz-victim"))
        d, r = draw(st.sampled_from(OLD_DATA))
        spec.append({"path": p, "type": "file", "data": "victim:" + d, "rep": r, **_meta(draw, FILE_MODES)})
        return p

    # phys[image dir] = where that directory physically lives in the root (None: cannot hold pre-existing children)
    phys = {"": ""}
    # image-relative paths of entries (hardlinks count as files)
    for e in image:
        path = e["path"]
        parent, name = os.path.split(path)
        isdir = e["type"] == "dir"
        pp = phys.get(parent)
        if pp is None:
            if isdir:
                phys[path] = None
            continue
        here = _join(pp, name)
        if not _chance(draw, int(collide * 100)):
            if isdir:
                # keep the chance of pre-existing children: the dir itself does not pre-exist unless a child does
                phys[path] = here
            continue
        pool = COLLISIONS_DIR if isdir else COLLISIONS_NONDIR
        if not refusals:
            bad = REFUSING_DIR if isdir else REFUSING_NONDIR
            pool = tuple(k for k in pool if k not in bad)
        if isdir and not dangling_dir:
            pool = tuple(k for k in pool if k not in ("dangling", "dangling_abs"))
        kind = draw(st.sampled_from(pool))
        if isdir:
            phys[path] = None
        if kind == "same":
            if isdir:
                spec.append({"path": here, "type": "dir", **_meta(draw, DIR_MODES)})
                phys[path] = here
            elif e["type"] in ("file", "hardlink"):
                if draw(st.booleans()):
                    spec.append({"path": here, **twin(draw, _file_of(image, e))})
                else:
                    d, r = draw(st.sampled_from(OLD_DATA))
                    spec.append({"path": here, "type": "file", "data": d, "rep": r, **_meta(draw, FILE_MODES)})
            elif e["type"] == "sym":
                spec.append({"path": here, "type": "sym", "target": draw(st.sampled_from(("old-target", e["target"]))),
                             "uid": draw(st.sampled_from(UIDS)), "gid": draw(st.sampled_from(UIDS))})
            else:
                spec.append({"path": here, "type": "fifo", **_meta(draw, FIFO_MODES)})
        elif kind == "file":
            d, r = draw(st.sampled_from(OLD_DATA))
            spec.append({"path": here, "type": "file", "data": d, "rep": r, **_meta(draw, FILE_MODES)})
        elif kind == "hardlinked":
            v = victim(pp)
            spec.append({"path": here, "type": "hardlink", "to": v})
        elif kind == "fifo":
            spec.append({"path": here, "type": "fifo", **_meta(draw, FIFO_MODES)})
        elif kind == "sym":
            spec.append({"path": here, "type": "sym", "target": "old-target", "uid": draw(st.sampled_from(UIDS)),
                         "gid": draw(st.sampled_from(UIDS))})
        elif kind == "symfile":
            v = victim(pp)
            spec.append({"path": here, "type": "sym", "target": os.path.basename(v)})
        elif kind == "symdir":
            real = here + ".real"
            spec.append({"path": real, "type": "dir", **_meta(draw, DIR_MODES)})
            spec.append({"path": here, "type": "sym", "target": os.path.basename(real),
                         "uid": draw(st.sampled_from(UIDS)), "gid": draw(st.sampled_from(UIDS))})
            if isdir:
                phys[path] = real
        elif kind == "dangling":
            spec.append({"path": here, "type": "sym", "target": "vf-nowhere"})
        elif kind == "dangling_abs":
            spec.append({"path": here, "type": "sym", "target": "/vf-nonexistent/d"})
        elif kind in ("dir", "dir_with_target"):
            spec.append({"path": here, "type": "dir", **_meta(draw, DIR_MODES)})
            if draw(st.booleans()):
                spec.append({"path": _join(here, "kept"), "type": "file", "data": "kept", **_meta(draw, FILE_MODES)})
            if kind == "dir_with_target" and e["type"] == "sym" and not e["target"].startswith("/"):
                # a directory *inside* the colliding directory named like the link text
                t = os.path.normpath(_join(here, e["target"]))
                if not t.startswith("..") and t != here and (t + "/").startswith(here + "/"):
                    spec.append({"path": t, "type": "dir"})
        # stale temporary sibling, as an interrupted earlier merge leaves it
        if not isdir and kind not in ("dir", "dir_with_target") and _chance(draw, int(stale * 100)):
            sib = here + "#new"
            if draw(st.integers(0, 3)):
                spec.append({"path": sib, "type": "file", "data": "STALE-stale-STALE-", "rep": draw(st.sampled_from((1, 30, 3000))),
                             **_meta(draw, FILE_MODES)})
            else:
                v = victim(pp)
                spec.append({"path": sib, "type": "sym", "target": os.path.basename(v)})
    # unrelated bystanders
    for _ in range(draw(st.integers(0, 3))):
        homes = sorted({p for p in phys.values() if p is not None})
        home = draw(st.sampled_from(homes))
        if draw(st.booleans()):
            victim(home)
        else:
            spec.append({"path": _join(home, fresh("zz-dir")), "type": "dir", **_meta(draw, DIR_MODES)})
    # drop entries whose path was already used (e.g. image names ending in .real or #new colliding with ours)
    seen, out = set(), []
    for e in spec:
        if e["path"] in seen:
            continue
        seen.add(e["path"])
        out.append(e)
    # an entry cannot live below a non-directory created earlier in the same spec
    # ... nor take the place of a directory that an earlier entry implies (a#new/x, then a stale file a#new)
    nondirs, implied_dirs, kept = set(), set(), set()
    final = []
    for e in out:
        parts = e["path"].split("/")
        ancestors = ["/".join(parts[:i]) for i in range(1, len(parts))]
        if any(a in nondirs for a in ancestors):
            continue
        if e["type"] != "dir" and e["path"] in implied_dirs:
            continue
        if e["type"] == "hardlink" and e["to"] not in kept:
            continue
        if e["type"] != "dir":
            nondirs.add(e["path"])
        implied_dirs.update(ancestors)
        kept.add(e["path"])
        final.append(e)
    return final


OFFSETS = ("offset", "offset", "offset/", "rewrite", "rewrite")


@st.composite
def merge_case(draw, max_entries=10, min_entries=1, odd="all", collide=0.45, refusals=True, stale=0.08, big=True,
               dangling_dir=True, drop=True):
    img = draw(image_tree(max_entries=max_entries, min_entries=min_entries, odd=odd, big=big))
    if _chance(draw, 4):
        root = []
    else:
        root = draw(live_root(img, collide=collide, refusals=refusals, stale=stale, dangling_dir=dangling_dir))
    variant = {"offset": draw(st.sampled_from(OFFSETS)), "order": draw(st.sampled_from(("sorted", "reversed", "scan"))),
               "drop": []}
    if not root and draw(st.booleans()):
        variant["offset"] = "missing"  # the offset directory itself does not exist yet
    if drop:
        dirs = [e["path"] for e in img if e["type"] == "dir"]
        # only directories without sub-directories can be left out of a contents set (missing *parents* of files)
        leafish = [d for d in dirs if not any(o != d and o.startswith(d + "/") for o in dirs)]
        if leafish and draw(st.integers(0, 5)) == 0:
            variant["drop"] = sorted(set(draw(st.lists(st.sampled_from(leafish), min_size=1, max_size=2))))
    return {"img": img, "root": root, "variant": variant}
