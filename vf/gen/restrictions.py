"""Restriction trees as JSON-able *specs*, a builder into pkgcore objects and an independent
propositional evaluator (used by C06, C08).

Spec grammar (plain dicts):

  boolean node   {"k": "and"|"or"|"one"|"most", "neg": bool, "nt": "package"|"values"|None, "c": [spec, ...]}
                 -> boolean.AndRestriction / OrRestriction / JustOneRestriction / AtMostOneOfRestriction
                    (*children, negate=neg[, node_type=nt])
  wrapper        {"k": "not", "c": spec}                       -> restriction.Negate(child)
  package leaves {"k": "pr", "attr": A, "neg": bool, "v": value-spec}  -> packages.PackageRestriction(A, v, negate=neg)
                 {"k": "dep", "cls": "CategoryDep"|"PackageDep"|"SlotDep"|"RepositoryDep", "s": str, "neg": bool}
                 {"k": "ver", "op": op, "ver": v, "rev": r|None, "neg": bool}  -> restricts.VersionMatch
                 {"k": "atom", "cat","pkg","op","ver","rev","slot","use":[..]}  -> atom.atom(string)
                 {"k": "always", "val": bool, "nt": "package"|"values"}          -> restriction.AlwaysBool
  value leaves   {"k": "exact", "s", "cs": bool, "neg"}   StrExactMatch
                 {"k": "glob", "s", "prefix": bool, "cs": bool, "neg"}   StrGlobMatch
                 {"k": "regex", "re", "match": bool, "cs": bool, "neg"}   StrRegex
                 {"k": "contain", "vals": [..], "all": bool, "neg"}   ContainmentMatch (for the `use` attribute)
  value-level boolean nodes are boolean nodes with nt="values" whose children are value specs.

`evaluate(spec, view)` is the reference: `view` is a dict attribute-name -> value
("category", "package", "fullver", "slot", "use" (frozenset), "repo.repo_id"); it never calls pkgcore.
Semantics of the connectives: and = all, or = any, one = exactly one child true (no children: true,
as documented on JustOneRestriction and PMS "empty group is matched"), most = at most one child true;
`neg` inverts; an empty `or` is false, an empty `and` is true.
"""

from __future__ import annotations

import re

from hypothesis import strategies as st

from ..ref import pms_version as R

BOOL_KINDS = ("and", "or", "one", "most")

# ---------------------------------------------------------------------------------------------
# reference evaluation
# ---------------------------------------------------------------------------------------------


def _attr(view, attr):
    return view[attr]


def eval_value(spec, val):
    """value-level spec against a raw attribute value"""
    k = spec["k"]
    if k in BOOL_KINDS:
        return _eval_bool(spec, [eval_value(c, val) for c in spec["c"]])
    if k == "not":
        return not eval_value(spec["c"], val)
    if k == "always":
        return bool(spec["val"])
    neg = bool(spec.get("neg"))
    if k == "exact":
        s, v = spec["s"], str(val)
        if not spec.get("cs", True):
            s, v = s.lower(), v.lower()
        return (s == v) != neg
    if k == "glob":
        s, v = spec["s"], str(val)
        if not spec.get("cs", True):
            s, v = s.lower(), v.lower()
        hit = v.startswith(s) if spec.get("prefix", True) else v.endswith(s)
        return hit != neg
    if k == "regex":
        flags = 0 if spec.get("cs", True) else re.IGNORECASE
        rx = re.compile(spec["re"], flags)
        v = "" if val is None else str(val)
        m = rx.match(v) if spec.get("match") else rx.search(v)
        return (m is not None) != neg
    if k == "contain":
        vals = set(spec["vals"])
        have = set(val)
        hit = vals <= have if spec.get("all") else bool(vals & have)
        return hit != neg
    raise ValueError(f"unknown value spec {spec!r}")


def _eval_bool(spec, truths):
    k = spec["k"]
    n = sum(1 for t in truths if t)
    if k == "and":
        r = n == len(truths)
    elif k == "or":
        r = n > 0
    elif k == "one":
        r = (n == 1) if truths else True
    else:
        r = n <= 1
    return r != bool(spec.get("neg"))


DEP_ATTR = {"CategoryDep": "category", "PackageDep": "package", "SlotDep": "slot", "RepositoryDep": "repo.repo_id"}


def evaluate(spec, view):
    k = spec["k"]
    if k in BOOL_KINDS:
        if spec.get("nt") == "values":
            raise ValueError("value-level node outside a pr leaf")
        return _eval_bool(spec, [evaluate(c, view) for c in spec["c"]])
    if k == "not":
        return not evaluate(spec["c"], view)
    if k == "always":
        return bool(spec["val"])
    if k == "pr":
        return eval_value(spec["v"], _attr(view, spec["attr"])) != bool(spec.get("neg"))
    if k == "dep":
        return (str(_attr(view, DEP_ATTR[spec["cls"]])) == spec["s"]) != bool(spec.get("neg"))
    if k == "ver":
        pv, pr = R.split_fullver(view["fullver"])
        return R.op_holds(spec["op"], pv, pr, spec["ver"], spec.get("rev")) != bool(spec.get("neg"))
    if k == "atom":
        if view["category"] != spec["cat"] or view["package"] != spec["pkg"]:
            return False
        if spec.get("op"):
            pv, pr = R.split_fullver(view["fullver"])
            if not R.op_holds(spec["op"], pv, pr, spec["ver"], spec.get("rev")):
                return False
        if spec.get("slot") is not None and view["slot"] != spec["slot"]:
            return False
        for u in spec.get("use") or ():
            if u.startswith("-"):
                if u[1:] in view["use"]:
                    return False
            elif u not in view["use"]:
                return False
        return True
    raise ValueError(f"unknown spec {spec!r}")


def atom_str(spec):
    s = f"{spec['cat']}/{spec['pkg']}"
    if spec.get("op"):
        s = f"{spec['op']}{s}-{spec['ver']}"
        if spec.get("rev") is not None:
            s += f"-r{spec['rev']}"
    if spec.get("slot") is not None:
        s += f":{spec['slot']}"
    if spec.get("use"):
        s += "[" + ",".join(spec["use"]) + "]"
    return s


# ---------------------------------------------------------------------------------------------
# structure helpers
# ---------------------------------------------------------------------------------------------


def children(spec):
    k = spec["k"]
    if k in BOOL_KINDS:
        return list(spec["c"])
    if k == "not":
        return [spec["c"]]
    if k == "pr":
        return [spec["v"]]
    return []


def walk(spec, depth=0, parents=()):
    """yield (node, depth, parents) pre-order, descending into value specs of pr leaves"""
    yield spec, depth, parents
    for c in children(spec):
        yield from walk(c, depth + 1, parents + (spec,))


def is_pkg_leaf(spec):
    return spec["k"] in ("pr", "dep", "ver", "atom", "always")


def pkg_leaves(spec):
    """package-level leaves (pr nodes are leaves at the package level)"""
    k = spec["k"]
    if k in BOOL_KINDS:
        out = []
        for c in spec["c"]:
            out.extend(pkg_leaves(c))
        return out
    if k == "not":
        return pkg_leaves(spec["c"])
    return [spec]


def attrs_of(spec):
    """attributes a spec reads"""
    out = set()
    for n, _d, _p in walk(spec):
        k = n["k"]
        if k == "pr":
            out.add(n["attr"])
        elif k == "dep":
            out.add(DEP_ATTR[n["cls"]])
        elif k == "ver":
            out.add("fullver")
        elif k == "atom":
            out.update(("category", "package"))
            if n.get("op"):
                out.add("fullver")
            if n.get("slot") is not None:
                out.add("slot")
            if n.get("use"):
                out.add("use")
    return out


def pkg_depth(spec):
    """height of the package-level tree (leaf = 1; wrappers count as a level)"""
    k = spec["k"]
    if k in BOOL_KINDS:
        return 1 + max([pkg_depth(c) for c in spec["c"]] or [0])
    if k == "not":
        return 1 + pkg_depth(spec["c"])
    return 1


def count_negations(spec):
    n = 0
    for node, _d, _p in walk(spec):
        if node["k"] == "not" or node.get("neg"):
            n += 1
    return n


def dnf_size_bound(spec):
    """upper bound on the number of DNF clauses pkgcore may produce (used to keep cases small)"""
    k = spec["k"]
    if k == "and" and not spec.get("neg"):
        n = 1
        for c in spec["c"]:
            n *= dnf_size_bound(c)
        return max(n, 1)
    if k in ("or", "and"):
        # or: sum of children; negated and: one clause per child (Negate wrappers);
        # negated or (with the fall-through on the unchanged tree): 1 + sum
        return 1 + sum(dnf_size_bound(c) for c in spec["c"])
    if k == "atom":
        return 1
    return 1


def variants(spec):
    """structurally smaller specs of the same level (used by the greedy shrinkers)"""
    k = spec["k"]
    if k in BOOL_KINDS:
        for c in spec["c"]:
            yield c
        for i in range(len(spec["c"])):
            yield dict(spec, c=spec["c"][:i] + spec["c"][i + 1:])
        for i, c in enumerate(spec["c"]):
            for v in variants(c):
                yield dict(spec, c=spec["c"][:i] + [v] + spec["c"][i + 1:])
        if spec.get("nt") == "package":
            yield dict(spec, nt=None)
    elif k == "not":
        yield spec["c"]
        for v in variants(spec["c"]):
            yield dict(spec, c=v)
    elif k == "pr":
        for v in variants(spec["v"]):
            yield dict(spec, v=v)
    elif k == "atom":
        if spec.get("use"):
            yield dict(spec, use=[])
        if spec.get("slot") is not None:
            yield dict(spec, slot=None)
        if spec.get("op"):
            yield dict(spec, op="", ver=None, rev=None)


def simplifications(spec):
    """same-size but plainer specs: exactly-one/at-most-one -> and/or, negate flags dropped, case-insensitive ->
    case-sensitive (used by shrinkers so that a minimal case only keeps the features it needs)"""
    k = spec["k"]
    if k in BOOL_KINDS:
        if k == "one":
            yield dict(spec, k="and")
            yield dict(spec, k="or")
        elif k == "most":
            yield dict(spec, k="or")
            yield dict(spec, k="and")
        if spec.get("neg"):
            yield dict(spec, neg=False)
        for i, c in enumerate(spec["c"]):
            for v in simplifications(c):
                yield dict(spec, c=spec["c"][:i] + [v] + spec["c"][i + 1:])
    elif k == "not":
        for v in simplifications(spec["c"]):
            yield dict(spec, c=v)
    elif k == "pr":
        if spec.get("neg"):
            yield dict(spec, neg=False)
        for v in simplifications(spec["v"]):
            yield dict(spec, v=v)
    elif k in ("exact", "glob", "regex", "contain", "dep", "ver"):
        if spec.get("neg"):
            yield dict(spec, neg=False)
        if spec.get("cs") is False:
            yield dict(spec, cs=True)


def complexity(spec):
    n = 0
    for node, _d, _p in walk(spec):
        n += 10
        if node["k"] in ("one", "most"):
            n += 2
        if node.get("neg"):
            n += 1
        if node.get("cs") is False:
            n += 1
    return n


def size(spec):
    return sum(1 for _ in walk(spec))


def dnf_lengths(spec, cap=600):
    """clause lengths of the DNF pkgcore derives for the node (upper estimate), None if more than `cap` clauses"""
    k = spec["k"]
    if k == "and" and not spec.get("neg"):
        cur = [0]
        for c in spec["c"]:
            sub = dnf_lengths(c, cap)
            if sub is None or len(cur) * len(sub) > cap:
                return None
            cur = [a + b for a in cur for b in sub]
        return cur
    if k == "or" and not spec.get("neg"):
        out = []
        for c in spec["c"]:
            sub = dnf_lengths(c, cap)
            if sub is None:
                return None
            out.extend(sub)
            if len(out) > cap:
                return None
        return out or [0]
    if k == "and":
        return [1] * max(len(spec["c"]), 1)
    if k == "or":
        # De Morgan clause (+ the members again on a tree without the missing-return fix)
        out = [max(len(spec["c"]), 1)]
        for c in spec["c"]:
            sub = dnf_lengths(c, cap)
            if sub is None:
                return None
            out.extend(sub)
        return out if len(out) <= cap else None
    if k == "atom":
        return [6]
    return [1]


def cnf_count(spec, cap=4000):
    """number of CNF clauses pkgcore derives for the node (upper estimate; `cap`+1 = too many)"""
    k = spec["k"]
    if k == "and" and not spec.get("neg"):
        return min(cap + 1, sum(cnf_count(c, cap) for c in spec["c"]))
    if k == "or" and not spec.get("neg"):
        n = 1
        for c in spec["c"]:
            sub = dnf_lengths(c)
            if sub is None:
                return cap + 1
            for ln in sub:
                if ln > 1:
                    n *= ln
                    if n > cap:
                        return cap + 1
        return n
    return 1


# ---------------------------------------------------------------------------------------------
# builder
# ---------------------------------------------------------------------------------------------


class Builder:
    """spec -> pkgcore objects; `registry` lists (spec, object) for every node built (post-order)."""

    def __init__(self):
        from pkgcore.ebuild import atom as atom_mod
        from pkgcore.ebuild import restricts
        from pkgcore.restrictions import boolean, packages, restriction, values

        self.atom_mod, self.restricts = atom_mod, restricts
        self.boolean, self.packages, self.restriction, self.values = boolean, packages, restriction, values
        self.bool_cls = {
            "and": boolean.AndRestriction,
            "or": boolean.OrRestriction,
            "one": boolean.JustOneRestriction,
            "most": boolean.AtMostOneOfRestriction,
        }
        self.registry = []

    def build(self, spec):
        o = self._build(spec)
        self.registry.append((spec, o))
        return o

    def _build(self, spec):
        k = spec["k"]
        V = self.values
        if k in BOOL_KINDS:
            kids = [self.build(c) for c in spec["c"]]
            kw = {}
            if spec.get("neg"):
                kw["negate"] = True
            if spec.get("nt"):
                kw["node_type"] = spec["nt"]
            return self.bool_cls[k](*kids, **kw)
        if k == "not":
            return self.restriction.Negate(self.build(spec["c"]))
        if k == "always":
            return self.restriction.AlwaysBool(spec.get("nt") or "package", negate=bool(spec["val"]))
        if k == "pr":
            return self.packages.PackageRestriction(spec["attr"], self.build(spec["v"]), negate=bool(spec.get("neg")))
        if k == "dep":
            cls = getattr(self.restricts, spec["cls"])
            return cls(spec["s"], negate=bool(spec.get("neg")))
        if k == "ver":
            return self.restricts.VersionMatch(spec["op"], spec["ver"], spec.get("rev"), negate=bool(spec.get("neg")))
        if k == "atom":
            return self.atom_mod.atom(atom_str(spec))
        neg = bool(spec.get("neg"))
        if k == "exact":
            return V.StrExactMatch(spec["s"], case_sensitive=spec.get("cs", True), negate=neg)
        if k == "glob":
            return V.StrGlobMatch(spec["s"], case_sensitive=spec.get("cs", True), prefix=spec.get("prefix", True), negate=neg)
        if k == "regex":
            return V.StrRegex(spec["re"], case_sensitive=spec.get("cs", True), match=bool(spec.get("match")), negate=neg)
        if k == "contain":
            return V.ContainmentMatch(frozenset(spec["vals"]), match_all=bool(spec.get("all")), negate=neg)
        raise ValueError(f"unknown spec {spec!r}")


# ---------------------------------------------------------------------------------------------
# hypothesis strategies
# ---------------------------------------------------------------------------------------------
# Strategy objects are built once per Profile (building/validating them per draw dominates otherwise).

_INTS = {}


def _int(draw, lo, hi):
    s = _INTS.get((lo, hi))
    if s is None:
        s = _INTS[(lo, hi)] = st.integers(lo, hi)
    return draw(s)


def _pick(draw, seq):
    return seq[_int(draw, 0, len(seq) - 1)]


def _negd(draw):
    return _int(draw, 0, 2) == 2


def _rared(draw):
    return _int(draw, 0, 7) == 0


def _boold(draw):
    return _int(draw, 0, 1) == 1


def _mk_re(kind, a, b, m, neg):
    if kind == 0:
        rx = "^" + re.escape(a)
    elif kind == 1:
        rx = re.escape(b) + "$"
    elif kind == 2:
        rx = "^" + re.escape(a) + ".*" + re.escape(b[-1:]) + "$"
    else:
        rx = re.escape(a[-1:])
    return {"k": "regex", "re": rx, "match": m, "cs": True, "neg": neg}


def str_value_leaf(pool):
    """draw-function for a value leaf over a string attribute whose observed values are `pool`"""
    pool = list(pool)
    prefixes = sorted({p[:i] for p in pool for i in range(1, len(p) + 1)})
    suffixes = sorted({p[i:] for p in pool for i in range(0, len(p))})
    exacts = pool + [pool[0] + "x"]

    def f(draw):
        kind = _int(draw, 0, 3)
        neg = _negd(draw)
        if kind <= 1:
            s = _pick(draw, exacts)
            cs = _int(draw, 0, 3) != 0
            return {"k": "exact", "s": s.upper() if not cs and len(s) % 2 else s, "cs": cs, "neg": neg}
        if kind == 2:
            pre = _boold(draw)
            cs = _int(draw, 0, 3) != 0
            return {"k": "glob", "s": _pick(draw, prefixes if pre else suffixes), "prefix": pre, "cs": cs, "neg": neg}
        return _mk_re(_int(draw, 0, 3), _pick(draw, prefixes), _pick(draw, suffixes), _boold(draw), neg)

    return f


def use_value_leaf(flags):
    flags = list(flags)

    def f(draw):
        n = _int(draw, 1, 2)
        vals = sorted({_pick(draw, flags) for _ in range(n)})
        return {"k": "contain", "vals": vals, "all": _boold(draw), "neg": _negd(draw)}

    return f


_VKINDS = ["and", "or", "and", "or", "one", "most"]


def value_node(draw, leaf, allow_tree=True):
    """value spec: mostly a single leaf, sometimes a small value-level boolean tree over leaves"""
    if not allow_tree or _int(draw, 0, 3) != 0:
        return leaf(draw)
    kind = _pick(draw, _VKINDS)
    n = _pick(draw, [1, 2, 2, 2, 3])
    kids = []
    for _ in range(n):
        c = leaf(draw)
        if _rared(draw):
            c = {"k": "always", "val": _boold(draw), "nt": "values"}
        elif _rared(draw):
            c = {"k": "not", "c": c}
        kids.append(c)
    return {"k": kind, "neg": _negd(draw), "nt": "values", "c": kids}


class Profile:
    """leaf pools for a universe: attribute value pools + version pool + flags"""

    def __init__(self, cats, pkgs, vers, slots=("0", "1"), flags=("f", "g"), repos=("r1", "r2"),
                 attrs=("category", "package", "fullver", "slot", "use", "repo.repo_id"),
                 weights=None, value_trees=True, atoms=True, atom_extras=True):
        self.cats, self.pkgs, self.vers = list(cats), list(pkgs), list(vers)
        self.slots, self.flags, self.repos = list(slots), list(flags), list(repos)
        self.attrs = tuple(attrs)
        self.weights = weights or {}
        self.value_trees = value_trees
        self.atoms = atoms
        self.atom_extras = atom_extras
        w = self.weights
        bag = []
        for a in self.attrs:
            bag.extend([a] * int(w.get(a, 2)))
        if atoms and "category" in self.attrs and "package" in self.attrs:
            bag.extend(["@atom"] * int(w.get("@atom", 2)))
        bag.extend(["@always"] * int(w.get("@always", 1)))
        self.bag = bag
        self.vleaf = {a: str_value_leaf(self.pool(a)) for a in self.attrs if a != "use"}
        self.vleaf["use"] = use_value_leaf(self.flags)

    def pool(self, attr):
        return {
            "category": self.cats,
            "package": self.pkgs,
            "fullver": self.vers,
            "slot": self.slots,
            "repo.repo_id": self.repos,
        }[attr]


_OPS = ["=", ">=", "<=", "<", ">", "~"]
_DEPCLS = {"category": "CategoryDep", "package": "PackageDep", "slot": "SlotDep", "repo.repo_id": "RepositoryDep"}


def pkg_leaf(draw, prof: Profile):
    """one package-level leaf"""
    attrs = prof.attrs
    which = _pick(draw, prof.bag)
    if which == "@always":
        return {"k": "always", "val": _boold(draw), "nt": "package"}
    if which == "@atom":
        spec = {"k": "atom", "cat": _pick(draw, prof.cats), "pkg": _pick(draw, prof.pkgs),
                "op": "", "ver": None, "rev": None, "slot": None, "use": []}
        if "fullver" in attrs and _boold(draw):
            v, r = R.split_fullver(_pick(draw, prof.vers))
            op = _pick(draw, _OPS)
            if op == "~":
                r = None
            spec.update(op=op, ver=v, rev=r)
        if prof.atom_extras:
            if "slot" in attrs and _rared(draw):
                spec["slot"] = _pick(draw, prof.slots)
            if "use" in attrs and _rared(draw):
                f = _pick(draw, prof.flags)
                spec["use"] = [("-" if _boold(draw) else "") + f]
        return spec
    a = which
    if a == "use":
        return {"k": "pr", "attr": "use", "neg": _negd(draw), "v": value_node(draw, prof.vleaf["use"], prof.value_trees)}
    if a == "fullver":
        if _int(draw, 0, 3) == 0:
            return {"k": "pr", "attr": "fullver", "neg": _negd(draw),
                    "v": value_node(draw, prof.vleaf["fullver"], prof.value_trees)}
        v, r = R.split_fullver(_pick(draw, prof.vers))
        op = _pick(draw, _OPS)
        if op == "~":
            r = None
        return {"k": "ver", "op": op, "ver": v, "rev": r, "neg": _negd(draw)}
    # string attributes: dep class or generic PackageRestriction
    if _int(draw, 0, 3) == 0:
        pool = prof.pool(a)
        return {"k": "dep", "cls": _DEPCLS[a], "s": _pick(draw, pool + [pool[0] + "x"]), "neg": _negd(draw)}
    return {"k": "pr", "attr": a, "neg": _negd(draw), "v": value_node(draw, prof.vleaf[a], prof.value_trees)}


def draw_tree(draw, prof: Profile, max_depth=4, max_fan=3, max_leaves=8, max_distinct=4,
              kinds=("and", "or", "and", "or", "one", "most"), empty_rate=12, leaf_list=None, top_bool=False,
              typed=("package", None)):
    """package-level restriction tree over at most `max_distinct` distinct leaves (draw-function)"""
    if leaf_list is None:
        nleaf = _int(draw, 1, max_distinct)
        leaves = [pkg_leaf(draw, prof) for _ in range(nleaf)]
    else:
        leaves = list(leaf_list)
    budget = [max_leaves]
    kinds = list(kinds)
    typed = list(typed)

    def node(depth, force_bool=False):
        make_leaf = depth <= 1 or budget[0] <= 1 or (not force_bool and _int(draw, 0, 3) == 0)
        if make_leaf:
            budget[0] -= 1
            n = _pick(draw, leaves)
        else:
            kind = _pick(draw, kinds)
            fan = 0 if _int(draw, 0, empty_rate) == 0 else _int(draw, 1, max_fan)
            kids = []
            for _ in range(fan):
                if budget[0] <= 0:
                    break
                kids.append(node(depth - 1))
            n = {"k": kind, "neg": _negd(draw), "nt": _pick(draw, typed), "c": kids}
        if _int(draw, 0, 7) == 0:
            n = {"k": "not", "c": n}
        return n

    depth = _int(draw, 2, max_depth)
    return node(depth, force_bool=top_bool or _int(draw, 0, 5) != 0)


def draw_cross(draw, prof: Profile):
    """And node with >=2 children that each expand to several DNF solutions (Or of 2-3 leaves, negated And,
    And(Or, leaf)), optionally plus plain leaves / an xor node, optionally wrapped in an Or / And / Negate --
    exercises the cross-product in And.iter_dnf_solutions and Or.cnf_solutions built on it"""
    leaves = [pkg_leaf(draw, prof) for _ in range(_int(draw, 3, 4))]

    def lf():
        n = _pick(draw, leaves)
        return {"k": "not", "c": n} if _int(draw, 0, 9) == 0 else n

    def multi():
        r = _int(draw, 0, 9)
        nt = _pick(draw, ["package", None])
        if r < 7:
            return {"k": "or", "neg": False, "nt": nt, "c": [lf() for _ in range(_pick(draw, [2, 2, 2, 3]))]}
        if r < 8:
            return {"k": "and", "neg": True, "nt": nt, "c": [lf() for _ in range(2)]}
        inner = {"k": "or", "neg": False, "nt": nt, "c": [lf() for _ in range(2)]}
        return {"k": "and", "neg": False, "nt": nt, "c": [inner, lf()] if _boold(draw) else [lf(), inner]}

    kids = [multi() for _ in range(_pick(draw, [2, 2, 2, 2, 3]))]
    r = _int(draw, 0, 5)
    if r == 0:
        kids.insert(_int(draw, 0, len(kids)), lf())
    elif r == 1:
        kids.insert(_int(draw, 0, len(kids)),
                    {"k": _pick(draw, ["one", "most"]), "neg": _negd(draw), "nt": None, "c": [lf(), lf()]})
    root = {"k": "and", "neg": False, "nt": _pick(draw, ["package", None]), "c": kids}
    r = _int(draw, 0, 9)
    if r < 3:
        root = {"k": "or", "neg": False, "nt": None, "c": [root, lf()] if _boold(draw) else [lf(), root]}
    elif r < 4:
        root = {"k": "and", "neg": False, "nt": None, "c": [lf(), root]}
    elif r < 5:
        root = {"k": _pick(draw, ["or", "and", "one", "most"]), "neg": True, "nt": None, "c": [root, lf()]}
    return root


def cross(prof: Profile):
    @st.composite
    def _s(draw):
        return draw_cross(draw, prof)

    return _s()


def tree(prof: Profile, **kw):
    """hypothesis strategy wrapping draw_tree"""

    @st.composite
    def _s(draw):
        return draw_tree(draw, prof, **kw)

    return _s()
