"""Generators for dependency atoms.

Every generator exists in two forms: a plain builder ``build_*(rnd)`` taking a ``random.Random``
and a hypothesis strategy of the same name without the prefix.  The strategies draw ONE 64-bit
integer from hypothesis and seed a private ``random.Random`` with it (all randomness therefore
comes from the hypothesis strategy and is reproducible from the hypothesis seed); a valid atom needs
~40 random choices and native hypothesis draws cost ~0.1 ms each, which made the native version
25x slower than the code under test.  Failing cases are shrunk by the property modules themselves
(character deletion), not by hypothesis.

* ``valid_atom()`` / ``build_valid_atom(rnd)``: constructive -- draws the parts (blocker, operator,
  category, package name, version, slot dependency, repository, USE dependency) and assembles the
  text, so the expected fields are known *without parsing*.  Value:
  ``{"s": text, "fields": {...}, "features": [...]}`` where ``fields`` has the keys of
  ``vf.ref.pms_atom.parse`` (minus ``features``) and ``features`` lists the optional grammar
  features the text needs (``slot_deps``, ``sub_slots``, ``use_deps``, ``use_defaults``,
  ``strong_blockers``, ``repo_ids``): the text is valid under an EAPI iff all of them are legal
  there.  Features are drawn independently of any EAPI, so every feature x EAPI gate is exercised
  when the text is tried under all EAPIs.
* ``mutation(base)`` / ``mutate(rnd, base)``: one edit of a text: insert/delete/replace one
  character of ``ALPHABET`` (biased to delimiter boundaries), or a structural edit (drop the
  version, drop/add the operator, duplicate or swap the slot/USE block, append a version-like tail
  to the package name, newline, blocker, USE/slot/revision edits, and ``slot_structure_edit``:
  extra ``/part``s, empty parts, ``/`` at either end, slot operator in the middle).  Value: ``(text, kind)``.
* ``atom_case()`` / ``build_atom_case(rnd)``: a valid atom, 60% of the time followed by 1-2
  mutations; value ``{"s", "parent", "mut", "fields"|None, "features"|None, "parent_features"|None}``.
* ``fuzz_text()`` / ``build_fuzz_text(rnd)``: raw text over ``ALPHABET`` and splices of atom
  fragments (char-level fuzzing).
* name builders ``build_category``, ``build_pkgname``, ``build_slotname``, ``build_reponame``,
  ``build_useflag``, ``build_use_item`` (+ strategies ``category()``, ``pkgname()``, ...) are
  exported for other generators (dep strings, queries).

The validity rules used to *construct* names live here (``_version_like_tail`` + repair in
``build_pkgname``) and are written separately from ``vf.ref.pms_atom`` so the two cross-check each
other.
"""
from __future__ import annotations

import random
import re

from hypothesis import strategies as st

OPS = ("<", "<=", "=", "~", ">=", ">")

# characters used for mutation / fuzzing: every delimiter of the grammar, representatives of each
# character class, whitespace, and two non-ASCII "digits" (U+0661 is category Nd: matched by \d and
# str.isdigit and accepted by int(); U+00B2 is isdigit() but not \d and not int()-able).
ALPHABET = "!~<>=*:/[]()+-._,?@# \n\t" + "abprAZ" + "0129" + "١²é"

_lower = "abcdefghijklmnopqrstuvwxyz"
_alnum = _lower + "ABCXYZ" + "0123456789"

_VERSIONISH = re.compile(r"[0-9]+(\.[0-9]+)*[a-z]?(_(alpha|beta|pre|rc|p)[0-9]*)*\Z")
_REVISH = re.compile(r"r[0-9]+\Z")


def _seeded(builder, *args):
    return st.integers(0, 2**64 - 1).map(lambda seed: builder(random.Random(seed), *args))


def _text(rnd, alphabet, lo, hi):
    return "".join(rnd.choice(alphabet) for _ in range(rnd.randint(lo, hi)))


def _version_like_tail(chunks):
    """does the hyphen-separated name end in something of version syntax"""
    if len(chunks) >= 2 and _VERSIONISH.match(chunks[-1]):
        return True
    if len(chunks) >= 3 and _REVISH.match(chunks[-1]) and _VERSIONISH.match(chunks[-2]):
        return True
    return False


# ---- names -------------------------------------------------------------------
_CATS = ["cat", "dev-util", "sys-libs", "x11", "dev+", "_", "a.b", "cross-hppa2.0-linux", "app-1", "c-1.2", "c"]


def build_category(rnd):
    if rnd.random() < 0.6:
        return rnd.choice(_CATS)
    return rnd.choice("abcdefA09_") + _text(rnd, "abcdeAZ019+_.-", 0, 8)


_PKG_CHUNKS = ["foo", "bar", "a", "x", "lib", "1", "2", "10", "01", "1a", "1b", "r1", "r0", "r01", "r", "1_p1", "1_alpha",
               "1_p", "1_", "_", "p+", "9f", "f9", "3D", "100dpi", "", "", "cvs", "1_beta2_p1", "rc1", "1_rc", "alpha", "+x"]
_PKGS = ["pkg", "foo", "bar", "diffball", "a", "7z", "xf86-video-r128", "gtk+", "mod_perl", "foo-bar", "f-100dpi", "foo-1-bar",
         "foo-r1", "timidity--", "diff-mode-", "a9+", "1", "r1", "1-r1", "p"]


def build_pkgname(rnd):
    """valid PMS package name, biased to the acceptance boundary: version-like chunks in the middle,
    revision-like chunks, empty chunks (double/trailing hyphens), '+' and '_'"""
    k = rnd.randrange(10)
    if k <= 2:
        return rnd.choice(_PKGS)
    if k == 3:
        s = _text(rnd, _alnum + "+_", 1, 6)
        return "p" + s if s[0] == "+" else s
    chunks = [rnd.choice(_PKG_CHUNKS) for _ in range(rnd.randint(1, 4))]
    if not chunks[0] or chunks[0][0] == "+":
        chunks[0] = rnd.choice(["foo", "a", "1", "r1", "_"])
    if _version_like_tail(chunks):
        fix = rnd.randrange(4)
        if fix == 0:
            chunks.append(rnd.choice(["x", "", "r", "bar", "1x1", "1A"]))
        elif fix == 1:
            chunks[-1] = chunks[-1] + rnd.choice(["x1", "_", "-", "X", "+"])
            chunks = "-".join(chunks).split("-")
        elif fix == 2:
            chunks.insert(len(chunks) - 1, "")
        else:
            chunks[-1] = "v" + chunks[-1]
        while _version_like_tail(chunks):
            chunks.append("x")
    return "-".join(chunks)


_SLOTS = ["0", "1", "2", "3.11", "1.2", "stable", "0.1-r1", "5+", "_", "a.b-c"]


def build_slotname(rnd):
    if rnd.random() < 0.6:
        return rnd.choice(_SLOTS)
    return rnd.choice("0123459asZ_") + _text(rnd, "0123a+_.-Z", 0, 5)


_REPOS = ["gentoo", "local", "gentoo-x86A_", "r", "_", "a-b", "0"]


def build_reponame(rnd):
    if rnd.random() < 0.6:
        return rnd.choice(_REPOS)
    return rnd.choice("grA0_") + _text(rnd, "aezAZ09_-", 0, 7)


_FLAGS = ["a", "b", "debug", "x@y", "x+y", "x-y", "x_y", "python_targets_python3_11", "0", "A1"]


def build_useflag(rnd):
    if rnd.random() < 0.6:
        return rnd.choice(_FLAGS)
    return rnd.choice("abxzA09") + _text(rnd, "abz09+_@-Z", 0, 5)


_USE_FORMS = ["{f}", "-{f}", "{f}?", "!{f}?", "{f}=", "!{f}="]


def build_use_item(rnd, allow_default=True):
    flag = build_useflag(rnd)
    default = rnd.choice(["", "", "(+)", "(-)"]) if allow_default else ""
    return rnd.choice(_USE_FORMS).format(f=flag + default)


_DIGITS = ["0", "1", "2", "9", "10", "01", "010", "00", "100", "001", "09", "90", "11"]
_SUFFIXES = ("alpha", "beta", "pre", "rc", "p")


def build_version(rnd):
    """(version, revision-or-None) with the same biases as vf.gen.versions (leading/trailing zeros,
    long digit runs, suffix stacks, -r0/-r01)"""
    def num():
        k = rnd.randrange(8)
        if k <= 3:
            return rnd.choice(_DIGITS)
        if k <= 5:
            return str(rnd.randrange(100))
        if k == 6:
            return _text(rnd, "0123456789", 1, 4)
        return _text(rnd, "0123456789", 18, 24)

    v = ".".join(num() for _ in range(rnd.choice([1, 1, 2, 2, 3, 4])))
    v += rnd.choice(["", "", "", "a", "b", "z"])
    for _ in range(rnd.choice([0, 0, 0, 1, 1, 2, 3])):
        v += "_" + rnd.choice(_SUFFIXES) + rnd.choice(["", "", "0", "1", "2", "01", "10", str(rnd.randrange(300))])
    rev = rnd.choice([None, None, None, "0", "1", "2", "01", "00", "10", str(rnd.randrange(200))])
    return v, rev


def fullver(ver, rev):
    return ver if rev is None else f"{ver}-r{rev}"


# ---- constructive atoms ----------------------------------------------------------
_SLOT_FORMS = ["s", "s", "s", "s/s", "s=", "s/s=", "*", "="]


def build_valid_atom(rnd, want=None):
    """see module docstring.  `want`: optional dict forcing presence/absence of the parts
    'blocker', 'op', 'slot', 'repo', 'use' (True/False)"""
    want = want or {}

    def coin(name, p):
        if name in want:
            return bool(want[name])
        return rnd.random() < p

    f = dict(blocks=False, strong=False, op="", category=None, package=None, version=None, revision=None,
             slot=None, subslot=None, slot_op=None, repo=None, use=None)
    feats = set()
    if coin("blocker", 0.25):
        f["blocks"] = True
        if rnd.random() < 0.5:
            f["strong"] = True
            feats.add("strong_blockers")
    f["category"] = build_category(rnd)
    f["package"] = build_pkgname(rnd)
    if coin("op", 0.5):
        f["op"] = rnd.choice(OPS + ("=*", "=", ">="))
        ver, rev = build_version(rnd)
        if f["op"] == "~":
            rev = None
        f["version"], f["revision"] = ver, rev
    if coin("slot", 0.5):
        feats.add("slot_deps")
        form = rnd.choice(_SLOT_FORMS)
        if form in ("*", "="):
            f["slot_op"] = form
        else:
            f["slot"] = build_slotname(rnd)
            if "/" in form:
                f["subslot"] = build_slotname(rnd)
            if form.endswith("="):
                f["slot_op"] = "="
        if form != "s":
            feats.add("sub_slots")
    if coin("repo", 0.2):
        feats.add("repo_ids")
        f["repo"] = build_reponame(rnd)
    if coin("use", 0.5):
        feats.add("use_deps")
        allow_default = rnd.random() < 0.6
        items = [build_use_item(rnd, allow_default) for _ in range(rnd.choice([1, 1, 2, 3]))]
        f["use"] = items
        if any("(" in x for x in items):
            feats.add("use_defaults")
    return {"s": assemble(f), "fields": f, "features": sorted(feats)}


def assemble(f) -> str:
    s = ""
    if f["blocks"]:
        s += "!!" if f["strong"] else "!"
    op = f["op"]
    s += "=" if op == "=*" else op
    s += f["category"] + "/" + f["package"]
    if f["version"] is not None:
        s += "-" + fullver(f["version"], f["revision"])
    if op == "=*":
        s += "*"
    if f["slot"] is not None:
        s += ":" + f["slot"]
        if f["subslot"] is not None:
            s += "/" + f["subslot"]
        if f["slot_op"] == "=":
            s += "="
    elif f["slot_op"]:
        s += ":" + f["slot_op"]
    if f["repo"] is not None:
        s += "::" + f["repo"]
    if f["use"] is not None:
        s += "[" + ",".join(f["use"]) + "]"
    return s


# ---- mutations -----------------------------------------------------------------
_TAILS = ["-1", "-1-r1", "-r1", "-1a", "-", "-1_p", "-1_", "-1A", "-1.", "-01", "-1_alpha1-r01", "-r", "-1-r", "-1_p1_p", "-1.2.3", "-9f"]
_STRUCT = ("drop_version", "drop_op", "add_op", "dup_slot", "dup_use", "swap_slot_use", "pkg_tail", "newline", "bang",
           "use_edit", "slot_edit", "slot_struct", "slot_struct", "repo_edit", "star", "rev_edit", "space")
_USE_EDITS = ["{},", ",{}", "{},,b", "!{}", "-{}", "{}?", "{}=", "{}(+)", "{}(-)", "{}()", "{}(+)(+)", "--{}", "!-{}?", "{}?=", "", "-",
              "!", "{}(+", "(+)", "{}(@)", "@{}", "{}(+-)", "-{}(+)?", "_{}", "+{}", "{}.x", "!!{}?", "{}??", "{}=?", "-(+)"]
_SLOT_EDITS = [":", ":-1", ":.1", ":+1", ":_1", ":1/", ":/1", ":1/2/3", ":1==", ":=1", ":*1", ":1*", ":**", ":1=/2", ":1,2", ":1@",
               "::", "::-r", "::r:0", ":::r", ":0:1", ":0::", "::r.x", ":0/+1", ":0/.1", ":0/-1", ":0/1=", ":0=", ":*", ":=", ":0/1", ":0::r",
               "::r", ":=::r", ":/=", ":*/1"]
_REPO_EDITS = ["::r.x", "::.r", "::r+", "::+r", "::r@", "::r/x", "::-r", "::r-", "::_", "::", "::r:", "::r::r", "::r,s", "::r x", "::R9_-", "::r*", "::0"]
_REV_EDITS = ["-r0", "-r1", "-r01", "-r", "-r1a", "-R1", "-r-1", "-r1-r1", "-r١", "-r²"]
_BAD_OPS = ("==", "=<", "<>", "~=", "=>", "><", "~~", "=~")


def _boundaries(s):
    """positions next to a delimiter (mutations there are the interesting ones)"""
    out = {0, len(s)}
    for i, ch in enumerate(s):
        if not (ch.isascii() and ch.isalnum()):
            out.update((i, i + 1))
    return sorted(out)


def _chclass(ch):
    if ch.isascii() and ch.isalnum():
        return "alnum"
    if ch in " \n\t":
        return "space"
    if not ch.isascii():
        return "nonascii"
    return ch


def _split_blocks(s):
    """(head, slot-ish block starting at the first ':', use block starting at the first '[') -- purely
    textual, used to aim structural mutations; no validity implied"""
    u = s.find("[")
    use = s[u:] if u != -1 else ""
    rest = s[:u] if u != -1 else s
    c = rest.find(":")
    slot = rest[c:] if c != -1 else ""
    head = rest[:c] if c != -1 else rest
    return head, slot, use


_SLOT_PIECES = ["0", "1", "2", "1.2", "a", "s_1", "+1", "-1", ".1", ""]


def slot_structure_edit(rnd, block: str) -> str:
    """structural edit of a slot block (':slot[/sub][=]' optionally followed by '::repo'; '' = none):
    extra '/part' (one or several), empty part, '/' at either end, operator moved into the middle or
    doubled, '*' attached to a name -- composed from the block's own pieces, not a fixed list"""
    i = block.find("::")
    dep, repo = (block, "") if i == -1 else (block[:i], block[i:])
    if not dep.startswith(":") or len(dep) < 2:
        dep = ":" + rnd.choice(["0", "0/1", "0=", "0/1=", "1.2/a"])
    body = dep[1:]
    op = ""
    if body.endswith("=") and len(body) > 1:
        body, op = body[:-1], "="
    pieces = body.split("/")
    k = rnd.randrange(9)
    if k == 0:      # one more part
        pieces.append(rnd.choice(_SLOT_PIECES[:6]))
    elif k == 1:    # several more parts
        pieces += [rnd.choice(_SLOT_PIECES[:6]) for _ in range(rnd.randint(2, 3))]
    elif k == 2:    # empty / badly starting part somewhere
        pieces.insert(rnd.randint(0, len(pieces)), rnd.choice(_SLOT_PIECES[6:]))
    elif k == 3:    # '/' at either end
        pieces = ([""] + pieces) if rnd.random() < 0.5 else (pieces + [""])
    elif k == 4:    # operator in the middle
        j = rnd.randrange(len(pieces))
        pieces[j] = pieces[j] + rnd.choice(["=", "*"])
        if rnd.random() < 0.5:
            op = ""
    elif k == 5:    # operator first / doubled / both operators
        op = rnd.choice(["==", "=*", "*", "*="]) if rnd.random() < 0.6 else op
        if rnd.random() < 0.5:
            pieces[0] = rnd.choice(["=", "*"]) + pieces[0]
    elif k == 6:    # split a part in two ('12' -> '1/2'): the edit a single inserted '/' makes
        j = rnd.randrange(len(pieces))
        if len(pieces[j]) >= 2:
            m = rnd.randint(1, len(pieces[j]) - 1)
            pieces[j:j + 1] = [pieces[j][:m], pieces[j][m:]]
        else:
            pieces.append(pieces[j])
    elif k == 7:    # drop a part / keep only the sub-slot
        if len(pieces) > 1:
            pieces.pop(rnd.randrange(len(pieces)))
        else:
            pieces = ["", pieces[0]]
    else:           # bare operator followed by a sub-slot
        pieces = [rnd.choice(["=", "*"])] + pieces[-1:]
        op = ""
    return ":" + "/".join(pieces) + op + repo


def mutate(rnd, base: str):
    """one edit of `base`; returns (text, kind)"""
    s = base
    if rnd.random() < 0.55 or not s:
        if s and rnd.random() < 0.67:
            pos = rnd.choice(_boundaries(s))
        else:
            pos = rnd.randint(0, len(s))
        ch = rnd.choice(ALPHABET)
        what = rnd.choice(["ins", "ins", "del", "rep"])
        if what == "ins" or not s:
            return s[:pos] + ch + s[pos:], "ins:" + _chclass(ch)
        pos = min(pos, len(s) - 1)
        if what == "del":
            return s[:pos] + s[pos + 1:], "del:" + _chclass(s[pos])
        return s[:pos] + ch + s[pos + 1:], "rep:" + _chclass(ch)
    kind = rnd.choice(_STRUCT)
    head, slot, use = _split_blocks(s)
    if kind == "drop_version":
        m = re.search(r"-[0-9][^:\[]*", head)
        if m:
            head = head[:m.start()] + head[m.end():]
    elif kind == "drop_op":
        head = re.sub(r"^(!{0,2})[<>=~]+", r"\1", head)
    elif kind == "add_op":
        m = re.match(r"(!{0,2})(.*)", head, re.S)
        head = m.group(1) + rnd.choice(OPS + _BAD_OPS) + m.group(2)
    elif kind == "dup_slot":
        slot = slot + (slot or rnd.choice([":0", ":=", "::r", ":0/1"]))
    elif kind == "dup_use":
        use = use + (use or "[a]")
    elif kind == "swap_slot_use":
        slot, use = use or "[a]", slot or ":0"
    elif kind == "pkg_tail":
        head = head + rnd.choice(_TAILS)
    elif kind == "newline":
        where = rnd.randrange(4)
        if where == 0:
            return s + "\n", "struct:newline"
        if where == 1:
            head = head + "\n"
        elif where == 2 and use:
            use = use[:-1] + "\n]"
        else:
            head = head.replace("/", "\n/", 1)
    elif kind == "bang":
        head = rnd.choice(["!", "!!", "!!!"]) + head.lstrip("!")
    elif kind == "use_edit":
        inner = use[1:-1] if use else "a"
        use = "[" + rnd.choice(_USE_EDITS).format(inner) + "]"
    elif kind == "slot_edit":
        slot = rnd.choice(_SLOT_EDITS)
    elif kind == "slot_struct":
        slot = slot_structure_edit(rnd, slot)
    elif kind == "repo_edit":
        i = slot.find("::")
        slot = (slot[:i] if i != -1 else slot) + rnd.choice(_REPO_EDITS)
    elif kind == "star":
        head = head + "*" if not head.endswith("*") else head[:-1] + "**"
    elif kind == "rev_edit":
        tail = rnd.choice(_REV_EDITS)
        star = "*" if head.endswith("*") else ""
        core = head[:-1] if star else head
        core = re.sub(r"-r[0-9]*\Z", "", core)
        head = core + tail + star
    elif kind == "space":
        head = rnd.choice([" " + head, head + " ", head.replace("/", "/ ", 1)])
    return head + slot + use, "struct:" + kind


def build_atom_case(rnd, p_mut=0.6):
    base = build_valid_atom(rnd)
    if rnd.random() >= p_mut:
        return {"s": base["s"], "parent": None, "mut": None, "fields": base["fields"], "features": base["features"], "parent_features": None}
    s, kind = mutate(rnd, base["s"])
    if rnd.random() < 0.17:
        s, kind2 = mutate(rnd, s)
        kind = kind + "+" + kind2
    return {"s": s, "parent": base["s"], "mut": kind, "fields": None, "features": None, "parent_features": base["features"]}


_FRAGS = ["cat/pkg", "=", ">=", "-1", "-r1", ":0", "/1", "::r", "[a]", "(+)", "!", "*", "c/p", "-1.2_p3", ",", "?", "~", "=c/p-1", ":=", ":*",
          "[-a,b?]", "\n", "c/", "/p", "<", "-r", "_p", "a", "1", "[", "]", "(-)", "::"]


def build_fuzz_text(rnd, max_size=24):
    """raw char-level fuzz input over ALPHABET, mixed with splices of atom fragments"""
    if rnd.random() < 0.34:
        return _text(rnd, ALPHABET, 0, max_size)
    parts = []
    for _ in range(rnd.randint(1, 7)):
        parts.append(rnd.choice(_FRAGS) if rnd.random() < 0.6 else _text(rnd, ALPHABET, 1, 3))
    return "".join(parts)


# ---- hypothesis strategies -------------------------------------------------------
def category():
    return _seeded(build_category)


def pkgname():
    return _seeded(build_pkgname)


def slotname():
    return _seeded(build_slotname)


def reponame():
    return _seeded(build_reponame)


def useflag():
    return _seeded(build_useflag)


def use_item(allow_default=True):
    return _seeded(build_use_item, allow_default)


def version():
    return _seeded(build_version)


def valid_atom(want=None):
    return _seeded(build_valid_atom, want)


def mutation(base: str):
    return _seeded(mutate, base)


def atom_case(p_mut=0.6):
    return _seeded(build_atom_case, p_mut)


def fuzz_text(max_size=24):
    return _seeded(build_fuzz_text, max_size)
