"""Temp profile / config-dir / fake-repo / domain builder shared by C11 and C13 (and anything else
that needs a real `pkgcore.ebuild.domain.domain` over fake packages).

A *spec* is plain JSON:

    {
      "profiles": [ {"make.defaults": "ARCH=...", "package.use": "...", ...}, ... ],   # node i has parent i-1
      "conf":     {"package.use": "text"  |  {"00": "text", "01": "text"}, ...},   # files / dirs in config_dir
      "settings": {"USE": "a -b", "ACCEPT_LICENSE": "..."},                        # make.conf-style domain kwargs
      "license_groups": "FREE GPL-2 @BSDS\nBSDS BSD MIT\n",
      "repo_masks": ["=cat/pa-2"],                                                 # repo.pkg_masks
      "pkgs": [ {"cpv": "cat/pa-1", "slot": "0", "keywords": "x86 ~amd64", "license": "|| ( MIT EULA )",
                 "iuse": ["a", "+b"]}, ... ]
    }

Layout on disk (under a fresh directory): `<d>/repo/profiles/p<i>/...`, `<d>/repo/profiles/license_groups`,
`<d>/conf/...`, `<d>/root/`.  The fake repo is a `SimpleTree` of `FakePkg`s with `.location`, `.supported`,
`.licenses` (a real `repo_objs.Licenses`) and `.pkg_masks`; it doubles as the domain's single source repo so that
`domain._default_licenses_manager` can be built.

Environment variables USE / FEATURES are removed from os.environ (domain.use / domain.features read them).
"""
import os
from types import SimpleNamespace

DEFAULT_EAPI = "8"


def _write(path, text):
    os.makedirs(os.path.dirname(path), exist_ok=True)
    with open(path, "w") as f:
        f.write(text)


def write_profiles(base, nodes, eapi=DEFAULT_EAPI):
    """nodes: list of {filename: text}; node i inherits node i-1. returns name of the leaf profile"""
    for i, files in enumerate(nodes):
        d = os.path.join(base, f"p{i}")
        os.makedirs(d, exist_ok=True)
        if "eapi" not in files:
            _write(os.path.join(d, "eapi"), eapi + "\n")
        if i:
            _write(os.path.join(d, "parent"), f"../p{i - 1}\n")
        for name, text in files.items():
            _write(os.path.join(d, name), text)
    return f"p{len(nodes) - 1}"


def write_conf(confdir, conf):
    os.makedirs(confdir, exist_ok=True)
    for name, val in conf.items():
        if isinstance(val, dict):
            for sub, text in val.items():
                _write(os.path.join(confdir, name, sub), text)
        else:
            _write(os.path.join(confdir, name), val)


class _Ref:
    """stand-in for a lazy config reference to a repo"""

    name = "fake"

    def __init__(self, tree):
        self._tree = tree

    def instantiate(self):
        return self._tree


class Built(SimpleNamespace):
    pass


def build(dirpath, spec):
    """materialise `spec` under dirpath; returns Built(domain, tree, pkgs=[FakePkg...], profile)"""
    from pkgcore.ebuild import domain as domain_mod
    from pkgcore.ebuild import profiles, repo_objs
    from pkgcore.ebuild.atom import atom
    from pkgcore.repository.util import SimpleTree
    from pkgcore.test.misc import FakePkg

    os.environ.pop("USE", None)
    os.environ.pop("FEATURES", None)

    repo_loc = os.path.join(dirpath, "repo")
    prof_base = os.path.join(repo_loc, "profiles")
    os.makedirs(prof_base, exist_ok=True)
    leaf = write_profiles(prof_base, spec.get("profiles") or [{}])
    if spec.get("license_groups") is not None:
        _write(os.path.join(prof_base, "license_groups"), spec["license_groups"])
    confdir = os.path.join(dirpath, "conf")
    write_conf(confdir, spec.get("conf") or {})
    root = os.path.join(dirpath, "root")
    os.makedirs(root, exist_ok=True)

    cpv_dict = {}
    objs = {}
    tree = SimpleTree(cpv_dict, repo_id=spec.get("repo_id", "fake"))
    tree.location = repo_loc
    tree.supported = True
    tree.licenses = repo_objs.Licenses(SimpleNamespace(location=repo_loc))
    tree.pkg_masks = frozenset(atom(x) for x in spec.get("repo_masks", ()))
    pkgs = []
    for p in spec.get("pkgs", ()):
        data = {"KEYWORDS": p.get("keywords", ""), "LICENSE": p.get("license", "")}
        kw = {}
        if p.get("iuse") is not None:
            kw["iuse"] = tuple(p["iuse"])
            data["IUSE"] = " ".join(p["iuse"])
        pkg = FakePkg(p["cpv"], data=data, eapi=p.get("eapi", "8"), repo=tree, slot=p.get("slot", "0"), **kw)
        cpv_dict.setdefault(pkg.category, {}).setdefault(pkg.package, []).append(pkg.fullver)
        objs[(pkg.category, pkg.package, pkg.fullver)] = pkg
        pkgs.append(pkg)
    tree.package_class = lambda c, p, v: objs[(c, p, v)]

    profile = profiles.OnDiskProfile(prof_base, leaf)
    dom = domain_mod.domain(profile, [_Ref(tree)], [], root=root, config_dir=confdir, **(spec.get("settings") or {}))
    return Built(domain=dom, tree=tree, pkgs=pkgs, profile=profile, dir=dirpath)


class Tape:
    """Deterministic choice tape decoded from ONE big integer drawn by hypothesis
    (`tape_strategy()`), so that a structured case costs a single hypothesis draw.  All randomness
    still comes from hypothesis; generators are plain python: `t.take(k)` -> 0..k-1."""

    def __init__(self, n):
        self.n = n

    def take(self, k):
        self.n, r = divmod(self.n, k)
        return r

    def chance(self, num, den):
        return self.take(den) < num

    def pick(self, seq):
        return seq[self.take(len(seq))]

    def subset(self, pool, mn, mx):
        """unique elements of pool, between mn and mx of them, order as drawn"""
        want = mn + self.take(mx - mn + 1)
        out = []
        for _ in range(want):
            x = self.pick(pool)
            if x not in out:
                out.append(x)
        if len(out) < mn:
            out = list(pool[:mn])
        return out


def tape_strategy(bits=2048):
    from hypothesis import strategies as st

    return st.integers(min_value=0, max_value=(1 << bits) - 1).map(Tape)


LICENSE_GROUP_NAMES = ["FREE", "L1", "L2", "L3", "EULAS", "ALL"]


def gen_license_group_defs(t, lic):
    """license_groups definitions as [[name, [members...]], ...] in LISTING order, plus class tags.

    FREE heads a reference chain FREE -> @L1 -> @L2 -> @L3 of generated depth 0..3 (every level may add its
    own licenses); EULAS is a flat sibling, ALL an optional nested sibling (@EULAS and/or @<innermost>), unused
    chain names may appear as flat siblings.  The listing order is a generated dimension: outer-first (the
    layout of Gentoo's license_groups), inner-first or shuffled."""
    depth = t.pick([0, 1, 2, 2, 2, 3, 3])
    chain = ["FREE", "L1", "L2", "L3"][: depth + 1]
    defs = {}
    for i, name in enumerate(chain):
        if i < depth:
            defs[name] = ["@" + chain[i + 1]] + t.subset(lic, 0, 2)
            if t.take(2):
                defs[name].reverse()
        else:
            defs[name] = t.subset(lic, 1, 3)
    for name in ["L1", "L2", "L3"][depth:]:
        if t.take(3) == 0:
            defs[name] = t.subset(lic, 1, 2)
    defs["EULAS"] = t.subset(lic[-2:], 1, 2)
    tags = []
    if t.take(2):
        members = ["@EULAS"]
        if t.take(2):
            members.append("@" + chain[-1])
        if t.take(2):
            members.reverse()
        defs["ALL"] = members + t.subset(lic, 0, 1)
        tags.append("license_group_sibling_nested")
    rest = [n for n in defs if n not in chain]
    mode = t.take(3)
    if mode == 0:
        order = chain + rest
    elif mode == 1:
        order = rest + chain[::-1]
    else:
        order = list(defs)
        for i in range(len(order) - 1, 0, -1):
            j = t.take(i + 1)
            order[i], order[j] = order[j], order[i]
    pos = [order.index(n) for n in chain]
    if depth >= 1:
        if pos == sorted(pos):
            layout = "outer_first"
        elif pos == sorted(pos, reverse=True):
            layout = "inner_first"
        else:
            layout = "mixed"
        tags.append(f"license_group_depth{'>=2' if depth >= 2 else '=1'}_{layout}")
    else:
        tags.append("license_group_flat")
    return [[n, defs[n]] for n in order], tags
