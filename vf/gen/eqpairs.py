"""Generators for C02 / C07: atoms and versioned CPVs as *field dicts* (so that the harness knows, without asking
pkgcore, which attributes two objects differ in), equivalent-spelling variants, one-attribute mutations, and a
bounded grid of atoms whose neighbours differ in exactly one attribute.

An atom is described by a JSON dict:
  {"blk": ""|"!"|"!!", "op": ""|"<"|"<="|"="|">="|">"|"~"|"=*", "cat": str, "pkg": str,
   "ver": str|None, "rev": str|None, "slot": str|None, "sub": str|None, "sop": None|"="|"*",
   "repo": str|None, "use": [tokens]|None, "nv": bool}
rendered by `render_atom` into the text handed to pkgcore.ebuild.atom.atom (default EAPI: latest PMS + repo ids).
"""
import itertools

from hypothesis import strategies as st

from ..ref import pms_version as R
from . import versions as V

# names include prefixes of one another followed by every separator PMS allows ('+' '-' '.' '_' and digits):
# "cat/pkg" compared as one string orders them differently from (category, package)
CATS = ("c", "dev-a", "c1", "dev", "dev-libs", "dev+x", "dev.y", "dev_z")
PKGS = ("p", "pkg", "p-q", "p1", "p+", "p_q", "p-q-r")
SLOTS = ("0", "1", "2.1", "a_b")
REPOS = ("gentoo", "r", "over-lay")
FLAGS = ("a", "b", "c", "foo")
OPS = ("", "<", "<=", "=", ">=", ">", "~", "=*")
FIELDS = ("blk", "op", "cat", "pkg", "ver", "rev", "slot", "sub", "sop", "repo", "use", "nv")


def fullver(ver, rev):
    return ver if rev is None else f"{ver}-r{rev}"


def render_atom(f) -> str:
    s = f["blk"]
    op = f["op"]
    key = f"{f['cat']}/{f['pkg']}"
    if op == "":
        s += key
    elif op == "=*":
        s += f"={key}-{fullver(f['ver'], f['rev'])}*"
    else:
        s += f"{op}{key}-{fullver(f['ver'], f['rev'])}"
    if f["slot"] is not None:
        s += ":" + f["slot"]
        if f["sub"] is not None:
            s += "/" + f["sub"]
        if f["sop"] == "=":
            s += "="
    elif f["sop"] is not None:
        s += ":" + f["sop"]
    if f["repo"] is not None:
        s += "::" + f["repo"]
    if f["use"] is not None:
        s += "[" + ",".join(f["use"]) + "]"
    return s


def normalise(f):
    """make a field dict self-consistent (after a mutation)"""
    f = dict(f)
    if f["op"] == "":
        f["ver"] = f["rev"] = None
        f["nv"] = False
    else:
        if f["ver"] is None:
            f["ver"] = "1"
        if f["op"] == "~":
            f["rev"] = None
    if f["slot"] is None:
        f["sub"] = None
    if f["sop"] == "*":
        f["slot"] = f["sub"] = None
    if f["use"] is not None and not f["use"]:
        f["use"] = None
    return f


def diff_fields(a, b):
    """names of the attributes in which two field dicts differ; refined labels:
    use-order (same tokens, other order), blk-strength (! vs !!), verspell (PMS-equal version text)"""
    out = []
    for k in FIELDS:
        if a[k] == b[k]:
            continue
        if k == "use" and a[k] is not None and b[k] is not None and sorted(a[k]) == sorted(b[k]):
            out.append("use-order")
        elif k == "blk" and a[k] and b[k]:
            out.append("blk-strength")
        elif k in ("ver", "rev"):
            continue
        else:
            out.append(k)
    if (a["ver"], a["rev"]) != (b["ver"], b["rev"]):
        if a["ver"] is None or b["ver"] is None:
            out.append("ver")
        elif R.vcmp(a["ver"], a["rev"], b["ver"], b["rev"]) == 0:
            out.append("verspell")
        else:
            out.append("ver")
    return sorted(set(out))


def diff_label(d):
    if not d:
        return "same"
    if len(d) == 1:
        return d[0]
    return "multi"


# ---- hypothesis ------------------------------------------------------------------------------------------------
_default = st.sampled_from(["", "", "(+)", "(-)"])


@st.composite
def use_token(draw, flag):
    kind = draw(st.integers(0, 9))
    d = draw(_default)
    if kind <= 3:
        return flag + d
    if kind <= 6:
        return "-" + flag + d
    return {7: f"{flag}{d}?", 8: f"!{flag}{d}?", 9: draw(st.sampled_from([f"{flag}{d}=", f"!{flag}{d}="]))}[kind]


@st.composite
def use_deps(draw):
    if draw(st.integers(0, 2)) == 0:
        return None
    flags = draw(st.lists(st.sampled_from(FLAGS), min_size=1, max_size=3, unique=True))
    return [draw(use_token(fl)) for fl in flags]


@st.composite
def atom_fields(draw):
    op = draw(st.sampled_from(OPS + ("", "=", ">=")))
    f = {
        "blk": draw(st.sampled_from(["", "", "", "!", "!!"])),
        "op": op,
        "cat": draw(st.sampled_from(CATS + ("c",) * 6)),
        "pkg": draw(st.sampled_from(PKGS + ("p",) * 5)),
        "ver": None,
        "rev": None,
        "slot": None,
        "sub": None,
        "sop": None,
        "repo": draw(st.sampled_from([None, None, None] + list(REPOS))),
        "use": draw(use_deps()),
        "nv": False,
    }
    if op:
        f["ver"], f["rev"] = draw(V.version())
        f["nv"] = draw(st.integers(0, 7)) == 0
    sk = draw(st.integers(0, 9))
    if sk <= 3:
        pass
    elif sk <= 5:
        f["slot"] = draw(st.sampled_from(SLOTS))
    elif sk <= 7:
        f["slot"] = draw(st.sampled_from(SLOTS))
        f["sub"] = draw(st.sampled_from(SLOTS))
    elif sk == 8:
        f["sop"] = draw(st.sampled_from(["=", "*"]))
    if sk in (4, 6):
        f["sop"] = "="
    return normalise(f)


def _other(draw, pool, cur):
    return draw(st.sampled_from([x for x in pool if x != cur]))


MUTATIONS = (
    "copy", "use-order", "blk-strength", "blk", "verspell", "ver", "op", "slot", "sub", "sop", "repo",
    "use-add", "use-drop", "use-flip", "use-default", "nv", "cat", "pkg",
)


@st.composite
def atom_variant(draw, f):
    """a second atom derived from `f`: an equivalent spelling or a change in (mostly) one attribute"""
    g = dict(f)
    if g["use"] is not None:
        g["use"] = list(g["use"])
    kind = draw(st.sampled_from(MUTATIONS))
    if kind == "use-order":
        if g["use"] is None or len(g["use"]) < 2:
            g["use"] = [draw(use_token("a")), draw(use_token("b"))]
            f = dict(f, use=list(g["use"]))  # caller gets the modified base back
        g["use"] = list(reversed(g["use"])) if len(g["use"]) == 2 else draw(st.permutations(g["use"]))
    elif kind == "blk-strength":
        if not f["blk"]:
            f = dict(f, blk="!")
        g["blk"] = "!!" if f["blk"] == "!" else "!"
    elif kind == "blk":
        g["blk"] = _other(draw, ["", "!", "!!"], f["blk"])
    elif kind in ("verspell", "ver"):
        if not f["op"]:
            f = dict(f, op="=", ver="1.0", rev=None)
            g = dict(g, op="=")
        if kind == "verspell":
            g["ver"], g["rev"] = draw(equal_spelling((f["ver"], f["rev"])))
        else:
            g["ver"], g["rev"] = draw(V.mutated((f["ver"], f["rev"])))
    elif kind == "op":
        g["op"] = _other(draw, OPS, f["op"])
    elif kind == "slot":
        g["slot"] = _other(draw, [None] + list(SLOTS), f["slot"])
        if g["sop"] == "*":
            g["sop"] = None
    elif kind == "sub":
        if f["slot"] is None:
            f = dict(f, slot="0", sop=None if f["sop"] == "*" else f["sop"])
            g = dict(g, slot="0", sop=f["sop"])
        g["sub"] = _other(draw, [None] + list(SLOTS), f["sub"])
    elif kind == "sop":
        g["sop"] = _other(draw, [None, "=", "*"] if f["slot"] is None else [None, "="], f["sop"])
    elif kind == "repo":
        g["repo"] = _other(draw, [None] + list(REPOS), f["repo"])
    elif kind == "use-add":
        have = {t.strip("!-?=").split("(")[0] for t in (g["use"] or [])}
        free = [x for x in FLAGS if x not in have]
        if free:
            g["use"] = (g["use"] or []) + [draw(use_token(draw(st.sampled_from(free))))]
    elif kind == "use-drop":
        if g["use"]:
            g["use"] = g["use"][:-1]
    elif kind == "use-flip":
        if not g["use"]:
            f = dict(f, use=["a"])
            g["use"] = ["a"]
        t = g["use"][0]
        if t[-1] in "?=":
            g["use"][0] = t[1:] if t[0] == "!" else "!" + t
        else:
            g["use"][0] = t[1:] if t[0] == "-" else "-" + t
    elif kind == "use-default":
        if not g["use"]:
            f = dict(f, use=["a"])
            g["use"] = ["a"]
        t = g["use"][0]
        tail = t[-1] if t[-1] in "?=" else ""
        core = t[: len(t) - len(tail)]
        if core.endswith(")"):
            new = draw(st.sampled_from([core[:-3], core[:-3] + ("(-)" if core.endswith("(+)") else "(+)")]))
        else:
            new = core + draw(st.sampled_from(["(+)", "(-)"]))
        g["use"][0] = new + tail
    elif kind == "nv":
        if not f["op"]:
            f = dict(f, op="=", ver="1", rev=None)
            g = dict(g, op="=", ver="1", rev=None)
        g["nv"] = not f["nv"]
    elif kind == "cat":
        g["cat"] = _other(draw, CATS, f["cat"])
    elif kind == "pkg":
        g["pkg"] = _other(draw, PKGS, f["pkg"])
    return normalise(f), normalise(g)


def _num_spellings(n, omitted_ok=False):
    """other spellings of the same integer: leading zeros; for 0 where the number may be omitted also ''"""
    v = int(n) if n else 0
    out = {str(v), "0" + str(v), "00" + str(v)}
    if omitted_ok and v == 0:
        out |= {"", "0", "00"}
    out.discard(n)
    return sorted(out)


def split_version(ver):
    import re

    m = re.match(r"^(\d+(?:\.\d+)*)([a-z]?)((?:_[a-z]+\d*)*)$", ver)
    nums = m.group(1).split(".")
    sufs = [list(re.match(r"_([a-z]+)(\d*)", x).groups()) for x in re.findall(r"_[a-z]+\d*", m.group(3))]
    return nums, m.group(2), sufs


def join_version(nums, letter, sufs):
    return ".".join(nums) + letter + "".join(f"_{t}{n}" for t, n in sufs)


def spelling_edits(ver, rev):
    """all single-position respellings of (ver, rev) that PMS considers the same version: first component, every later
    component with a leading zero (trailing zeros), every suffix number (leading zeros, omitted vs 0), the revision"""
    nums, letter, sufs = split_version(ver)
    out = []
    for alt in _num_spellings(nums[0]):
        out.append((join_version([alt] + nums[1:], letter, sufs), rev))
    for i in range(1, len(nums)):
        if nums[i].startswith("0"):
            for alt in {nums[i] + "0", nums[i] + "00", nums[i].rstrip("0") or "0"} - {nums[i]}:
                out.append((join_version(nums[:i] + [alt] + nums[i + 1:], letter, sufs), rev))
    for i, (t, n) in enumerate(sufs):
        for alt in _num_spellings(n, omitted_ok=True):
            out.append((join_version(nums, letter, sufs[:i] + [[t, alt]] + sufs[i + 1:]), rev))
    for alt in _num_spellings(rev or "", omitted_ok=True):
        out.append((ver, alt if alt != "" else None))
    return sorted(set(out), key=repr)


@st.composite
def equal_spelling(draw, base):
    """(ver, rev) that PMS considers equal to `base` but spelled differently (one or two positions respelled)"""
    ver, rev = base
    out = draw(st.sampled_from(spelling_edits(ver, rev)))
    if draw(st.integers(0, 3)) == 0:
        out = draw(st.sampled_from(spelling_edits(*out)))
    assert R.vcmp(ver, rev, out[0], out[1]) == 0, (base, out)
    return out


@st.composite
def atom_pair(draw):
    a = draw(atom_fields())
    k = draw(st.integers(0, 9))
    if k == 0:
        return a, draw(atom_fields())
    a, b = draw(atom_variant(a))
    if k == 1:  # a second step: two attributes differ / spelling + attribute
        b0 = b
        _, b = draw(atom_variant(b0))
    return a, b


@st.composite
def atom_list(draw):
    a = draw(atom_fields())
    out = [a]
    n = draw(st.integers(2, 5))
    for _ in range(n):
        src = draw(st.sampled_from(out))
        _, b = draw(atom_variant(src))
        out.append(b)
    return out


@st.composite
def cpv_fields(draw):
    ver, rev = draw(V.version())
    return {"cat": draw(st.sampled_from(CATS + ("c", "c"))), "pkg": draw(st.sampled_from(PKGS + ("p", "p"))), "ver": ver, "rev": rev}


@st.composite
def cpv_variant(draw, a):
    b = dict(a)
    k = draw(st.integers(0, 9))
    if k <= 3:
        b["ver"], b["rev"] = draw(equal_spelling((a["ver"], a["rev"])))
    elif k <= 6:
        b["ver"], b["rev"] = draw(V.mutated((a["ver"], a["rev"])))
    elif k == 7:
        b["cat"] = _other(draw, CATS, a["cat"])
    elif k == 8:
        b["pkg"] = _other(draw, PKGS, a["pkg"])
    return b


@st.composite
def cpv_pair(draw):
    a = draw(cpv_fields())
    if draw(st.integers(0, 9)) == 0:
        return a, draw(cpv_fields())
    return a, draw(cpv_variant(a))


@st.composite
def cpv_list(draw):
    a = draw(cpv_fields())
    out = [a]
    for _ in range(draw(st.integers(2, 5))):
        out.append(draw(cpv_variant(draw(st.sampled_from(out)))))
    return out


def render_cpv(f) -> str:
    if f.get("ver") is None:
        return f"{f['cat']}/{f['pkg']}"
    return f"{f['cat']}/{f['pkg']}-{fullver(f['ver'], f['rev'])}"


def cpv_diff(a, b):
    out = [k for k in ("cat", "pkg") if a[k] != b[k]]
    if (a["ver"], a["rev"]) != (b["ver"], b["rev"]):
        if a["ver"] is None or b["ver"] is None:
            out.append("ver")
        else:
            out.append("verspell" if R.vcmp(a["ver"], a["rev"], b["ver"], b["rev"]) == 0 else "ver")
    return sorted(out)


# ---- bounded grid ------------------------------------------------------------------------------------------------
GRID_DIMS = {
    "blk": ["", "!", "!!"],
    "verop": [("", None, None), ("=", "1.0", None), ("=", "1.00", None), ("=", "1.0", "0"), ("=", "01.0", None),
              (">=", "1_alpha", None), (">=", "1_alpha0", None), ("~", "1.0", None), ("=*", "1.0", None),
              ("<", "2", "1"), ("<", "2", "01"), ("<", "2", "2")],
    "slotspec": [(None, None, None), ("0", None, None), ("0", "1", None), ("0", "2", None), ("0", None, "="),
                 ("0", "1", "="), (None, None, "*"), (None, None, "="), ("1", None, None)],
    "repo": [None, "r", "s"],
    "use": [None, ["a"], ["a", "b"], ["b", "a"], ["-a"], ["a(+)"], ["a(-)"], ["a?"], ["a", "-b"], ["-b", "a"], ["!a?", "b="], ["b=", "!a?"]],
    "nv": [False, True],
}
GRID_ORDER = ("blk", "verop", "slotspec", "repo", "use", "nv")


def grid_fields(idx):
    blk, (op, ver, rev), (slot, sub, sop), repo, use, nv = (GRID_DIMS[k][i] for k, i in zip(GRID_ORDER, idx))
    return normalise({"blk": blk, "op": op, "cat": "c", "pkg": "p", "ver": ver, "rev": rev, "slot": slot, "sub": sub,
                      "sop": sop, "repo": repo, "use": use, "nv": nv})


def grid_size():
    n = 1
    for k in GRID_ORDER:
        n *= len(GRID_DIMS[k])
    return n


def grid_indices():
    return itertools.product(*(range(len(GRID_DIMS[k])) for k in GRID_ORDER))


def grid_neighbours(idx):
    """all grid points differing from idx in exactly one dimension (ordered pairs are produced by visiting every idx)"""
    for d, k in enumerate(GRID_ORDER):
        for j in range(len(GRID_DIMS[k])):
            if j != idx[d]:
                yield idx[:d] + (j,) + idx[d + 1:]


# ---- bounded universes: numeric spellings, related names ---------------------------------------------------------
SPELL_BASES = [(n + l + sf, r)
               for n in ("1.2", "1.02", "0.1", "10")
               for l in ("", "a")
               for sf in ("", "_p", "_p0", "_p1", "_rc10", "_beta2_p20200101", "_alpha_pre7")
               for r in (None, "1", "10")]


def spelling_family(base, depth=1):
    """base plus its respellings with at most `depth` positions changed (all PMS-equal)"""
    fam = {base}
    frontier = {base}
    for _ in range(depth):
        nxt = set()
        for v in frontier:
            nxt.update(spelling_edits(*v))
        frontier = nxt - fam
        fam |= nxt
    return sorted(fam, key=repr)


NAME_CATS = ("dev", "dev-libs", "dev+x", "dev.y", "dev_z", "dev1", "de", "x11", "x11-libs", "X11")
NAME_PKGS = ("foo", "foo-bar", "foo+", "foo_x", "foo1", "fo", "foo-bar-baz", "Foo")
