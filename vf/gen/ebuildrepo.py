"""Scratch ebuild repositories + tiny abstract ebuild/eclass programs (used by C48 and C49).

Two layers:

1. repository plumbing (no randomness)
     mkrepo(path, repo_id, masters=())        skeleton: profiles/repo_name, metadata/layout.conf, eclass/
     write_file(path, text, mtime=None)       write + optional explicit integer mtime
     open_repo(overlay, master=None, cache=None, flat_location=None, readonly=False)
                                             fresh pkgcore UnconfiguredTree for `overlay` (stacked on `master`
                                             exactly like pkgcore.ebuild.repository._sort_eclasses stacks it:
                                             overlay eclasses shadow the master's); cache: None | "md5" | "flat"
     shutdown_daemons()                       pkgcore.ebuild.processor.shutdown_all_processors(), never raises

2. abstract programs (JSON) and their bash rendering
     program = {"eapi": "7", "ebuild": [stmt...], "eclasses": {name: [stmt...]}}
     stmt    = ["set", VAR, [tok...]]            VAR="t1 t2"
               ["add", VAR, [tok...]]            VAR+=" t1 t2"
               ["unset", VAR]                    unset VAR
               ["copy", DST, SRC, append]        DST="${SRC}"  /  DST+=" ${SRC}"
               ["inherit", [eclass...]]          inherit a b
               ["phase", "src_compile"]          src_compile() { :; }
               ["export", ["src_compile", ...], order]  (eclass X only) X_src_compile() { :; } and EXPORT_FUNCTIONS src_compile;
                                                 order = after (default: definitions first) | before | between | never
     render(stmts, eclass=None) -> bash text;  render_ebuild(program) -> text with the EAPI line first
     programs(...)                             hypothesis strategy for whole programs (acyclic inherit graph by
                                               construction: eclass e<i> may only inherit e<j>, j>i)

Token values are chosen so that provenance is visible in a failing case (`cat/e1s2a` = eclass e1, statement 2).
No shell metacharacters other than those of the dependency grammar (`( ) || ? ! = > < / - + ~ :`), all inside double
quotes, so rendering needs no escaping and failglob/word-splitting cannot interfere.
"""
from __future__ import annotations

import os
from os.path import join as pjoin

# --------------------------------------------------------------------------- repository plumbing


def mkrepo(path, repo_id, masters=()):
    os.makedirs(pjoin(path, "profiles"), exist_ok=True)
    os.makedirs(pjoin(path, "metadata"), exist_ok=True)
    os.makedirs(pjoin(path, "eclass"), exist_ok=True)
    with open(pjoin(path, "profiles", "repo_name"), "w") as f:
        f.write(repo_id + "\n")
    with open(pjoin(path, "metadata", "layout.conf"), "w") as f:
        f.write(f"masters = {' '.join(masters)}\ncache-formats =\nthin-manifests = true\n")
    return path


def write_file(path, text, mtime=None):
    os.makedirs(os.path.dirname(path), exist_ok=True)
    with open(path, "w") as f:
        f.write(text)
    if mtime is not None:
        os.utime(path, (mtime, mtime))


def ebuild_path(repo, cat, pkg, ver="1"):
    return pjoin(repo, cat, pkg, f"{pkg}-{ver}.ebuild")


def eclass_path(repo, name):
    return pjoin(repo, "eclass", name + ".eclass")


def open_repo(overlay, master=None, cache=None, flat_location=None, readonly=False):
    """fresh repo object graph (nothing shared with earlier calls); readonly: the cache is opened read-only (what
    pkgcore configures for users who cannot write to the cache location)."""
    from pkgcore.cache import flat_hash
    from pkgcore.ebuild import eclass_cache, repo_objs, repository

    masters = ()
    if master is not None:
        ec = eclass_cache.StackedCaches(
            [eclass_cache.cache(pjoin(overlay, "eclass"), location=overlay),
             eclass_cache.cache(pjoin(master, "eclass"), location=overlay)],
            location=overlay, eclassdir=overlay)
        masters = (repository.UnconfiguredTree(master, repo_config=repo_objs.RepoConfig(location=master)),)
    else:
        ec = eclass_cache.cache(pjoin(overlay, "eclass"), location=overlay)
    if cache is None:
        caches = ()
    elif cache == "md5":
        caches = (flat_hash.md5_cache(overlay, readonly=readonly),)
    elif cache == "flat":
        caches = (flat_hash.database(flat_location, readonly=readonly),)
    else:
        raise ValueError(cache)
    return repository.UnconfiguredTree(overlay, eclass_cache=ec, masters=masters, cache=caches,
                                       repo_config=repo_objs.RepoConfig(location=overlay))


def shutdown_daemons():
    try:
        from pkgcore.ebuild import processor

        processor.shutdown_all_processors()
    except Exception:  # noqa: BLE001
        pass


# --------------------------------------------------------------------------- abstract programs

ACCUM_BASE = ("IUSE", "REQUIRED_USE", "DEPEND", "RDEPEND", "PDEPEND", "BDEPEND", "IDEPEND")
ACCUM_EAPI8 = ("PROPERTIES", "RESTRICT")
PLAIN_VARS = ("DESCRIPTION", "HOMEPAGE", "LICENSE", "KEYWORDS", "SLOT", "SRC_URI")
ALL_VARS = ACCUM_BASE + ACCUM_EAPI8 + PLAIN_VARS
DEP_VARS = ("DEPEND", "RDEPEND", "PDEPEND", "BDEPEND", "IDEPEND")

# every phase function name of any EAPI (the generator uses all of them in every EAPI on purpose)
ALL_PHASE_FUNCS = (
    "pkg_pretend", "pkg_setup", "src_unpack", "src_prepare", "src_configure", "src_compile", "src_test",
    "src_install", "pkg_preinst", "pkg_postinst", "pkg_prerm", "pkg_postrm", "pkg_config", "pkg_info",
    "pkg_nofetch",
)
EAPIS = ("0", "1", "2", "3", "4", "5", "6", "7", "8")


def render(stmts, eclass=None):
    out = []
    for s in stmts:
        op = s[0]
        if op == "set":
            out.append(f'{s[1]}="{" ".join(s[2])}"')
        elif op == "add":
            out.append(f'{s[1]}+=" {" ".join(s[2])}"')
        elif op == "unset":
            out.append(f"unset {s[1]}")
        elif op == "copy":
            if s[3]:
                out.append(f'{s[1]}+=" ${{{s[2]}}}"')
            else:
                out.append(f'{s[1]}="${{{s[2]}}}"')
        elif op == "inherit":
            out.append("inherit " + " ".join(s[1]))
        elif op == "phase":
            out.append(f"{s[1]}() {{ :; }}")
        elif op == "export":
            if eclass is None:
                raise ValueError("export statement outside an eclass")
            order = s[2] if len(s) > 2 else "after"
            defs = [f"{eclass}_{ph}() {{ :; }}" for ph in s[1]]
            call = "EXPORT_FUNCTIONS " + " ".join(s[1])
            if order == "after":          # definitions, then the call
                out += defs + [call]
            elif order == "before":       # the usual Gentoo layout: call near the top, definitions below
                out += [call] + defs
            elif order == "between":
                out += defs[:1] + [call] + defs[1:]
            elif order == "never":        # exported but never defined (the stub exists all the same)
                out.append(call)
            else:
                raise ValueError(f"unknown export order {order!r}")
        else:
            raise ValueError(f"unknown statement {s!r}")
    return "\n".join(out) + "\n"


def render_ebuild(program):
    return f"EAPI={program['eapi']}\n" + render(program["ebuild"])


def render_eclass(program, name):
    return f"# {name}.eclass\n" + render(program["eclasses"][name], eclass=name)


def materialize(program, repo, cat="cat", pkg="pkg", ver="1"):
    """write the program into an (existing, see mkrepo) single repository; returns the ebuild path"""
    for name in program["eclasses"]:
        write_file(eclass_path(repo, name), render_eclass(program, name))
    p = ebuild_path(repo, cat, pkg, ver)
    write_file(p, render_ebuild(program))
    return p


# ---- hypothesis strategies -------------------------------------------------------------------

def _tokens_for(var, tag):
    """strategy: list of tokens (a syntactically plausible value) for `var`; `tag` makes tokens unique per site"""
    from hypothesis import strategies as st

    def flag(i):
        return f"{tag}f{i}"

    idx = st.integers(0, 2)
    if var == "IUSE":
        one = st.builds(lambda i, p: [p + flag(i)], idx, st.sampled_from(["", "", "+", "-"]))
    elif var == "REQUIRED_USE":
        one = st.one_of(
            st.builds(lambda i: [flag(i)], idx),
            st.builds(lambda i, j: ["||", "(", flag(i), "g" + flag(j), ")"], idx, idx),
            st.builds(lambda i, j: [flag(i) + "?", "(", "!g" + flag(j), ")"], idx, idx),
            st.builds(lambda i, j: ["^^", "(", flag(i), "g" + flag(j), ")"], idx, idx),
        )
    elif var in DEP_VARS:
        one = st.one_of(
            st.builds(lambda i: [f"cat/{tag}{i}"], idx),
            st.builds(lambda i: [f">=cat/{tag}{i}-1.2"], idx),
            st.builds(lambda i: [f"!cat/{tag}{i}:0"], idx),
            st.builds(lambda i, j: [flag(i) + "?", "(", f"cat/{tag}{j}", ")"], idx, idx),
            st.builds(lambda i, j: ["||", "(", f"cat/{tag}{i}", f"dog/{tag}{j}", ")"], idx, idx),
        )
    elif var in ("RESTRICT", "PROPERTIES"):
        words = ["test", "mirror", "strip", "fetch"] if var == "RESTRICT" else ["live", "interactive", "test_network"]
        one = st.one_of(
            st.builds(lambda w: [w], st.sampled_from(words)),
            st.builds(lambda i: [f"{tag}r{i}"], idx),
            st.builds(lambda i, w: ["!" + flag(i) + "?", "(", w, ")"], idx, st.sampled_from(words)),
        )
    elif var == "KEYWORDS":
        one = st.builds(lambda p, a: [p + a], st.sampled_from(["", "~", "-"]), st.sampled_from(["amd64", "x86", "arm64"]))
    elif var == "SLOT":
        return st.builds(lambda i, s: [f"{i}{s}"], idx, st.sampled_from(["", "/2", "/" + tag]))
    elif var == "LICENSE":
        one = st.builds(lambda i: [f"L{tag}{i}"], idx)
    elif var == "SRC_URI":
        one = st.builds(lambda i: [f"https://example.org/{tag}{i}.tar.gz"], idx)
    elif var == "HOMEPAGE":
        one = st.builds(lambda i: [f"https://example.org/{tag}{i}/"], idx)
    elif var == "DESCRIPTION":
        one = st.builds(lambda i: ["desc", f"{tag}{i}"], idx)
    else:
        raise ValueError(var)
    return st.lists(one, min_size=0, max_size=2).map(lambda ll: [t for l in ll for t in l])


def _stmt(tag, inheritable, in_eclass):
    """strategy for ONE statement at site `tag`"""
    from hypothesis import strategies as st

    accum = st.sampled_from(ACCUM_BASE + ACCUM_EAPI8)
    # accumulating variables are the point of the property: weight them up
    var = st.one_of(accum, accum, accum, st.sampled_from(PLAIN_VARS))
    alts = [
        var.flatmap(lambda v: _tokens_for(v, tag).map(lambda t: ["set", v, t])),
        var.flatmap(lambda v: _tokens_for(v, tag).map(lambda t: ["set", v, t])),
        var.flatmap(lambda v: _tokens_for(v, tag).filter(bool).map(lambda t: ["add", v, t])),
        var.flatmap(lambda v: _tokens_for(v, tag).filter(bool).map(lambda t: ["add", v, t])),
        var.map(lambda v: ["unset", v]),
        accum.map(lambda v: ["set", v, []]),          # VAR="" : set but empty (differs from unset for RDEPEND, EAPI 0-3)
        st.builds(lambda d, s, a: ["copy", d, s, a], st.sampled_from(DEP_VARS), st.sampled_from(DEP_VARS), st.booleans()),
        st.sampled_from(ALL_PHASE_FUNCS).map(lambda p: ["phase", p]),
    ]
    if inheritable:
        inh = st.lists(st.sampled_from(inheritable), min_size=1, max_size=3).map(lambda l: ["inherit", l])
        alts += [inh, inh, inh]
    if in_eclass:
        exp = st.builds(lambda l, o: ["export", l, o],
                        st.lists(st.sampled_from(ALL_PHASE_FUNCS), min_size=1, max_size=2, unique=True),
                        st.sampled_from(["after", "before", "before", "between", "never"]))
        alts += [exp, exp]
    return st.one_of(*alts)


def _block(tag, inheritable, in_eclass, max_stmts):
    from hypothesis import strategies as st

    @st.composite
    def blk(draw):
        n = draw(st.integers(1 if in_eclass else 0, max_stmts))
        return [draw(_stmt(f"{tag}s{i}", inheritable, in_eclass)) for i in range(n)]

    return blk()


def programs(max_eclasses=4, max_stmts=6, eapis=EAPIS):
    from hypothesis import strategies as st

    @st.composite
    def prog(draw):
        eapi = draw(st.sampled_from(eapis))
        n = draw(st.sampled_from([0] + list(range(1, max_eclasses + 1)) * 5))
        names = [f"e{i}" for i in range(n)]
        eclasses = {}
        for i, name in enumerate(names):
            eclasses[name] = draw(_block(name, names[i + 1:], True, max_stmts))
        ebuild = draw(_block("eb", names, False, max_stmts + 2))
        # an ebuild that never inherits is legal but dull: usually make it inherit something
        if names and not any(s[0] == "inherit" for s in ebuild) and draw(st.integers(0, 19)) < 19:
            pos = draw(st.integers(0, len(ebuild)))
            ebuild.insert(pos, ["inherit", draw(st.lists(st.sampled_from(names), min_size=1, max_size=3))])
        return {"eapi": eapi, "ebuild": ebuild, "eclasses": eclasses}

    return prog()
