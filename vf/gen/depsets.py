"""Dependency-string grammar: hypothesis generators, an independent reference parser and an
independent propositional evaluator (used by C09 and C10).

JSON tree (what a generated string *means*; plain lists so it can be stored in replay files):

    node := ["leaf", token]              token text as written (SRC_URI rename: "uri -> name")
          | ["all", [node, ...]]         ( ... )
          | ["any", [node, ...]]         || ( ... )
          | ["xor", [node, ...]]         ^^ ( ... )      REQUIRED_USE only
          | ["amo", [node, ...]]         ?? ( ... )      REQUIRED_USE only
          | ["cond", "flag"|"!flag", [node, ...]]        flag? ( ... ) / !flag? ( ... )

A dependency string is a list of nodes (implicit all-of).  Nothing in this module imports pkgcore.

Reading of a tree under a flag set F (PMS 8.2 + the property statement):
  * a use-conditional whose condition is not met under F is not there at all;
  * a group all of whose members are gone is gone itself; at the top level / inside an all-of
    that is the same thing as "satisfied" (statement: "an any-of group emptied by conditionals
    counting as satisfied");
  * what is *ambiguous* is an emptied group that sits directly inside || / ^^ / ??: reading "B"
    (portage's use_reduce, pkgcore) drops it, reading "A" counts it as a satisfied member.
    `reduce_tree` returns both; callers treat points where A and B differ as don't-care.
"""
from hypothesis import strategies as st

GROUP_OPS = {"any": "||", "xor": "^^", "amo": "??"}
OPS_BY_FLAVOR = {
    "dep": {"||": "any"},
    "license": {"||": "any"},
    "restrict": {},
    "src_uri": {},
    "src_uri_df": {},
    "required_use": {"||": "any", "^^": "xor", "??": "amo"},
}
FLAVORS = tuple(OPS_BY_FLAVOR)
# flavors whose real parser call passes operators={} (no bare "( ... )" groups accepted by pkgcore)
NO_GROUPS = ("restrict", "src_uri", "src_uri_df")
RENAMES = ("src_uri", "src_uri_df")


# ---------------------------------------------------------------------------------------------
# reference parser (recursive structure via explicit stack; whitespace separated words, PMS 8.2)
# ---------------------------------------------------------------------------------------------
class RefSyntaxError(Exception):
    def __init__(self, reason, word=None):
        Exception.__init__(self, reason, word)
        self.reason = reason
        self.word = word


def ref_parse(s, flavor):
    """words -> list of nodes, or RefSyntaxError(reason) with reason in
    unbalanced | dangling | empty.  Any word that is not a parenthesis, an operator of the
    flavor or `...?` is a leaf (leaf spelling is the element class' business, not the grammar's)."""
    ops = OPS_BY_FLAVOR[flavor]
    renames = flavor in RENAMES
    words = s.split()
    stack = [("top", None, [])]
    i, n = 0, len(words)
    while i < n:
        w = words[i]
        i += 1
        if w == "(":
            stack.append(("all", None, []))
        elif w == ")":
            if len(stack) == 1:
                raise RefSyntaxError("unbalanced", w)
            kind, arg, ch = stack.pop()
            if not ch:
                raise RefSyntaxError("empty", w)
            stack[-1][2].append(["cond", arg, ch] if kind == "cond" else [kind, ch])
        elif w in ops or w.endswith("?"):
            if i >= n or words[i] != "(":
                raise RefSyntaxError("dangling", w)
            i += 1
            if w in ops:
                stack.append((ops[w], None, []))
            else:
                stack.append(("cond", w[:-1], []))
        elif renames and i < n and words[i] == "->":
            if i + 1 >= n or words[i + 1] in ("(", ")"):
                raise RefSyntaxError("dangling", "->")
            stack[-1][2].append(["leaf", f"{w} -> {words[i + 1]}"])
            i += 2
        else:
            stack[-1][2].append(["leaf", w])
    if len(stack) != 1:
        raise RefSyntaxError("unbalanced", "(")
    return stack[0][2]


def render_words(nodes):
    out = []
    for nd in nodes:
        k = nd[0]
        if k == "leaf":
            out.extend(nd[1].split())
        elif k == "cond":
            out.append(nd[1] + "?")
            out.append("(")
            out.extend(render_words(nd[2]))
            out.append(")")
        else:
            if k != "all":
                out.append(GROUP_OPS[k])
            out.append("(")
            out.extend(render_words(nd[1]))
            out.append(")")
    return out


def join_words(words, seps):
    """join with the separators of `seps` cycled (all are whitespace)"""
    if not words:
        return ""
    out = [words[0]]
    for i, w in enumerate(words[1:]):
        out.append(seps[i % len(seps)])
        out.append(w)
    return "".join(out)


# ---------------------------------------------------------------------------------------------
# leaves
# ---------------------------------------------------------------------------------------------
def usedep_eval(dep, F):
    """PMS 8.3.4: one use dependency of an atom under the flag set F -> evaluated item or None"""
    if dep[-1] not in "?=":
        return dep
    kind = dep[-1]
    body = dep[:-1]
    neg = body.startswith("!")
    if neg:
        body = body[1:]
    flag = body[:-3] if body.endswith(("(+)", "(-)")) else body
    on = flag in F
    if kind == "?":
        if not neg:
            return body if on else None
        return None if on else "-" + body
    # "="
    if not neg:
        return body if on else "-" + body
    return "-" + body if on else body


def canon_atom(text):
    """canonical spelling of an atom string: use deps sorted"""
    if "[" not in text:
        return text
    base, rest = text.split("[", 1)
    items = sorted(x for x in rest.rstrip("]").split(",") if x)
    return f"{base}[{','.join(items)}]" if items else base


def leaf_token(tok, F, flavor):
    """the token a leaf stands for under F (only dep atoms with x?/x= use deps depend on F)"""
    if flavor == "dep":
        if "[" not in tok:
            return tok
        base, rest = tok.split("[", 1)
        items = [usedep_eval(d, F) for d in rest.rstrip("]").split(",")]
        items = sorted(x for x in items if x is not None)
        return f"{base}[{','.join(items)}]" if items else base
    if flavor == "src_uri_df":
        if " -> " in tok:
            return tok.split(" -> ", 1)[1]
        return tok.rsplit("/", 1)[-1]
    return tok


def leaf_flags(tok, flavor):
    """flags a leaf's meaning depends on (transitive use deps)"""
    if flavor != "dep" or "[" not in tok:
        return set()
    out = set()
    for d in tok.split("[", 1)[1].rstrip("]").split(","):
        if d[-1] in "?=":
            b = d[:-1].lstrip("!")
            out.add(b[:-3] if b.endswith(("(+)", "(-)")) else b)
    return out


# ---------------------------------------------------------------------------------------------
# tree inspection
# ---------------------------------------------------------------------------------------------
def kids(nd):
    return nd[2] if nd[0] == "cond" else nd[1]


def walk(nodes, parent="top", depth=1):
    """yield (node, parent_kind, depth) for every node"""
    for nd in nodes:
        yield nd, parent, depth
        if nd[0] != "leaf":
            yield from walk(kids(nd), nd[0], depth + 1)


def cond_flags(nodes):
    return {nd[1].lstrip("!") for nd, _, _ in walk(nodes) if nd[0] == "cond"}


def all_flags(nodes, flavor):
    out = cond_flags(nodes)
    for nd, _, _ in walk(nodes):
        if nd[0] == "leaf":
            out |= leaf_flags(nd[1], flavor)
    return out


def leaves(nodes):
    return [nd[1] for nd, _, _ in walk(nodes) if nd[0] == "leaf"]


def max_depth(nodes):
    return max((d for _, _, d in walk(nodes)), default=0)


def only_conds_below(nd):
    """every path from nd's members to a leaf passes a conditional (group can be emptied)"""
    if nd[0] == "leaf":
        return False
    if nd[0] == "cond":
        return True
    return all(only_conds_below(c) for c in nd[1])


def classify(nodes, flavor):
    cl = set()
    for nd, parent, depth in walk(nodes):
        k = nd[0]
        if k == "cond":
            cl.add("cond")
            if nd[1].startswith("!"):
                cl.add("neg_cond")
            if parent in ("any", "xor", "amo"):
                cl.add(f"cond_under_{parent}")
            if parent == "cond":
                cl.add("cond_under_cond")
            if parent in ("any", "xor", "amo") and all(only_conds_below(c) for c in nd[2]):
                cl.add("nested_conditional_in_choice_group")
        elif k != "leaf":
            cl.add(k)
            if k in ("any", "xor", "amo") and only_conds_below(nd):
                cl.add(f"{k}_emptiable")
            if len(nd[1]) == 1:
                cl.add(f"{k}_single")
            if k == "all" and parent in ("any", "xor", "amo"):
                cl.add("all_under_choice")
        else:
            if " -> " in nd[1]:
                cl.add("rename")
            if leaf_flags(nd[1], flavor):
                cl.add("transitive_use_atom")
            if flavor == "required_use" and nd[1].startswith("!"):
                cl.add("neg_flag")
        if depth >= 3:
            cl.add("depth>=3")
    return sorted(cl)


# ---------------------------------------------------------------------------------------------
# independent evaluator
# ---------------------------------------------------------------------------------------------
TRUE = ["true"]  # marker used by reading A for an emptied group inside || ^^ ??


def _reduce(nodes, F, flavor, mode, parent):
    out = []
    for nd in nodes:
        k = nd[0]
        if k == "leaf":
            out.append(["leaf", leaf_token(nd[1], F, flavor)])
        elif k == "cond":
            neg = nd[1].startswith("!")
            if ((nd[1].lstrip("!")) in F) == neg:
                continue
            sub = _reduce(nd[2], F, flavor, mode, "all")
            if not sub:
                continue
            # a met conditional is an all-of group of its members
            out.append(sub[0] if len(sub) == 1 else ["all", sub])
        else:
            sub = _reduce(nd[1], F, flavor, mode, k)
            if not sub:
                if mode == "A" and parent in ("any", "xor", "amo"):
                    out.append(TRUE)
                continue
            out.append([k, sub])
    return out


def reduce_tree(nodes, F, flavor):
    """-> (treeB, treeA or None): conditional-free trees under F; treeA is None when the two
    readings coincide (no emptied group directly inside || ^^ ??)."""
    b = _reduce(nodes, F, flavor, "B", "top")
    a = _reduce(nodes, F, flavor, "A", "top")
    return b, (a if a != b else None)


def sat(nodes, T, negleaf=False):
    """propositional reading of a conditional-free node list over the token set T.
    negleaf: REQUIRED_USE spelling, leaf "!f" holds iff f not in T."""
    for nd in nodes:
        if not sat1(nd, T, negleaf):
            return False
    return True


def sat1(nd, T, negleaf):
    k = nd[0]
    if k == "leaf":
        t = nd[1]
        if negleaf and t.startswith("!"):
            return t[1:] not in T
        return t in T
    if k == "true":
        return True
    if k == "all":
        return all(sat1(c, T, negleaf) for c in nd[1])
    if k == "any":
        return any(sat1(c, T, negleaf) for c in nd[1])
    n = sum(1 for c in nd[1] if sat1(c, T, negleaf))
    if k == "xor":
        return n == 1
    if k == "amo":
        return n <= 1
    raise ValueError(f"conditional or unknown node in evaluated tree: {nd!r}")


def tree_tokens(nodes, negleaf=False):
    out = set()
    for nd, _, _ in walk(nodes):
        if nd[0] == "leaf":
            out.add(nd[1].lstrip("!") if negleaf else nd[1])
    return out


def subsets(items):
    items = list(items)
    for m in range(1 << len(items)):
        yield frozenset(x for i, x in enumerate(items) if m >> i & 1)


# ---------------------------------------------------------------------------------------------
# generators.  A case is a pure function of one integer drawn by hypothesis (st.integers): the
# integer seeds a random.Random that builds the tree.  (Composite strategies recursing per node
# cost ~10 ms per case in hypothesis bookkeeping; shrinking is done structurally by the checks.)
# ---------------------------------------------------------------------------------------------
COND_FLAGS = ("x", "y", "z", "w")
RU_FLAGS = ("a", "b", "c", "d", "e")
LEAF_POOL = {
    "license": ["GPL-2", "MIT", "BSD-2", "LGPL-2.1+", "Apache-2.0", "public-domain", "ISC"],
    "restrict": ["test", "mirror", "fetch", "strip", "bindist", "userpriv"],
    "src_uri": [
        "http://h.example/a-1.tar.gz", "https://h.example/dl/b.zip", "mirror://gnu/c/c-2.tar.xz", "d.patch",
        "http://h.example/get?id=5 -> e-5.tar.gz", "https://h.example/v1.tar.gz -> f-1.tar.gz",
        "mirror+https://h.example/g.tar -> g-2.tar", "http://h.example/dup/a-1.tar.gz -> a-1.tar.gz",
    ],
    "dep": [
        "cat/a", ">=cat/b-1.2", "cat/c:2", "=cat/d-1*", "~cat/e-3", "cat/f:=", "cat/g:0=", "<cat/h-2-r1",
        "!cat/i", "!!cat/j", "cat/k[{f}]", "cat/k[-{f},{g}]", "cat/l[{f}(+)]",
        "cat/m[{f}?]", "cat/m[!{f}?]", "cat/n[{f}=]", "cat/n[!{f}=]", "cat/o[{f}?,{g}=]", "cat/p[{f}(+)?]",
        "cat/q[{g},!{f}?]", "cat/r[{f}(-)=]", ">=cat/s-2:1[!{f}=,{g}?]", "cat/m[{f}?,!{g}?]",
    ],
}
LEAF_POOL["src_uri_df"] = LEAF_POOL["src_uri"]
SEPS = (" ", "  ", "\n", "\t", " \n\t")
SEED_BITS = 56


class _Budget:
    def __init__(self, n):
        self.n = n


def _node(rnd, cfg, depth, parent, budget):
    flavor = cfg["flavor"]
    kinds = ["leaf"]
    if depth > 0 and budget.n > 1:
        # weights: conditionals and choice groups are what the property is about
        kinds = ["leaf", "leaf", "cond", "cond", "cond"]
        if depth > 1:
            # conditional whose payload consists of conditionals only: met outside / unmet inside
            # leaves a met conditional with nothing in it
            kinds.append("condchain")
        if flavor not in NO_GROUPS:
            kinds += ["all", "any", "any", "condgroup"]
        if flavor == "required_use":
            kinds += ["xor", "amo", "amo", "xor_condgroup"]
    k = rnd.choice(kinds)
    if k == "leaf":
        budget.n -= 1
        pool = cfg["leaves"]
        if parent == "any" and flavor == "dep":
            pool = [x for x in pool if not x.startswith("!")] or ["cat/a"]
        tok = rnd.choice(pool)
        if flavor == "required_use" and rnd.randrange(4) == 0:
            tok = "!" + tok
        return ["leaf", tok]
    nkids = rnd.choice(cfg["nkids"])
    if k in ("condgroup", "xor_condgroup"):
        # a choice group whose members are all conditionals: can be emptied by the flag set
        gk = "any" if k == "condgroup" else rnd.choice(["xor", "amo"])
        ch = []
        for _ in range(nkids):
            flag = rnd.choice(cfg["flags"])
            neg = rnd.random() < 0.5
            sub = [_node(rnd, cfg, depth - 2, "cond", budget) for _ in range(rnd.randint(1, 2))]
            ch.append(["cond", ("!" if neg else "") + flag, sub])
        return [gk, ch]
    if k == "condchain":
        flag = rnd.choice(cfg["flags"])
        neg = rnd.randrange(3) == 0
        ch = []
        for _ in range(rnd.randint(1, 2)):
            f2 = rnd.choice(cfg["flags"])
            sub = [_node(rnd, cfg, depth - 2, "cond", budget) for _ in range(rnd.randint(1, 2))]
            ch.append(["cond", ("!" if rnd.randrange(3) == 0 else "") + f2, sub])
        return ["cond", ("!" if neg else "") + flag, ch]
    if k == "cond":
        flag = rnd.choice(cfg["flags"])
        neg = rnd.randrange(3) == 0
        ch = [_node(rnd, cfg, depth - 1, "cond", budget) for _ in range(nkids)]
        return ["cond", ("!" if neg else "") + flag, ch]
    ch = [_node(rnd, cfg, depth - 1, k, budget) for _ in range(nkids)]
    return [k, ch]


def gen_tree(rnd, flavor, max_depth=4, max_leaves=9, flags=None, leaf_pool=None, max_top=4):
    """-> nodes.  <=4 conditional flags, <=5 distinct leaves (so that F x T is exhaustive and small)."""
    if flags is None:
        base = RU_FLAGS if flavor == "required_use" else COND_FLAGS
        flags = list(base[: rnd.randint(1, min(4, len(base)))])
    if leaf_pool is None:
        if flavor == "required_use":
            leaf_pool = list(RU_FLAGS[: rnd.randint(1, 5)])
        else:
            raw = rnd.sample(LEAF_POOL[flavor], rnd.randint(1, 5))
            if flavor == "dep":
                leaf_pool = []
                for t in raw:
                    f = rnd.choice(flags)
                    g = rnd.choice(COND_FLAGS)
                    if g == f:
                        g = "v"
                    leaf_pool.append(t.replace("{f}", f).replace("{g}", g))
            else:
                leaf_pool = raw
    cfg = {"flavor": flavor, "flags": flags, "leaves": leaf_pool, "nkids": (1, 2, 2, 3)}
    budget = _Budget(max_leaves)
    return [_node(rnd, cfg, max_depth - 1, "top", budget) for _ in range(rnd.randint(1, max_top))]


def build_valid(n, flavor):
    """{"flavor", "s", "tree"} -- s renders tree with random whitespace; pure function of n"""
    import random

    rnd = random.Random(n)
    nodes = gen_tree(rnd, flavor)
    seps = [" "] if rnd.random() < 0.6 else [rnd.choice(SEPS) for _ in range(rnd.randint(1, 4))]
    s = join_words(render_words(nodes), seps)
    if rnd.randrange(8) == 0:
        s = rnd.choice([" ", "\n", "\t "]) + s + rnd.choice([" ", "\n"])
    return {"flavor": flavor, "s": s, "tree": nodes}


def valid_case(flavor):
    return st.integers(0, (1 << SEED_BITS) - 1).map(lambda n: build_valid(n, flavor))


CORRUPTIONS = (
    "del_open", "del_close", "ins_open", "ins_close", "op_at_end", "op_before_nonparen",
    "glue_op_open", "glue_open_next", "glue_close_prev", "arrow_at_end",
)


def build_corrupt(n, flavor):
    """{"flavor", "s", "how", "base"}: one token-level corruption of a valid string that leaves
    parentheses unbalanced or an operator dangling (confirmed by ref_parse in the check)."""
    import random

    base = build_valid(n, flavor)
    rnd = random.Random(n ^ 0x5DEECE66D)
    words = base["s"].split()
    how = rnd.choice(CORRUPTIONS)
    opens = [i for i, w in enumerate(words) if w == "("]
    closes = [i for i, w in enumerate(words) if w == ")"]
    ops = list(OPS_BY_FLAVOR[flavor]) + ["x?", "!y?"]
    w2 = list(words)
    if how in ("del_open", "glue_op_open", "glue_open_next") and not opens:
        how = "ins_open"
    if how in ("del_close", "glue_close_prev") and not closes:
        how = "ins_close"
    if how == "arrow_at_end" and flavor not in RENAMES:
        how = "op_at_end"
    if how == "del_open":
        del w2[rnd.choice(opens)]
    elif how == "del_close":
        del w2[rnd.choice(closes)]
    elif how == "ins_open":
        w2.insert(rnd.randint(0, len(w2)), "(")
    elif how == "ins_close":
        w2.insert(rnd.randint(0, len(w2)), ")")
    elif how == "op_at_end":
        w2.append(rnd.choice(ops))
    elif how == "op_before_nonparen":
        # before a word that is not "(" and not the tail of a rename
        pos = [i for i, w in enumerate(w2) if w != "(" and w != "->" and (i == 0 or w2[i - 1] != "->")]
        w2.insert(rnd.choice(pos), rnd.choice(ops))
    elif how == "glue_op_open":
        i = rnd.choice(opens)
        if i > 0 and (w2[i - 1] in OPS_BY_FLAVOR[flavor] or w2[i - 1].endswith("?")):
            w2[i - 1 : i + 1] = [w2[i - 1] + "("]
        else:
            w2[i : i + 1] = ["||("]
    elif how == "glue_open_next":
        i = rnd.choice(opens)
        w2[i : i + 2] = ["(" + w2[i + 1]]
    elif how == "glue_close_prev":
        i = rnd.choice(closes)
        w2[i - 1 : i + 1] = [w2[i - 1] + ")"]
    elif how == "arrow_at_end":
        if w2[-1] not in ("(", ")") and (len(w2) < 2 or w2[-2] != "->"):
            w2.append("->")
        else:
            w2.extend(["http://h.example/z.tar", "->"])
    return {"flavor": flavor, "s": " ".join(w2), "how": how, "base": base["s"]}


def corrupt_case(flavor):
    return st.integers(0, (1 << SEED_BITS) - 1).map(lambda n: build_corrupt(n, flavor))
