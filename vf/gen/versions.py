"""Version generators: bounded universe U_k and hypothesis strategies biased to the
interesting corners (leading zeros, trailing zeros, long digit runs, suffix stacks, revisions)."""
import itertools

from hypothesis import strategies as st

SUFFIXES = ("alpha", "beta", "pre", "rc", "p")


def fullver(ver, rev):
    return ver if rev is None else f"{ver}-r{rev}"


def universe(k=2):
    """list of (ver, rev) -- rev is None or a digit string. k=1 small (~200), k=2 (~1.5k), k=3 larger"""
    comps = {1: ["0", "1", "10", "01"], 2: ["0", "1", "2", "10", "01", "010", "00"],
             3: ["0", "1", "2", "9", "10", "01", "010", "00", "100"]}[k]
    first = {1: ["0", "1", "01", "10"], 2: ["0", "1", "9", "09", "10", "010"],
             3: ["0", "1", "2", "9", "09", "10", "010", "00"]}[k]
    letters = {1: ["", "a"], 2: ["", "a", "b"], 3: ["", "a", "b"]}[k]
    sufnums = {1: ["", "1"], 2: ["", "0", "1", "2"], 3: ["", "0", "1", "2", "01"]}[k]
    revs = {1: [None, "0", "1"], 2: [None, "0", "1", "2", "01"], 3: [None, "0", "1", "2", "01", "00"]}[k]
    maxcomp = {1: 2, 2: 2, 3: 3}[k]
    maxsuf = {1: 1, 2: 1, 3: 2}[k]
    numparts = []
    for n in range(1, maxcomp + 1):
        for f in first:
            for rest in itertools.product(comps, repeat=n - 1):
                numparts.append(".".join((f,) + rest))
    sufs = [""]
    one = [f"_{s}{n}" for s in SUFFIXES for n in sufnums]
    sufs += one
    if maxsuf >= 2:
        sufs += [a + b for a in one[::3] for b in one[::4]]
    out = []
    for np_, l, s, r in itertools.product(numparts, letters, sufs, revs):
        out.append((np_ + l + s, r))
    return out


# ---- hypothesis ------------------------------------------------------------
_digits = st.one_of(
    st.sampled_from(["0", "1", "2", "9", "10", "01", "010", "00", "100", "001", "09", "90", "11"]),
    st.integers(0, 99).map(str),
    st.text("0123456789", min_size=1, max_size=4),
    st.text("0123456789", min_size=18, max_size=28),  # longer than any machine int
)
_sufnum = st.one_of(st.just(""), st.sampled_from(["0", "1", "2", "01", "10", "00"]), st.integers(0, 300).map(str))
_suffix = st.tuples(st.sampled_from(SUFFIXES), _sufnum).map(lambda t: f"_{t[0]}{t[1]}")
_rev = st.one_of(st.none(), st.sampled_from(["0", "1", "2", "01", "00", "10"]), st.integers(0, 200).map(str))


@st.composite
def version(draw):
    nums = draw(st.lists(_digits, min_size=1, max_size=4))
    letter = draw(st.sampled_from(["", "", "a", "b", "z"]))
    sufs = draw(st.lists(_suffix, max_size=3))
    return ".".join(nums) + letter + "".join(sufs), draw(_rev)


@st.composite
def mutated(draw, base):
    """a version derived from `base` by one edit, so equal-prefix paths are exercised"""
    import re

    ver, rev = base
    m = re.match(r"^(\d+(?:\.\d+)*)([a-z]?)((?:_[a-z]+\d*)*)$", ver)
    nums = m.group(1).split(".")
    letter = m.group(2)
    sufs = re.findall(r"_[a-z]+\d*", m.group(3))
    kind = draw(st.integers(0, 9))
    if kind == 0:
        i = draw(st.integers(0, len(nums) - 1))
        nums[i] = draw(_digits)
    elif kind == 1:
        i = draw(st.integers(0, len(nums) - 1))
        nums[i] = draw(st.sampled_from(["0" + nums[i], nums[i] + "0", nums[i].lstrip("0") or "0", nums[i].rstrip("0") or "0"]))
    elif kind == 2:
        nums.append(draw(st.sampled_from(["0", "00", "1", "01"])))
    elif kind == 3 and len(nums) > 1:
        nums.pop()
    elif kind == 4:
        letter = draw(st.sampled_from(["", "a", "b"]))
    elif kind == 5:
        sufs.append(draw(_suffix))
    elif kind == 6 and sufs:
        sufs.pop()
    elif kind == 7 and sufs:
        i = draw(st.integers(0, len(sufs) - 1))
        t = re.match(r"_([a-z]+)(\d*)", sufs[i])
        sufs[i] = "_" + t.group(1) + draw(st.sampled_from(["", "0", "00", t.group(2) + "0", "0" + t.group(2), "1"]))
    elif kind == 8:
        rev = draw(st.sampled_from([None, "0", "00", "1", "01"] + ([rev.lstrip("0") or "0", "0" + rev] if rev else [])))
    return ".".join(nums) + letter + "".join(sufs), rev


@st.composite
def version_pair(draw):
    a = draw(version())
    if draw(st.integers(0, 3)) == 0:
        return a, draw(version())
    return a, draw(mutated(a))


@st.composite
def version_triple(draw):
    a = draw(version())
    b = draw(mutated(a))
    c = draw(st.one_of(mutated(a), mutated(b)))
    return a, b, c
