"""Driver shared by C20/C21: materialise a live root + packages from a JSON case and run the real
MergeEngine over it the way `pkgcore.operations.domain` does (same hook order), with an explicit
trigger list (disable_plugins=True: no ldconfig / install-info side effects).

Case schema (all paths root-relative, no leading slash):
  mode    "install" | "uninstall" | "replace"
  chroot  false: engine runs with offset=<scratch>/root  (non-/ offset)
          true : the process chroot()s into the scratch root, runs the engine with offset "/", leaves again
  root    [entry...]  pre-existing live tree, creation order
  old     [entry...]  contents recorded for the installed package (objects shaped exactly like
                      vdb ContentsFile entries: dir / obj md5+mtime / sym target+mtime / fif)
  new     [entry...]  image of the package being merged (built on disk, scanned with
                      livefs.scan(image, offset=image) exactly like ebuild_built/binpkg do)
  entry   {"path", "type": dir|file|sym|fifo, "data": latin-1 text, "target", "mode"}
Absolute symlink targets are *logical* (root-relative with a leading slash); in offset mode they are
materialised as <offset><target> so nothing ever resolves into the host's real root (the engine
runs as root).  `safety_check` enforces that before anything touches the disk.
"""
import hashlib
import json
import os
import shutil
import tempfile

from .. import core, fsx

PRIVATE = ".vf"  # harness-private directory inside the root (image, engine tempdir, result); filtered from snapshots

PHASES = {
    "install": ["sanity_check", "pre_merge", "merge", "post_merge", "@merged", "final"],
    "uninstall": ["sanity_check", "pre_unmerge", "unmerge", "post_unmerge", "final"],
    "replace": ["sanity_check", "pre_merge", "merge", "post_merge", "@merged", "@mid",
                "pre_unmerge", "unmerge", "post_unmerge", "final"],
}


def md5int(text):
    return int(hashlib.md5(text.encode("latin-1")).hexdigest(), 16)


def sha(text):
    return hashlib.blake2b(text.encode("latin-1"), digest_size=16).hexdigest()


def safety_check(case):
    for part in ("root", "old", "new"):
        for e in case.get(part, ()):
            p = e["path"]
            if p.startswith("/") or ".." in p.split("/") or not p or p.split("/")[0] == PRIVATE:
                raise core.HarnessError(f"unsafe path in case: {p!r}")
            if e["type"] == "sym":
                t = e["target"]
                if ".." in t.split("/"):
                    raise core.HarnessError(f"symlink target with '..' in case: {t!r}")


def _mat_target(target, absprefix):
    if target.startswith("/"):
        return absprefix + target
    return target


def build_tree(top, spec, absprefix):
    """like fsx.build, absolute symlink targets get `absprefix` prepended"""
    sp = []
    for e in spec:
        e = dict(e)
        if e["type"] == "sym":
            e["target"] = _mat_target(e["target"], absprefix)
        sp.append(e)
    fsx.build(top, sp)


def _snap(root):
    s = fsx.snapshot(root)
    pre = PRIVATE + "/"
    return {k: v for k, v in s.items() if k != PRIVATE and not k.startswith(pre)}


def _old_contents(spec):
    from pkgcore.fs import contents, fs

    out = []
    for e in spec:
        p = "/" + e["path"]
        t = e["type"]
        if t == "dir":
            out.append(fs.fsDir(p, strict=False))
        elif t == "file":
            out.append(fs.fsFile(p, chksums={"md5": md5int(e.get("data", ""))}, mtime=int(e.get("mtime", 1000)), strict=False))
        elif t == "sym":
            out.append(fs.fsLink(p, e["target"], mtime=int(e.get("mtime", 1000)), strict=False))
        elif t == "fifo":
            out.append(fs.fsFifo(p, strict=False))
        else:
            raise core.HarnessError(f"bad old entry type {t}")
    return contents.contentsSet(out, mutable=False)


class _Pkg:
    def __init__(self, contents, label):
        self.contents = contents
        self.label = label

    def __str__(self):
        return f"fake-pkg:{self.label}"


def _make_triggers(names, case):
    from pkgcore.ebuild import triggers as et
    from pkgcore.merge import triggers as mt

    out = []
    for n in names:
        if n == "merge":
            out.append(mt.merge())
        elif n == "unmerge":
            out.append(mt.unmerge())
        elif n == "basesys":
            out.append(mt.BaseSystemUnmergeProtection())
        elif n == "cfg_install":
            out.append(et.ConfigProtectInstall(list(case.get("protect", ())), list(case.get("mask", ()))))
        elif n == "cfg_uninstall":
            out.append(et.ConfigProtectUninstall())
        else:
            raise core.HarnessError(f"unknown trigger {n}")
    return out


def _engine_run(case, triggers, root, priv, offset):
    """runs inside the (possibly chrooted) process. root: path of the live root as seen by this
    process; offset: what is handed to the engine (None == "/")."""
    from pkgcore.fs import livefs
    from pkgcore.merge.engine import MergeEngine
    from pkgcore.operations import observer as obs_mod

    warns = []

    class Out(obs_mod.null_output):
        def warn(self, msg, *a, **kw):
            warns.append(str(msg)[-600:])

        def error(self, msg, *a, **kw):
            warns.append("ERROR: " + str(msg)[-600:])

    res = {"snaps": {}, "merged": None, "warn": warns, "error": None, "done": []}
    image = os.path.join(priv, "image")
    tmp = os.path.join(priv, "tmp")
    os.makedirs(tmp, exist_ok=True)
    mode = case["mode"]
    old = new = None
    if mode in ("uninstall", "replace"):
        old = _Pkg(_old_contents(case["old"]), "old")
    if mode in ("install", "replace"):
        new = _Pkg(livefs.scan(image, offset=image), "new")
    observer = obs_mod.repo_observer(Out())
    res["snaps"]["s0"] = _snap(root)
    phase = "construct"
    try:
        if mode == "install":
            eng = MergeEngine.install(tmp, new, offset=offset, observer=observer, disable_plugins=True)
        elif mode == "uninstall":
            eng = MergeEngine.uninstall(tmp, old, offset=offset, observer=observer, disable_plugins=True)
        else:
            eng = MergeEngine.replace(tmp, old, new, offset=offset, observer=observer, disable_plugins=True)
        for t in _make_triggers(triggers, case):
            t.register(eng)
        for phase in PHASES[mode]:
            if phase == "@merged":
                res["merged"] = sorted(
                    [("dir" if x.is_dir else "file" if x.is_reg else "sym" if x.is_sym else "other"), x.location]
                    for x in eng.get_merged_cset()
                )
            elif phase == "@mid":
                res["snaps"]["mid"] = _snap(root)
            else:
                getattr(eng, phase)()
                res["done"].append(phase)
    except Exception as e:  # noqa: BLE001
        b = core.pkg_frame_bucket(e)
        if b is None:
            raise
        res["error"] = {"bucket": b, "phase": phase, "msg": f"{type(e).__name__}: {e}"[:500]}
    res["snaps"]["s1"] = _snap(root)
    return res


_FAST = None


def fast_scratch(ctx):
    """per-process scratch for the case trees: tmpfs (/dev/shm) when available -- the disk-backed
    /var/tmp costs ~2 ms per mkdir/rmdir on the shared machine, 20x more than the engine itself --
    else ctx.scratch.  Callers must call `cleanup()` in a finally; stale dirs of dead processes are
    swept here."""
    global _FAST
    if _FAST is not None and os.path.isdir(_FAST):
        return _FAST
    shm = "/dev/shm"
    if os.path.isdir(shm) and os.access(shm, os.W_OK):
        for n in os.listdir(shm):
            if n.startswith("vf-mergefs-"):
                try:
                    os.kill(int(n.split("-")[2]), 0)
                except (ProcessLookupError, ValueError, IndexError):
                    shutil.rmtree(os.path.join(shm, n), ignore_errors=True)
                except PermissionError:
                    pass
        _FAST = tempfile.mkdtemp(prefix=f"vf-mergefs-{os.getpid()}-", dir=shm)
    else:
        _FAST = ctx.fresh_dir("mergefs")
    return _FAST


def cleanup():
    global _FAST
    if _FAST is not None:
        shutil.rmtree(_FAST, ignore_errors=True)
        _FAST = None


def run_case(ctx, case, triggers):
    """materialise + run; returns the result dict of _engine_run (snapshots keyed by root-relative path)
    plus "absprefix" for vf.ref.fsmodel.Tree."""
    safety_check(case)
    base = tempfile.mkdtemp(prefix="m-", dir=fast_scratch(ctx))
    try:
        root = os.path.join(base, "root")
        os.mkdir(root)
        chroot = bool(case["chroot"])
        absprefix = "" if chroot else root
        build_tree(root, case.get("root", ()), absprefix)
        priv = os.path.join(root, PRIVATE) if chroot else os.path.join(base, "priv")
        os.makedirs(os.path.join(priv, "image"))
        if case["mode"] in ("install", "replace"):
            build_tree(os.path.join(priv, "image"), case.get("new", ()), absprefix)
        if not chroot:
            res = _engine_run(case, triggers, root, priv, root)
            # nothing may appear beside the root
            extra = sorted(set(os.listdir(base)) - {"root", "priv"})
            if extra:
                raise core.HarnessError(f"entries escaped the offset: {extra}")
        else:
            res = _in_chroot(case, triggers, root)
        res["absprefix"] = absprefix
        return res
    finally:
        shutil.rmtree(base, ignore_errors=True)


def _in_chroot(case, triggers, root):
    """chroot this very process into `root`, run, and leave again through a directory fd kept open
    on the real root (we are root, so fchdir+chroot(".") gets out).  Forking a child per case is far
    too slow on a loaded machine.  The engine is only started after verifying that "/" really is the
    scratch root; while inside nothing can be imported (see warm_up)."""
    want = os.stat(root)
    rfd = os.open("/", os.O_RDONLY | os.O_DIRECTORY)
    cfd = os.open(".", os.O_RDONLY | os.O_DIRECTORY)
    inside = False
    try:
        os.chroot(root)
        inside = True
        os.chdir("/")
        got = os.stat("/")
        if (got.st_dev, got.st_ino) != (want.st_dev, want.st_ino):
            raise core.HarnessError("chroot did not land in the scratch root")
        res = _engine_run(case, triggers, "/", "/" + PRIVATE, None)
    finally:
        try:
            if inside:
                os.fchdir(rfd)
                os.chroot(".")
            os.fchdir(cfd)
        finally:
            os.close(rfd)
            os.close(cfd)
    now = os.stat("/")
    if (now.st_dev, now.st_ino) == (want.st_dev, want.st_ino) or not os.path.isdir(root):
        raise core.HarnessError("could not leave the chroot")
    # same JSON round trip as a saved replay would see (tuples -> lists)
    return json.loads(json.dumps(res, default=core._json_default))


_WARM = False


def warm_up(ctx):
    """import everything the engine loads lazily (chksum handlers, triggers...) before the first
    chroot child is forked: inside the chroot there is no python tree to import from."""
    global _WARM
    if _WARM:
        return
    # snakeoil hashes a file with one thread per checksum type when cpu_count() > 1; on the shared
    # machine ten thread starts per tiny config file cost ~200 ms.  Present a single-CPU host to
    # snakeoil's checksum loop (a legitimate host; pkgcore itself is untouched).
    import snakeoil.chksum.defaults as _chk_defaults

    _chk_defaults.cpu_count = lambda: 1
    case = {
        "mode": "replace", "chroot": False,
        "root": [{"path": "etc/env.d/10x", "type": "file", "data": 'CONFIG_PROTECT="/opt/c"\n'},
                 {"path": "etc/a", "type": "file", "data": "live"}, {"path": "etc/._cfg0000_a", "type": "file", "data": "p"},
                 {"path": "opt/l", "type": "sym", "target": "c"}, {"path": "opt/c/f", "type": "file", "data": "1"}],
        "old": [{"path": "etc", "type": "dir"}, {"path": "etc/a", "type": "file", "data": "rec"},
                {"path": "opt/c/f", "type": "file", "data": "1"}, {"path": "opt/l", "type": "sym", "target": "c"}],
        "new": [{"path": "etc/a", "type": "file", "data": "new"}, {"path": "opt/c/g", "type": "file", "data": "2"},
                {"path": "opt/s", "type": "sym", "target": "c"}, {"path": "opt/ff", "type": "fifo"}],
    }
    trig = ["merge", "unmerge", "basesys", "cfg_install", "cfg_uninstall"]
    run_case(ctx, case, trig)
    run_case(ctx, dict(case, mode="uninstall"), trig)
    run_case(ctx, dict(case, mode="install"), trig)
    import encodings.idna  # noqa: F401
    import encodings.latin_1  # noqa: F401
    import encodings.utf_8  # noqa: F401
    _WARM = True
