"""Restriction descriptors for C07: JSON trees describing a pkgcore restriction, a builder that constructs the real
object (two argument spellings per class, so that equal objects are not the same cached instance), value universes
per restriction domain, and hypothesis strategies producing (descriptor, equal-looking-or-slightly-different descriptor).

Descriptor: {"t": <type>, ..., "sp": 0|1}.  sp selects the constructor spelling (0: defaults omitted, 1: every
argument passed explicitly by keyword/position) -- WeaklyCached keys instances by the literal (args, kwargs).
Domains: "pkg" (package objects), "str", "coll" (collections of USE flags), "iu" ((iuse_stripped, use) pairs),
"nested" (nested lists of flags).
"""
from hypothesis import strategies as st

from . import eqpairs as G

FLAGS = ("a", "b", "c")
STRS = ("", "a", "A", "ab", "Ab", "abc", "b", "ba", "c", "p", "pkg", "P", "0", "1", "1.0", "gentoo", "r")
VERS = ("1", "1.0", "1.00", "01", "1.1", "2_alpha", "2_alpha0", "2")
REVS = (None, "0", "00", "1", "01", "2")
VOPS = ("<", "<=", "=", ">=", ">", "~")
COMPLEMENT = {"<": ">=", ">=": "<", ">": "<=", "<=": ">", "=": None, "~": None}
STR_ATTRS = ("category", "package", "slot", "subslot", "fullver", "repo.repo_id")
COLL_ATTRS = ("use", "iuse_stripped")


def f_upper(s):
    return str(s).isupper()


def f_long(s):
    return len(str(s)) > 1


FUNCS = {"upper": f_upper, "long": f_long}


def domain(d):
    t = d["t"]
    if t in ("vm", "VM", "slotdep", "subslotdep", "catdep", "pkgdep", "repodep", "staticuse", "usedepdefault", "pkgr", "atom"):
        return "pkg"
    if t in ("strexact", "strglob", "strregex", "func", "strconv"):
        return "str"
    if t == "contain":
        return "coll"
    if t == "uddc":
        return "iu"
    if t == "flatten":
        return "nested"
    if t == "bool":
        return d["dom"]
    raise ValueError(t)


class Builder:
    def __init__(self):
        from pkgcore.ebuild import atom, cpv, restricts
        from pkgcore.restrictions import boolean, packages, restriction, values

        self.atom, self.cpv, self.restricts = atom, cpv, restricts
        self.boolean, self.packages, self.restriction, self.values = boolean, packages, restriction, values

    def rev(self, d):
        """callers pass None or CPV.revision (a Revision) -- plain strings are outside the domain
        (ver_cmp would compare them as text)"""
        k, r = d.get("revk", "none"), d.get("rev")
        if r is None and k == "none":
            return None
        return self.cpv.Revision("" if r is None else r)

    def build(self, d, nocache=False):
        """nocache: construct the *top-level* object with disable_inst_caching=True (children as usual)"""
        t = d["t"]
        sp = d.get("sp", 0)
        kw = {"disable_inst_caching": True} if nocache else {}
        R, V, P, B = self.restricts, self.values, self.packages, self.boolean

        def opt(**defaults_and_values):
            """sp=0: pass only the non-default keyword arguments; sp=1: pass all"""
            out = {}
            for k, (val, default) in defaults_and_values.items():
                if sp == 1 or val != default:
                    out[k] = val
            return out

        if t == "vm":
            if sp == 1:
                return R._VersionMatch(operator=d["op"], ver=d["ver"], rev=self.rev(d), negate=d["neg"], **kw)
            return R._VersionMatch(d["op"], d["ver"], self.rev(d), **opt(negate=(d["neg"], False)), **kw)
        if t == "VM":
            return R.VersionMatch(d["op"], d["ver"], self.rev(d), **opt(negate=(d["neg"], False)), **kw)
        if t == "slotdep":
            return R.SlotDep(d["v"], **opt(negate=(d["neg"], False)), **kw)
        if t == "subslotdep":
            return R.SubSlotDep(d["v"], **opt(negate=(d["neg"], False)), **kw)
        if t == "catdep":
            return R.CategoryDep(d["v"], **opt(negate=(d["neg"], False)), **kw)
        if t == "pkgdep":
            return R.PackageDep(d["v"], **opt(negate=(d["neg"], False)), **kw)
        if t == "repodep":
            return R.RepositoryDep(d["v"], **opt(negate=(d["neg"], False)), **kw)
        if t == "staticuse":
            return R.StaticUseDep(tuple(d["false"]), tuple(d["true"]), **kw)
        if t == "usedepdefault":
            return R.UseDepDefault(d["if_missing"], tuple(d["false"]), tuple(d["true"]), **kw)
        if t == "uddc":
            return R._UseDepDefaultContainment(d["if_missing"], tuple(d["vals"]), **opt(negate=(d["neg"], False)))
        if t == "contain":
            vals = d["vals"]
            vals = vals[0] if (d.get("bare") and len(vals) == 1) else tuple(vals)
            return V.ContainmentMatch(vals, **opt(match_all=(d["all"], False), negate=(d["neg"], False)), **kw)
        if t == "strexact":
            return V.StrExactMatch(d["s"], **opt(case_sensitive=(d["cs"], True), negate=(d["neg"], False)), **kw)
        if t == "strglob":
            return V.StrGlobMatch(d["s"], **opt(case_sensitive=(d["cs"], True), prefix=(d["prefix"], True), negate=(d["neg"], False)), **kw)
        if t == "strregex":
            return V.StrRegex(d["s"], **opt(case_sensitive=(d["cs"], True), match=(d["match"], False), negate=(d["neg"], False)), **kw)
        if t == "func":
            return V.FunctionRestriction(FUNCS[d["f"]], **opt(negate=(d["neg"], False)), **kw)
        if t == "flatten":
            return V.FlatteningRestriction(str, self.build(d["child"]), **opt(negate=(d["neg"], False)), **kw)
        if t == "strconv":
            return V.StrConversion(self.build(d["child"]))
        if t == "pkgr":
            return P.PackageRestriction(d["attr"], self.build(d["child"]),
                                        **opt(negate=(d["neg"], False), ignore_missing=(d.get("im", True), True)), **kw)
        if t == "bool":
            kids = [self.build(c) for c in d["children"]]
            name = {"and": "AndRestriction", "or": "OrRestriction", "justone": "JustOneRestriction", "atmost": "AtMostOneOfRestriction"}[d["kind"]]
            ntype = "package" if d["dom"] == "pkg" else "values"
            mod = P if ntype == "package" else V
            if d.get("inc") is not None:
                # public incremental construction path: finalize=False, an early hash attempt (rejected with
                # TypeError on an unfinalized node -- "have I seen this one?" bookkeeping), add_restriction, finalize
                k = min(d["inc"], len(kids))
                node = getattr(B, name)(*kids[:k], node_type=ntype, negate=d["neg"], finalize=False, disable_inst_caching=True)
                try:
                    hash(node)
                except TypeError:
                    pass
                if kids[k:]:
                    node.add_restriction(*kids[k:])
                node.finalize()
                return node
            if sp == 0 and hasattr(mod, name):
                # the curried constructors packages.AndRestriction / values.OrRestriction ...
                return getattr(mod, name)(*kids, **opt(negate=(d["neg"], False)), **kw)
            return getattr(B, name)(*kids, node_type=ntype, negate=d["neg"], **kw)
        if t == "atom":
            return self.atom.atom(d["text"], **opt(negate_vers=(d["nv"], False)), **kw)
        raise ValueError(t)


# ---- value universes ---------------------------------------------------------------------------------------------

def package_universe():
    from pkgcore.test.misc import FakePkg, FakeRepo

    repos = {"gentoo": FakeRepo(repo_id="gentoo"), "r": FakeRepo(repo_id="r")}
    out = []
    n = 0
    for cat, pkg in (("c", "p"), ("c", "pkg"), ("dev-a", "p")):
        for ver in ("1", "1.0", "1.00", "1.0-r1", "01", "1.1", "2_alpha", "2_alpha0-r2", "2", "0.9-r0"):
            n += 1
            slot = ("0", "1", "2.1")[n % 3]
            subslot = (None, "1", "2.1", "a_b")[n % 4]
            iuse = (("a", "b", "c"), ("a",), (), ("b", "c"))[(n // 2) % 4]
            use = tuple(x for i, x in enumerate(iuse) if (n >> i) & 1)
            repo = repos[("gentoo", "r")[(n // 3) % 2]]
            out.append(FakePkg(f"{cat}/{pkg}-{ver}", eapi="8", slot=slot, subslot=subslot, iuse=iuse, use=use, repo=repo))
    return out


def value_universe(dom):
    if dom == "str":
        return list(STRS)
    if dom == "coll":
        out = []
        for m in range(8):
            s = [f for i, f in enumerate(FLAGS) if (m >> i) & 1]
            out += [frozenset(s), tuple(s)]
        out += ["a", "ab", "", "cab"]  # ContainmentMatch documents substring semantics for strings
        return out
    if dom == "iu":
        out = []
        for mi in range(8):
            iuse = frozenset(f for i, f in enumerate(FLAGS) if (mi >> i) & 1)
            for mu in range(8):
                use = frozenset(f for i, f in enumerate(FLAGS) if (mu >> i) & 1)
                if use <= iuse:
                    out.append((iuse, use))
        return out
    if dom == "nested":
        return [[], ["a"], [["a"], "b"], [["a", ["c"]]], ["b", ["b"]], [["a"], ["b"], ["c"]], [[]]]
    raise ValueError(dom)


# ---- strategies --------------------------------------------------------------------------------------------------
_b = st.booleans()
_neg = st.sampled_from([False, False, True])
_sp = st.integers(0, 1)
_flags = st.lists(st.sampled_from(FLAGS), min_size=1, max_size=3, unique=True)


@st.composite
def vm_desc(draw, t=None):
    rev = draw(st.sampled_from(REVS))
    op = draw(st.sampled_from(VOPS))
    revk = draw(st.sampled_from(["none", "Rev"]))
    if op == "~":
        rev = None
    return {"t": t or draw(st.sampled_from(["vm", "vm", "VM"])), "op": op, "ver": draw(st.sampled_from(VERS)), "rev": rev,
            "revk": revk, "neg": draw(_neg), "sp": draw(_sp)}


@st.composite
def str_desc(draw, top=True):
    # StrConversion has no restriction type: it cannot be a member of a boolean tree
    t = draw(st.sampled_from(["strexact", "strexact", "strglob", "strregex", "func"] + (["strconv"] if top else [])))
    if t == "func":
        return {"t": t, "f": draw(st.sampled_from(sorted(FUNCS))), "neg": draw(_neg), "sp": draw(_sp)}
    if t == "strconv":
        return {"t": t, "child": draw(str_leaf())}
    return draw(str_leaf(t))


@st.composite
def str_leaf(draw, t=None):
    t = t or draw(st.sampled_from(["strexact", "strglob", "strregex"]))
    d = {"t": t, "s": draw(st.sampled_from(STRS[1:])), "cs": draw(st.sampled_from([True, True, False])), "neg": draw(_neg), "sp": draw(_sp)}
    if t == "strglob":
        d["prefix"] = draw(st.sampled_from([True, True, False]))
    if t == "strregex":
        d["match"] = draw(_b)
        d["s"] = draw(st.sampled_from(["a", "^a", "b$", "a.", "[ab]+", "1\\.0", "p", "A"]))
    return d


@st.composite
def contain_desc(draw):
    return {"t": "contain", "vals": draw(_flags), "all": draw(_b), "neg": draw(_neg), "bare": draw(_b), "sp": draw(_sp)}


@st.composite
def uddc_desc(draw):
    return {"t": "uddc", "if_missing": draw(_b), "vals": draw(_flags), "neg": draw(_neg), "sp": draw(_sp)}


@st.composite
def usedep_desc(draw):
    fl = draw(st.lists(st.sampled_from(FLAGS), min_size=1, max_size=3, unique=True))
    k = draw(st.integers(0, len(fl)))
    d = {"false": fl[:k], "true": fl[k:], "sp": 0}
    if draw(_b):
        return dict(d, t="staticuse")
    return dict(d, t="usedepdefault", if_missing=draw(_b))


@st.composite
def dep_desc(draw):
    t = draw(st.sampled_from(["slotdep", "subslotdep", "catdep", "pkgdep", "repodep"]))
    pool = {"slotdep": G.SLOTS, "subslotdep": G.SLOTS, "catdep": ("c", "dev-a"), "pkgdep": ("p", "pkg"), "repodep": ("gentoo", "r")}[t]
    return {"t": t, "v": draw(st.sampled_from(pool)), "neg": draw(_neg), "sp": draw(_sp)}


@st.composite
def pkgr_desc(draw):
    if draw(_b):
        child = draw(st.one_of(str_leaf(), bool_desc("str", 1)))
        attr = draw(st.sampled_from(STR_ATTRS))
    else:
        child = draw(st.one_of(contain_desc(), bool_desc("coll", 1)))
        attr = draw(st.sampled_from(COLL_ATTRS))
    return {"t": "pkgr", "attr": attr, "child": child, "neg": draw(_neg), "im": draw(st.sampled_from([True, True, False])), "sp": draw(_sp)}


@st.composite
def atom_desc(draw):
    f = draw(G.atom_fields())
    return {"t": "atom", "text": G.render_atom(f), "nv": f["nv"], "sp": draw(_sp), "_f": f}


def leaf(dom):
    if dom == "pkg":
        return st.one_of(vm_desc("VM"), dep_desc(), usedep_desc(), pkgr_desc(), atom_desc())
    if dom == "str":
        return str_desc(False)
    if dom == "coll":
        return contain_desc()
    raise ValueError(dom)


@st.composite
def bool_desc(draw, dom, depth):
    n = draw(st.integers(0, 3))
    kids = []
    for _ in range(n):
        if depth > 1 and draw(st.integers(0, 3)) == 0:
            kids.append(draw(bool_desc(dom, depth - 1)))
        else:
            kids.append(draw(leaf(dom)))
    return {"t": "bool", "kind": draw(st.sampled_from(["and", "or", "and", "or", "justone", "atmost"])), "dom": dom,
            "children": kids, "neg": draw(_neg), "sp": draw(_sp)}


@st.composite
def any_desc(draw):
    k = draw(st.integers(0, 13))
    if k >= 12:
        return draw(vm_desc("vm"))  # the bare value restriction VersionMatch wraps; it takes the package itself
    if k <= 4:
        return draw(leaf("pkg"))
    if k <= 6:
        return draw(bool_desc("pkg", 2))
    if k == 7:
        return draw(str_desc())
    if k == 8:
        return draw(st.one_of(contain_desc(), flatten_desc()))
    if k == 9:
        return draw(uddc_desc())
    if k == 10:
        return draw(bool_desc("str", 2))
    return draw(bool_desc("coll", 2))


@st.composite
def flatten_desc(draw):
    return {"t": "flatten", "child": draw(contain_desc()), "neg": draw(_neg), "sp": draw(_sp)}


def _flip(d, k):
    return dict(d, **{k: not d[k]})


@st.composite
def variant(draw, d):
    """an equal-looking or minimally different descriptor; returns (kind, descriptor)"""
    t = d["t"]
    generic = ["copy", "respell"]
    if t in ("vm", "VM"):
        kinds = generic + ["complement", "flipneg", "revspell", "revk", "verspell", "op", "ver"]
    elif t in ("strexact", "strglob", "strregex"):
        kinds = generic + ["flipneg", "cs", "case"] + (["prefix"] if t == "strglob" else []) + (["match"] if t == "strregex" else [])
    elif t == "func":
        kinds = generic + ["flipneg", "f"]
    elif t == "contain":
        kinds = generic + ["flipneg", "all", "reorder", "vals", "bare"]
    elif t == "uddc":
        kinds = ["copy", "flipneg", "if_missing", "reorder", "vals"]
    elif t in ("staticuse", "usedepdefault"):
        kinds = ["copy", "swap", "reorder"] + (["if_missing"] if t == "usedepdefault" else ["to-default"])
    elif t in ("slotdep", "subslotdep", "catdep", "pkgdep", "repodep"):
        kinds = generic + ["flipneg", "v"]
    elif t == "pkgr":
        kinds = generic + ["flipneg", "moveneg", "im", "child", "child", "attr"]
    elif t in ("flatten", "strconv"):
        kinds = ["copy", "child"] + (["flipneg", "respell"] if t == "flatten" else [])
    elif t == "bool":
        kinds = generic + ["flipneg", "kind", "reorder", "child", "child", "dropchild", "incremental", "incremental"]
    elif t == "atom":
        kinds = ["copy", "respell", "atomvar", "atomvar", "atomvar"]
    else:
        raise ValueError(t)
    kind = draw(st.sampled_from(kinds))
    g = dict(d)
    if kind == "copy":
        pass
    elif kind == "respell":
        g["sp"] = 1 - d.get("sp", 0)
    elif kind == "flipneg":
        g = _flip(d, "neg")
    elif kind == "complement":
        c = COMPLEMENT[d["op"]]
        g = _flip(d, "neg")
        if c is not None:
            g["op"] = c
    elif kind == "revspell":
        r = d["rev"]
        if d["op"] != "~":
            g["rev"] = draw(st.sampled_from([None, "0", "00"] if r in (None, "0", "00") else [str(int(r)), "0" + str(int(r))]))
    elif kind == "revk":
        g["revk"] = "Rev" if d.get("revk") == "none" else "none"
    elif kind == "verspell":
        g["ver"] = {"1": "01", "01": "1", "1.0": "1.00", "1.00": "1.0", "2_alpha": "2_alpha0", "2_alpha0": "2_alpha"}.get(d["ver"], d["ver"])
    elif kind == "op":
        g["op"] = draw(st.sampled_from([o for o in VOPS if o != d["op"]]))
        if g["op"] == "~":
            g["rev"] = None
    elif kind == "ver":
        g["ver"] = draw(st.sampled_from([v for v in VERS if v != d["ver"]]))
    elif kind in ("cs", "prefix", "match", "all", "bare", "if_missing", "im"):
        g = _flip(d, kind) if kind != "im" else dict(d, im=not d.get("im", True))
    elif kind == "case":
        g["s"] = d["s"].swapcase()
    elif kind == "f":
        g["f"] = [x for x in sorted(FUNCS) if x != d["f"]][0]
    elif kind == "reorder":
        if t == "bool":
            g["children"] = list(reversed(d["children"]))
        elif t in ("staticuse", "usedepdefault"):
            g["false"], g["true"] = list(reversed(d["false"])), list(reversed(d["true"]))
        else:
            g["vals"] = list(reversed(d["vals"]))
    elif kind == "vals":
        g["vals"] = draw(_flags)
    elif kind == "swap":
        g["false"], g["true"] = d["true"], d["false"]
    elif kind == "to-default":
        g = dict(d, t="usedepdefault", if_missing=draw(_b))
    elif kind == "v":
        g["v"] = draw(st.sampled_from(G.SLOTS + ("c", "p", "gentoo")))
    elif kind == "moveneg":
        c = d["child"]
        if "neg" in c:
            g["neg"] = not d["neg"]
            g["child"] = _flip(c, "neg")
    elif kind == "child":
        if t == "bool":
            if d["children"]:
                i = draw(st.integers(0, len(d["children"]) - 1))
                kids = list(d["children"])
                inner, kids[i] = draw(variant(kids[i]))
                g["children"] = kids
                return inner, g
        else:
            inner, g["child"] = draw(variant(d["child"]))
            return inner, g
    elif kind == "incremental":
        g["inc"] = draw(st.integers(0, len(d["children"])))
    elif kind == "dropchild":
        g["children"] = d["children"][:-1]
    elif kind == "attr":
        pool = STR_ATTRS if d["attr"] in STR_ATTRS else (COLL_ATTRS if d["attr"] in COLL_ATTRS else ("fullver",))
        g["attr"] = draw(st.sampled_from(pool))
    elif kind == "kind":
        g["kind"] = draw(st.sampled_from([k for k in ("and", "or", "justone", "atmost") if k != d["kind"]]))
    elif kind == "atomvar":
        fa, fb = draw(G.atom_variant(d["_f"]))
        g = {"t": "atom", "text": G.render_atom(fb), "nv": fb["nv"], "sp": d.get("sp", 0), "_f": fb}
        kind = G.diff_label(G.diff_fields(d["_f"], fb))
    return f"{t}/{kind}", g


def strip(d):
    """drop harness-only keys (leading underscore) -> the JSON that goes into cases"""
    if isinstance(d, dict):
        return {k: strip(v) for k, v in d.items() if not k.startswith("_")}
    if isinstance(d, list):
        return [strip(x) for x in d]
    return d


@st.composite
def desc_pair(draw):
    d1 = draw(any_desc())
    k = draw(st.integers(0, 19))
    if k == 0:
        d2 = draw(any_desc())
        kind = "independent"
    else:
        kind, d2 = draw(variant(d1))
        if k == 1:
            k2, d2 = draw(variant(d2))
            kind = kind + "+" + k2
    return kind, d1, d2, draw(st.sampled_from([False, True, True]))


# ---- REQUIRED_USE -------------------------------------------------------------------------------------------------
RU_FLAGS = ("a", "b", "c", "d")


@st.composite
def ru_leaf(draw):
    return ("flag", draw(st.sampled_from(RU_FLAGS)), draw(st.sampled_from([False, False, True])))


@st.composite
def ru_group(draw):
    op = draw(st.sampled_from(["||", "^^", "??", "()"]))
    kids = draw(st.lists(st.one_of(ru_leaf(), ru_leaf(), ru_allof()), min_size=1 if op == "()" else 2, max_size=3))
    return (op, kids)


@st.composite
def ru_allof(draw):
    return ("()", draw(st.lists(ru_leaf(), min_size=1, max_size=2)))


@st.composite
def ru_node(draw):
    k = draw(st.integers(0, 5))
    if k <= 1:
        return draw(ru_leaf())
    if k <= 3:
        return draw(ru_group())
    body = draw(st.lists(st.one_of(ru_leaf(), ru_group()), min_size=1, max_size=2))
    return ("?", draw(st.sampled_from(RU_FLAGS)), draw(_b), body)


def ru_render(nodes):
    out = []
    for n in nodes:
        if n[0] == "flag":
            out.append(("!" if n[2] else "") + n[1])
        elif n[0] == "?":
            out.append(("!" if n[2] else "") + n[1] + "? ( " + ru_render(n[3]) + " )")
        elif n[0] == "()":
            out.append("( " + ru_render(n[1]) + " )")
        else:
            out.append(n[0] + " ( " + ru_render(n[1]) + " )")
    return " ".join(out)


def ru_eval(nodes, on):
    """PMS REQUIRED_USE semantics of a sequence of nodes (all must hold)"""
    return all(_ru_eval1(n, on) for n in nodes)


def _ru_eval1(n, on):
    if n[0] == "flag":
        return (n[1] in on) != n[2]
    if n[0] == "?":
        cond = (n[1] in on) != n[2]
        return (not cond) or ru_eval(n[3], on)
    vals = [_ru_eval1(k, on) for k in n[1]]
    if n[0] == "()":
        return all(vals)
    if n[0] == "||":
        return any(vals)
    if n[0] == "^^":
        return sum(vals) == 1
    if n[0] == "??":
        return sum(vals) <= 1
    raise ValueError(n[0])


@st.composite
def ru_pair(draw):
    nodes = draw(st.lists(ru_node(), min_size=1, max_size=4))
    k = draw(st.integers(0, 5))
    other = list(nodes)
    if k == 0:
        kind = "copy"
    elif k in (1, 2):
        kind = "reorder"
        other = list(reversed(nodes)) if len(nodes) > 1 else nodes + [nodes[0]]
    elif k == 3:
        kind = "duplicate"
        other = nodes + [draw(st.sampled_from(nodes))]
    elif k == 4:
        kind = "mutate"
        other[draw(st.integers(0, len(nodes) - 1))] = draw(ru_node())
    else:
        kind = "independent"
        other = draw(st.lists(ru_node(), min_size=1, max_size=4))
    return kind, nodes, other


# ---- query histories through one caching repo ---------------------------------------------------------------------
@st.composite
def query_history(draw):
    """3-8 queries of one restriction type (same-sized objects: a freed address is readily reused by the next one);
    each entry (descriptor, drop-after-query, build-without-instance-cache)"""
    kind = draw(st.sampled_from(["atom", "atom", "atom", "VM", "dep", "pkgr"]))
    strat = {"atom": atom_desc(), "VM": vm_desc("VM"), "dep": dep_desc(), "pkgr": pkgr_desc()}[kind]
    n = draw(st.integers(3, 8))
    out = []
    for _ in range(n):
        out.append([draw(strat), draw(st.sampled_from([True, True, True, False])), draw(_b)])
    return out
