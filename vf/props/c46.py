"""C46 Distfile cleaning never deletes a distfile that must be kept (pclean dist).

Driven: the real option post-processing chain of `pkgcore.scripts.pclean` (`_initialize_opts`,
`_setup_shared_opts`, `_setup_file_opts`, `_setup_restrictions`, `_dist_validate_args`) on a namespace that holds
what argparse would have stored (targets, -x patterns, -I/-E/-f, parsed -m/-s values, -r repo), followed by
executing the produced `(func, path)` pairs against a scratch distdir (directly, or through `_remove` with a
tty-like stdout, which is the only mode in which pclean deletes).  Repositories are `SimpleTree`s of
`pkgcore.test.misc.FakePkg` (the real `ebuild_src.package` class, so `distfiles`/`restrict` are parsed from
SRC_URI / RESTRICT by pkgcore itself, including `->` renames and USE conditionals).  Repository packages are normally seen through pkgcore's
configured-repo wrapper (`repository.configured.tree`: `use`, `_raw_pkg`, USE-evaluated `distfiles`/`restrict`, as a
domain hands them out) with generated enabled flags; the must-keep model always uses the FULL SRC_URI.  The domain object is a
stand-in with `distdir`, `all_installed_repos`, `all_source_repos_raw`; no configuration is loaded.

Oracle (own model: package matching of the target / exclusion expressions is re-implemented here on
(category, name, version) with the PMS version reference; distfile names come from the harness' own SRC_URI
builder, not from pkgcore's parse):
  removed := files present before and absent after.
  K1 -I given: removed is disjoint from the distfiles of every installed package;
  K2 -E given: ... of every package in the repository;
  K3 -f given: ... of every repository package with RESTRICT=fetch;
  K4 -x given: ... of every repository package matched by an exclusion pattern;
  F  -s N: no removed file is bigger than N; -m T: no removed file was modified after T;
  S  targets given: every removed file is related to a targeted package - it is one of its distfiles or its name
     starts (case-insensitively) with the leading alphabetic run of the package name or of one of that
     package's distfile names (deliberately lenient: pclean's "older versions" name heuristic is not specified);
     nothing but regular files directly in distdir is touched; nothing is created.
  Exceptions from pclean for these inputs are violations (`crash:*`).

Generation: (1) a deterministic grid (task `grid`, always run to the end, independent of the wall-clock guard):
look-alike package pairs (foo/foo-bar, py/py-x) x plain or shared distfiles x every subset of -I/-E/-f x
{no target, cat/pn, pn, =cat/pn-ver} x -x {none, look-alike, other} x -X file {none, look-alike, other}, with an
installed look-alike whose version is gone from the tree and an installed package in another category that
shares a distfile; (2) hypothesis worlds (task `hyp`; the first chunk of every task ignores the guard so that a
run on an overloaded machine is never vacuous).

Dropped from DESIGN: `--pkgsets`, path targets and `-r`-less repo discovery (`get_virtual_repos(..., False)`
drops SimpleTree repos, so the repository is always handed in as `namespace.repo`).  `--exclude-file` is a
StringIO of newline-separated patterns without a trailing newline.
"""
import io
import os
import re
import sys
import types

from hypothesis import strategies as st

from .. import core
from ..ref import pms_version as R

ID = "C46"
TITLE = "Distfile cleaning never deletes a distfile that must be kept"
LEVEL = "exploration"
TECHNIQUE = "hypothesis worlds (repo, installed set, distdir, options) through pclean's option chain; set-algebra oracle with own package matcher"
DESIGN_REF = "DESIGN.md §3 C46"
LEVEL_TEXT = (
    "Generated-input search: random repositories / installed sets with overlapping package and distfile names, random distdir "
    "contents (sizes, mtimes), every combination of targets, -I/-E/-f, -x patterns, -m/-s; the removal list is executed on a "
    "scratch directory and the removed set is compared with the must-keep sets of the statement."
)
LEVEL_NOTE = (
    "Trusted: the harness' matcher for the generated target syntax (cat/pn, pn, =cat/pn-ver, >=, <, cat/*), FakePkg as a stand-in "
    "for repository packages. 'Selected by the targets' is only checked against a lenient name relation."
)
RULE = (
    "case = world JSON; non-trivial = at least one file removed while at least one file present in distdir is in a must-keep set "
    "of an active option; distinct = distinct case JSON"
)
ASSUMPTIONS = [
    "calling the parse-priority functions in priority order on a prepared namespace equals what argparse does for `pclean dist`",
    "fetch restriction means an unconditional `fetch` token in RESTRICT",
    "must-keep sets follow the statement literally: all (also USE-conditional) distfiles of the respective packages",
]
BUDGET = {"quick": 50, "thorough": 900}

CATS = ["cat", "dev-libs", "app-x"]
NAMES = ["foo", "foo", "foo-bar", "foo-bar", "foobar", "Foo", "bar", "libfoo", "gtk+", "py-x", "x"]
VERS = ["1", "2", "1.5", "0.9", "2.0_p1", "10"]
BASE_T = 1_600_000_000
SIZES = [0, 10, 11, 1024, 1025, 5000]
MTIMES = [0, 1000, 2000, 3000]


def distfile_names(pn, ver, style):
    """harness-side truth: SRC_URI text and the distfile names it defines -> (src_uri, [names])"""
    if style == "tgz":
        n = [f"{pn}-{ver}.tar.gz"]
        return f"http://h.invalid/{n[0]}", n
    if style == "zip_":
        n = [f"{pn}_{ver}.zip"]
        return f"mirror://gentoo/{n[0]}", n
    if style == "upper":
        n = [f"{pn.upper()}-{ver}.tgz"]
        return f"http://h.invalid/dl/{n[0]}", n
    if style == "rename":
        n = [f"{pn}-{ver}.tar.gz", f"{pn}-{ver}-fix.patch"]
        return f"http://h.invalid/{n[0]} http://h.invalid/raw/12345 -> {n[1]}", n
    if style == "cond":
        n = [f"{pn}-{ver}.tar.xz", f"{pn}-docs-{ver}.tar.xz"]
        return f"http://h.invalid/{n[0]} doc? ( http://h.invalid/{n[1]} )", n
    if style == "cond2":
        n = [f"{pn}-{ver}.tar.gz", f"{pn}-gui-{ver}.tar.gz", f"{pn}-nogui-{ver}.tar.gz", f"{pn}-docs-{ver}.zip"]
        return f"http://h.invalid/{n[0]} gui? ( http://h.invalid/{n[1]} doc? ( http://h.invalid/x -> {n[3]} ) ) !gui? ( http://h.invalid/{n[2]} )", n
    if style == "vtag":
        n = [f"v{ver}.tar.gz"]
        return f"https://git.invalid/{pn}/archive/{n[0]}", n
    if style == "shared":
        n = [f"{pn}-{ver}.tar.bz2", "shared-data-1.tar.gz"]
        return f"http://h.invalid/{n[0]} http://h.invalid/{n[1]}", n
    if style == "none":
        return "", []
    raise core.HarnessError(style)


STYLES = ["tgz", "tgz", "zip_", "upper", "rename", "cond", "cond", "cond2", "vtag", "shared", "none"]
USE_FLAGS = ("doc", "gui")


def enabled_names(pn, ver, style, use):
    """distfiles a package needs with exactly the flags in `use` enabled (subset of the full list)"""
    names = distfile_names(pn, ver, style)[1]
    use = set(use)
    if style == "cond":
        return names if "doc" in use else names[:1]
    if style == "cond2":
        out = [names[0]]
        if "gui" in use:
            out.append(names[1])
            if "doc" in use:
                out.append(names[3])
        else:
            out.append(names[2])
        return out
    return names


# ---- own matcher ---------------------------------------------------------------------

def expr_matches(expr, cat, pn, ver):
    m = re.fullmatch(r"(>=|<=|=|<|>)?(?:([A-Za-z0-9+_.-]+|\*)/)?(.+)", expr)
    op, c, rest = m.group(1), m.group(2), m.group(3)
    if op:
        # versioned: rest = pn-ver
        for v in VERS:
            if rest.endswith("-" + v):
                name = rest[: -len(v) - 1]
                break
        else:
            raise core.HarnessError(f"bad versioned expr {expr}")
        if c != cat or name != pn:
            return False
        return R.op_holds(op, ver, None, v, None)
    if rest == "*":
        return c == cat
    if c is None:
        return rest == pn
    return c == cat and rest == pn


def lead_run(s):
    """leading alphabetic run, lower-cased (what any sane name heuristic would have to share)"""
    m = re.match(r"[A-Za-z]*", s)
    return m.group(0).lower()


# ---- world -> pkgcore objects ----------------------------------------------------------

_CONF_KLS = None


def configured_tree(raw, use_of):
    """the raw tree seen through pkgcore's own configured-repo machinery (repository.configured.tree +
    package.conditionals wrapper): packages carry `use`, `_raw_pkg`, and `distfiles` / `restrict` evaluated against
    the enabled USE flags, the way ebuild.repository.ConfiguredTree wraps them for a domain."""
    global _CONF_KLS
    if _CONF_KLS is None:
        from pkgcore.repository import configured
        from snakeoil.sequences import stable_unique

        class ConfTree(configured.tree):
            configurable = "use"

            def __init__(self, raw_repo, use_map):
                self._use_map = use_map
                super().__init__(
                    raw_repo,
                    {
                        "distfiles": lambda raw_val, use, pkg: tuple(stable_unique(raw_val.evaluate_depset(use))),
                        "restrict": lambda raw_val, use, pkg: raw_val.evaluate_depset(use),
                    },
                )

            def _get_pkg_kwds(self, pkg):
                return {"initial_settings": self._use_map.get((pkg.category, pkg.package, pkg.fullver), ())}

        _CONF_KLS = ConfTree
    return _CONF_KLS(raw, use_of)


def build_repo(pkgs, livefs=False):
    from pkgcore.repository.util import SimpleTree
    from pkgcore.test.misc import FakePkg

    objs = {}
    d = {}
    for p in pkgs:
        src, _names = distfile_names(p["pn"], p["ver"], p["style"])
        key = (p["cat"], p["pn"], p["ver"])
        if key in objs:
            continue
        objs[key] = None
        d.setdefault(p["cat"], {}).setdefault(p["pn"], []).append(p["ver"])
        objs[key] = (src, p.get("restrict", ""))
    tree = SimpleTree(d, livefs=livefs, repo_id="installed" if livefs else "fake")
    cache = {}

    def mk(c, pn, v):
        k = (c, pn, v)
        o = cache.get(k)
        if o is None:
            src, restrict = objs[k]
            o = cache[k] = FakePkg(f"{c}/{pn}-{v}", data={"SRC_URI": src}, eapi="8", repo=tree, restrict=restrict, iuse=USE_FLAGS)
        return o

    tree.package_class = mk
    return tree


class _NoRepo:
    """stands for domain.all_source_repos_raw: the current directory is never inside a repository"""

    def __contains__(self, x):
        return False

    def path_restrict(self, x):
        raise ValueError("not a repo path")


class _TTY:
    def isatty(self):
        return True

    def write(self, *a, **k):
        return 0

    def flush(self):
        pass


class _Fmt:
    def __init__(self):
        self.lines = []

    def write(self, *a, **k):
        self.lines.append(" ".join(str(x) for x in a))


def uniq_pkgs(pkgs):
    seen = set()
    out = []
    for p in pkgs:
        k = (p["cat"], p["pn"], p["ver"])
        if k not in seen:
            seen.add(k)
            out.append(p)
    return out


def _distdir(ctx):
    """one scratch distdir per task, emptied between cases (cheaper than a new tree per case)"""
    d = getattr(ctx, "_c46_dist", None)
    if d is None:
        d = ctx._c46_dist = ctx.fresh_dir("dist")
    for name in os.listdir(d):
        p = os.path.join(d, name)
        if name != "subdir":
            os.unlink(p)
    sub = os.path.join(d, "subdir")
    # one non-file entry that must never be touched
    if not os.path.exists(os.path.join(sub, "foo-1.tar.gz")):
        os.makedirs(sub, exist_ok=True)
        with open(os.path.join(sub, "foo-1.tar.gz"), "w") as f:
            f.write("x")
    return d


def run_case(ctx, case):
    from pkgcore.scripts import pclean

    repo_pkgs = uniq_pkgs(case["repo"])
    inst_pkgs = uniq_pkgs(case["installed"])
    opts = case["opts"]
    dist = _distdir(ctx)
    files = {}
    for fn, size, mt in case["files"]:
        if fn in files:
            continue
        files[fn] = (size, mt)
        p = os.path.join(dist, fn)
        with open(p, "wb") as f:
            f.write(b"d" * size)
        os.utime(p, (BASE_T + mt, BASE_T + mt))
    before = set(os.listdir(dist))

    # ---- model
    def names_of(p):
        return distfile_names(p["pn"], p["ver"], p["style"])[1]

    keep = {}  # filename -> set(reasons)

    def mark(names, why):
        for n in names:
            keep.setdefault(n, set()).add(why)

    if opts["installed"]:
        for p in inst_pkgs:
            mark(names_of(p), "installed")
    if opts["exists"]:
        for p in repo_pkgs:
            mark(names_of(p), "exists")
    if opts["fetch_restricted"]:
        for p in repo_pkgs:
            if "fetch" in p.get("restrict", "").split():
                mark(names_of(p), "fetch-restricted")
    xfile = opts.get("exclude_file")
    all_excl = list(opts["excludes"]) + list(xfile or [])
    for p in repo_pkgs:
        if any(expr_matches(x, p["cat"], p["pn"], p["ver"]) for x in all_excl):
            mark(names_of(p), "excluded-pattern")
    targeted = [p for p in repo_pkgs if any(expr_matches(t, p["cat"], p["pn"], p["ver"]) for t in opts["targets"])]
    stems = set()
    tfiles = set()
    for p in targeted:
        stems.add(lead_run(p["pn"]))
        for n in names_of(p):
            tfiles.add(n)
            stems.add(lead_run(n))

    # ---- drive pclean
    repo_obj = build_repo(repo_pkgs)
    if case.get("configured", True):
        # what a domain hands out: packages configured with their enabled USE (raw package behind `_raw_pkg`)
        repo_obj = configured_tree(repo_obj, {(p["cat"], p["pn"], p["ver"]): tuple(p.get("use", ())) for p in repo_pkgs})
    ns = types.SimpleNamespace(
        domain=types.SimpleNamespace(distdir=dist, all_installed_repos=build_repo(inst_pkgs, livefs=True), all_source_repos_raw=_NoRepo()),
        repo=repo_obj,
        targets=list(opts["targets"]),
        pretend=False,
        verbosity=0,
        prog="pclean dist",
        excludes=list(opts["excludes"]) if opts["excludes"] else None,
        exclude_file=None if xfile is None else io.StringIO("\n".join(xfile)),
        pkgsets=None,
        modified=None if opts["modified"] is None else BASE_T + opts["modified"],
        size=opts["size"],
        exclude_installed=opts["installed"],
        exclude_exists=opts["exists"],
        exclude_fetch_restricted=opts["fetch_restricted"],
    )

    def drive():
        pclean._initialize_opts(ns)
        pclean._setup_shared_opts(ns)
        pclean._setup_file_opts(ns)
        pclean._setup_restrictions(ns)
        pclean._dist_validate_args(None, ns)
        if case.get("via_remove"):
            old = sys.stdout
            sys.stdout = _TTY()
            try:
                return pclean._remove(ns, _Fmt(), _Fmt())
            finally:
                sys.stdout = old
        for func, target in ns.remove:
            func(target)
        return 0

    cwd = os.getcwd()
    ret = core.guarded(ctx, case, drive)
    after = set(os.listdir(dist))
    removed = before - after
    created = after - before

    # ---- record
    present_keep = [f for f in files if f in keep]
    cl = []
    for k in ("installed", "exists", "fetch_restricted"):
        if opts[k]:
            cl.append("opt:" + k)
    if opts["targets"]:
        cl.append("opt:targets")
        cl.append("targets_match" if targeted else "targets_match_nothing")
    if opts["excludes"]:
        cl.append("opt:excludes")
    if xfile is not None:
        cl.append("opt:exclude_file")
        if opts["excludes"]:
            cl.append("opt:excludes+exclude_file")
    for k in ("installed", "exists", "fetch_restricted"):
        if opts[k] and opts["targets"]:
            cl.append(f"opt:{k}+targets")
        if opts[k] and all_excl:
            cl.append(f"opt:{k}+excludes")
    if opts["modified"] is not None:
        cl.append("opt:modified")
    if opts["size"] is not None:
        cl.append("opt:size")
    if removed:
        cl.append("something_removed")
    if present_keep:
        cl.append("must_keep_present")
    cond_off = set()
    for p in repo_pkgs:
        cond_off.update(set(names_of(p)) - set(enabled_names(p["pn"], p["ver"], p["style"], p.get("use", ()))))
    for p in repo_pkgs:  # a file another package needs unconditionally is not "only behind a disabled flag"
        cond_off.difference_update(enabled_names(p["pn"], p["ver"], p["style"], p.get("use", ())))
    if any(f in cond_off for f in present_keep):
        cl.append("must_keep_only_behind_disabled_use_flag")
    if case.get("configured", True):
        cl.append("repo:configured")
    at_stake = [f for f in present_keep if opts["targets"] and f not in tfiles and any(s and f.lower().startswith(s) for s in stems)]
    if at_stake:
        cl.append("foreign_must_keep_file_resembles_target")
    ctx.case(case, nontrivial=bool(removed) and bool(present_keep), classes=cl)
    if core.crashed(ret):
        return
    if ret != 0:
        ctx.violation("remove:nonzero-exit", case, f"_remove returned {ret}")

    # ---- oracle
    tg = "targets" if opts["targets"] else "no-targets"
    for f in sorted(removed):
        if f not in files:
            ctx.violation("removed-non-distfile-entry", case, f"{f!r} (not a regular file of distdir) disappeared")
            continue
        for why in sorted(keep.get(f, ())):
            others = "+".join(sorted(k for k in ("installed", "exists", "fetch_restricted") if opts[k] and k.replace("_", "-") != why))
            ctx.violation(
                f"removed-needed:{why}:{tg}",
                case,
                f"{f!r} was removed although it is a distfile of a package protected by {why} (other active protections: {others or 'none'})"
                + ("; it is listed only behind a USE flag that is disabled for the package" if f in cond_off else ""),
            )
        size, mt = files[f]
        if opts["size"] is not None and size > opts["size"]:
            ctx.violation("filter:size", case, f"{f!r} has {size} bytes > --size {opts['size']} but was removed")
        if opts["modified"] is not None and mt > opts["modified"]:
            ctx.violation("filter:modified", case, f"{f!r} was modified after the --modified time but was removed")
        if opts["targets"]:
            if f not in tfiles and not any(f.lower().startswith(s) for s in stems):
                ctx.violation("removed-unselected", case, f"{f!r} is unrelated to the targeted packages {[p['cat'] + '/' + p['pn'] for p in targeted]}")
    if created:
        ctx.violation("created-entries", case, f"new entries in distdir: {sorted(created)}")
    if not os.path.exists(os.path.join(dist, "subdir", "foo-1.tar.gz")):
        ctx.violation("removed-non-distfile-entry", case, "file inside a subdirectory of distdir was removed")
    if os.getcwd() != cwd:
        os.chdir(cwd)


# ---- generation ------------------------------------------------------------------------

def pkg_strategy(with_restrict):
    d = {
        "cat": st.sampled_from(CATS[:2] + ["cat"]),
        "pn": st.sampled_from(NAMES),
        "ver": st.sampled_from(VERS),
        "style": st.sampled_from(STYLES),
    }
    if with_restrict:
        d["restrict"] = st.sampled_from(["", "", "fetch", "mirror", "fetch mirror", "test"])
        d["use"] = st.sampled_from([[], [], ["doc"], ["gui"], ["doc", "gui"]])
    return st.fixed_dictionaries(d)


@st.composite
def world(draw):
    repo = draw(st.lists(pkg_strategy(True), min_size=1, max_size=7))
    # installed: some repo packages (same cpv => same distfiles), some others
    inst = []
    for p in repo:
        if draw(st.integers(0, 3)) == 0:
            inst.append({k: p[k] for k in ("cat", "pn", "ver", "style")})
    inst += draw(st.lists(pkg_strategy(False), max_size=3))
    repo_u = uniq_pkgs(repo)
    # distdir: files of repo / installed packages (likely present: they are what is at stake), old versions,
    # look-alikes, junk
    cur_files, old_files = [], []
    for p in repo_u + uniq_pkgs(inst):
        cur_files += distfile_names(p["pn"], p["ver"], p["style"])[1]
        for v in ("0.1", "3"):
            old_files += distfile_names(p["pn"], v, p["style"] if p["style"] != "none" else "tgz")[1]
    junk = ["junk.txt", "foo-bar-9.tar.gz", "Foo_1.zip", "foobar-1.tar.gz", "9base-1.tar.gz", "foo-1.tar.gz.__download__", "v9.tar.gz", "FOO-3.tgz"]
    files = []
    seen = set()
    for group, odds in ((cur_files, [True, True, True, False]), (old_files, [True, False, False]), (junk, [True, False, False, False])):
        for f in group:
            if f in seen:
                continue
            seen.add(f)
            if draw(st.sampled_from(odds)):
                files.append([f, draw(st.sampled_from(SIZES)), draw(st.sampled_from(MTIMES))])
    if not files:
        files.append(["junk.txt", 10, 0])

    def expr():
        p = draw(st.sampled_from(repo_u))
        form = draw(st.sampled_from(["cp", "cp", "cp", "pn", "=", ">=", "<", "cat*", "other"]))
        if form == "cp":
            return f"{p['cat']}/{p['pn']}"
        if form == "pn":
            return p["pn"]
        if form == "cat*":
            return f"{p['cat']}/*"
        if form == "other":
            return f"{draw(st.sampled_from(CATS))}/{draw(st.sampled_from(NAMES))}"
        return f"{form}{p['cat']}/{p['pn']}-{p['ver']}"

    ntarg = draw(st.sampled_from([0, 0, 1, 1, 1, 2]))
    targets = [expr() for _ in range(ntarg)]
    nex = draw(st.sampled_from([0, 0, 0, 1, 2]))
    excludes = [expr() for _ in range(nex)]
    nxf = draw(st.sampled_from([None, None, None, 1, 1, 2]))
    xfile = None if nxf is None else [expr() for _ in range(nxf)]
    opts = {
        "targets": targets,
        "excludes": excludes,
        "exclude_file": xfile,
        "installed": draw(st.sampled_from([True, False])),
        "exists": draw(st.sampled_from([True, False])),
        "fetch_restricted": draw(st.sampled_from([True, False])),
        "modified": draw(st.sampled_from([None, None, None, None, 500, 1000, 2000, 2500])),
        "size": draw(st.sampled_from([None, None, None, None, 11, 1024, 2048])),
    }
    return {
        "repo": repo,
        "installed": inst,
        "files": files,
        "opts": opts,
        "via_remove": draw(st.booleans()),
        "configured": draw(st.sampled_from([True, True, True, False])),
    }


GRID_PAIRS = [("foo", "foo-bar"), ("py", "py-x")]
GRID_SLICES = 8


def grid_cases():
    """deterministic look-alike scenarios: package A is what targets name, B = A-something is the look-alike whose
    distfiles pclean's name heuristic also selects; B-0 is installed but gone from the tree; app-x/zed is installed
    only and (style `shared`) needs a distfile that A also lists."""
    for a, b in GRID_PAIRS:
        for style in ("tgz", "shared"):
            repo = [
                {"cat": "cat", "pn": a, "ver": "1", "style": style, "restrict": ""},
                {"cat": "cat", "pn": b, "ver": "1", "style": "cond", "restrict": "fetch", "use": []},
                {"cat": "cat", "pn": "bar", "ver": "2", "style": "cond2", "restrict": "", "use": ["gui"]},
            ]
            inst = [
                {"cat": "cat", "pn": b, "ver": "0.9", "style": "tgz"},
                {"cat": "cat", "pn": a, "ver": "1", "style": style},
                {"cat": "app-x", "pn": "zed", "ver": "1", "style": "shared"},
            ]
            names = []
            for p in repo + inst:
                names += distfile_names(p["pn"], p["ver"], p["style"])[1]
            names += [f"{a}-0.1.tar.gz", f"{b}-0.1.tar.gz", "junk.txt"]
            files = []
            for n in names:
                if n not in [f[0] for f in files]:
                    files.append([n, 10, 0])
            for mask in range(8):
                for targets in ([], [f"cat/{a}"], [a], [f"=cat/{a}-1"]):
                    for xs in ([], [f"cat/{b}"], ["cat/bar"]):
                        for xf in (None, [f"cat/{b}"], ["cat/bar"]):
                            yield {
                                "repo": repo,
                                "installed": inst,
                                "files": files,
                                "opts": {
                                    "targets": targets,
                                    "excludes": xs,
                                    "exclude_file": xf,
                                    "installed": bool(mask & 1),
                                    "exists": bool(mask & 2),
                                    "fetch_restricted": bool(mask & 4),
                                    "modified": None,
                                    "size": None,
                                },
                                "via_remove": False,
                            }


def plan(tier, seed):
    # warm import: forked task workers inherit it (costs a few seconds of the guard once instead of once per task;
    # the grid and the first hypothesis chunk of every task do not depend on the guard). pkgcore.ebuild.processor
    # installs SIGTERM/SIGINT handlers at import time; the handlers of the runner process are put back.
    import signal

    saved = {sig: signal.getsignal(sig) for sig in (signal.SIGTERM, signal.SIGINT)}
    import pkgcore.scripts.pclean  # noqa: F401
    import pkgcore.test.misc  # noqa: F401

    for sig, h in saved.items():
        signal.signal(sig, h)

    tasks = [{"task": "grid", "slice": i, "nslices": GRID_SLICES} for i in range(GRID_SLICES)]
    if tier == "quick":
        tasks += [{"task": "hyp", "examples": 450} for _ in range(8)]
    else:
        tasks += [{"task": "hyp", "examples": 9000} for _ in range(32)]
    return tasks


FIRST_CHUNK = 30


def run_task(ctx, task, **kw):
    if task == "grid":
        n = 0
        for i, case in enumerate(grid_cases()):
            if i % kw["nslices"] == kw["slice"]:
                if n % 2:
                    case = dict(case, via_remove=True)
                run_case(ctx, case)
                n += 1
        ctx.note("grid_cases", n)
        ctx.note("grid_complete", True)
    elif task == "hyp":
        # the first small chunk always runs: the wall-clock guard only bounds what comes after it
        deadline, ctx.deadline = ctx.deadline, None
        try:
            first = min(FIRST_CHUNK, kw["examples"])
            core.hyp_run(ctx, world(), lambda c: run_case(ctx, c), first, chunk=first, seed_salt=7)
        finally:
            ctx.deadline = deadline
        core.hyp_run(ctx, world(), lambda c: run_case(ctx, c), kw["examples"] - first, chunk=50)
    else:
        raise core.HarnessError(f"unknown task {task}")


def replay(ctx, case):
    run_case(ctx, case)


def shrink_case(ctx, bucket, case):
    """greedy structural shrink: drop packages / files / options while the bucket is still hit"""

    def hits(c):
        sub = core.Ctx(ctx.pid, ctx.tier, ctx.seed)
        sub._scratch = ctx.scratch
        try:
            run_case(sub, c)
        except Exception:  # noqa: BLE001  (a shrink candidate outside the domain)
            return False
        return bucket in sub.violations

    import copy

    cur = copy.deepcopy(case)
    changed = True
    while changed:
        changed = False
        cands = []
        for key in ("repo", "installed", "files"):
            for i in range(len(cur[key])):
                c = copy.deepcopy(cur)
                del c[key][i]
                if key == "repo" and not c["repo"]:
                    continue
                cands.append(c)
        for key in ("targets", "excludes"):
            for i in range(len(cur["opts"][key])):
                c = copy.deepcopy(cur)
                del c["opts"][key][i]
                cands.append(c)
        if cur["opts"].get("exclude_file") is not None:
            c = copy.deepcopy(cur)
            c["opts"]["exclude_file"] = None
            cands.append(c)
        for key in ("installed", "exists", "fetch_restricted"):
            if cur["opts"][key]:
                c = copy.deepcopy(cur)
                c["opts"][key] = False
                cands.append(c)
        for key in ("modified", "size"):
            if cur["opts"][key] is not None:
                c = copy.deepcopy(cur)
                c["opts"][key] = None
                cands.append(c)
        if cur.get("via_remove"):
            c = copy.deepcopy(cur)
            c["via_remove"] = False
            cands.append(c)
        for i, p in enumerate(cur["repo"]):
            if p.get("restrict"):
                c = copy.deepcopy(cur)
                c["repo"][i]["restrict"] = ""
                cands.append(c)
            if p.get("use"):
                c = copy.deepcopy(cur)
                c["repo"][i]["use"] = []
                cands.append(c)
            if p["style"] != "tgz":
                c = copy.deepcopy(cur)
                c["repo"][i]["style"] = "tgz"
                cands.append(c)
        for i, f in enumerate(cur["files"]):
            if f[1] != 10 or f[2] != 0:
                c = copy.deepcopy(cur)
                c["files"][i] = [f[0], 10, 0]
                cands.append(c)
        for c in cands:
            if hits(c):
                cur = c
                changed = True
                break
    return cur
