"""C07 Restrictions that compare equal are interchangeable.

For a pair of independently constructed restrictions (r1, r2), built from harness-side JSON descriptors
(vf/gen/restrpairs.py) as equal-looking variants or single-field mutations of each other:

  eq       r1 == r2 (evaluated before and after hashing, either direction)  =>
             hash(r1) == hash(r2)                                   bucket hash:<type>:<what differs>
             r1.match(x) == r2.match(x) for every x of the universe   bucket match:<type>:<what differs>
             caching_repo(db).match(r1) followed by .match(r2) returns exactly the packages r2 itself matches
                                                                     bucket cache:caching_repo:<type>:<what differs>
  isolated the match vector of r2 built while nothing else is alive equals the match vector of r2 built while r1 is
           alive (the WeaklyCached instance cache is keyed by the constructor arguments, i.e. by child restrictions --
           it is a restriction-keyed cache)                          bucket instcache:<type>:<what differs>

and for REQUIRED_USE DepSets (parsed exactly as ebuild_src.required_use does): equal DepSets have equal hashes and
accept the same USE sets; find_constraint_satisfaction (lru_cache keyed by the DepSet) yields for d2 the same solution
set whether or not an equal/similar d1 was compiled before (bucket required_use:cached-solutions:*).  The solution
set is also compared with a brute-force evaluation of the harness' own AST (PMS semantics of || ^^ ?? flag? ( )), but a
difference there is only *counted* (counter solver_differs_from_bruteforce): what the solver should answer is C06/C09/C10's
business, not this property's.  Operator groups are generated with >= 2 members (single-member groups are collapsed
by DepSet.parse -- C09's finding).

The oracle never says which restrictions *should* be equal; it only holds the implementation to the consequences of
its own `==`.  `<type>`/`<what differs>` come from the generator (innermost node that was varied), never from pkgcore.

Observed but outside the statement (counter eq_changed_by_hashing): values._HashedGenericEquality puts the lazily
cached `_hash` first in __attr_comparison__, so StrExactMatch("a") == StrExactMatch("a", case_sensitive=True) is True,
becomes False after hash() of only one of them, and True again after hashing both.  Equality is therefore evaluated before
and after hashing and a pair counts as equal if either says so.

Simplifications vs DESIGN.md: AlwaysBool, Negate, AnyMatch, EqualityMatch use identity equality (nothing to check)
and are not generated; the "second tier" identity-hash classes (FunctionRestriction, FlatteningRestriction,
StrConversion) are generated and reported like the others since the statement covers value matchers.
"""
import re


from .. import core
from ..gen import restrpairs as RP

ID = "C07"
TITLE = "Restrictions that compare equal are interchangeable"
LEVEL = "exploration"
TECHNIQUE = "metamorphic: r1==r2 => equal hash and equal match vector over a bounded universe; cache-state independence of match / query / REQUIRED_USE solutions; hypothesis pairs of equal-looking variants"
DESIGN_REF = "DESIGN.md §3 C07"
LEVEL_TEXT = (
    "Generated-input search: hypothesis pairs of restriction descriptors (version/slot/USE/category/package/repository deps, "
    "PackageRestriction over Str*/Containment matchers, value matchers, And/Or/JustOne/AtMostOne trees, atoms, REQUIRED_USE "
    "DepSets) built as equal-looking variants (argument spelling, complementary operator + negate, negate moved between "
    "wrapper and value, revision spelling, reordered USE deps / members, weak vs strong blocker) or single-field mutations; "
    "equal pairs are compared by hash and by match results over 30 packages / all small value sets, and cached results are "
    "compared with uncached ones."
)
LEVEL_NOTE = "Trusted: the value universes are rich enough to separate restrictions that differ semantically (30 packages, 17 strings, all subsets of 3 flags). No proof of absence."
RULE = (
    "pairs (d1, d2) of JSON restriction descriptors: d2 = copy / other constructor spelling / equal-looking rewrite / one "
    "field changed (95%), independent (5%); r2 is built with or without the instance cache. non-trivial = r1 == r2 and "
    "r1 is not r2 (an equal pair of distinct objects) -- or, for REQUIRED_USE, d1 == d2 with different text; distinct = "
    "distinct (d1, d2, cache flag) JSON"
)
ASSUMPTIONS = [
    "match() of a restriction is only called with values of its domain (packages / strings / flag collections / (iuse, use) pairs)",
    "REQUIRED_USE reference semantics: || any, ^^ exactly one, ?? at most one, flag? ( ) implication, ( ) all; no conditionals inside ||/^^/??",
]
BUDGET = {"quick": 50, "thorough": 900}


class Env:
    def __init__(self):
        self.B = RP.Builder()
        self.pkgs = RP.package_universe()
        self.univ = {"pkg": self.pkgs}
        for dom in ("str", "coll", "iu", "nested"):
            self.univ[dom] = RP.value_universe(dom)
        from pkgcore.repository.misc import caching_repo
        from pkgcore.test.misc import FakeRepo

        self.caching_repo, self.FakeRepo = caching_repo, FakeRepo

    def vec(self, r, dom):
        return tuple(bool(r.match(x)) for x in self.univ[dom])


def _kids(d):
    if "children" in d:
        return list(d["children"])
    if "child" in d:
        return [d["child"]]
    return []


def node_label(d1, d2):
    """<type>:<fields of this node that differ> -- from the descriptors only"""
    t = d1["t"] if d1["t"] == d2["t"] else f"{d1['t']}~{d2['t']}"
    if d1["t"] == d2["t"] == "atom":
        from . import c02

        fa, fb = c02._fields_from_spec("atom", [d1["text"], d1["nv"]]), c02._fields_from_spec("atom", [d2["text"], d2["nv"]])
        keys = RP.G.diff_fields(fa, fb)
    else:
        keys = sorted(k for k in set(d1) | set(d2) if k not in ("children", "child", "sp", "t") and d1.get(k) != d2.get(k))
    if len(_kids(d1)) != len(_kids(d2)):
        keys.append("arity")
    return f"{t}:{'+'.join(keys) or 'same'}"


def localise(env, law, d1, d2):
    """bucket label = deepest pair of corresponding nodes that still exhibits the violated law (root cause), so that
    a wrapper around a defective child is not blamed"""
    if d1["t"] == d2["t"]:
        k1, k2 = _kids(d1), _kids(d2)
        if len(k1) == len(k2):
            for c1, c2 in zip(k1, k2):
                if _exhibits(env, law, c1, c2):
                    return localise(env, law, c1, c2)
    return node_label(d1, d2)


def _exhibits(env, law, c1, c2):
    try:
        a, b = env.B.build(c1), env.B.build(c2, True)
        if not (a == b or b == a):
            return False
        if law == "hash":
            return hash(a) != hash(b)
        dom = RP.domain(c1)
        return dom == RP.domain(c2) and env.vec(a, dom) != env.vec(b, dom)
    except Exception:  # noqa: BLE001 -- only used to choose a label
        return False


def diffpath(d1, d2):
    """label of the deepest node where the two descriptors start to differ"""
    if d1["t"] == d2["t"]:
        k1, k2 = _kids(d1), _kids(d2)
        if len(k1) == len(k2) and node_label(d1, d2).endswith(":same"):
            diff = [(a, b) for a, b in zip(k1, k2) if a != b]
            if len(diff) == 1:
                return diffpath(*diff[0])
    return node_label(d1, d2)


def check_pair(ctx, env, kind, d1, d2, nocache2):
    s1, s2 = RP.strip(d1), RP.strip(d2)
    case = {"d1": s1, "d2": s2, "nocache2": bool(nocache2)}
    dom1, dom2 = RP.domain(d1), RP.domain(d2)
    st_ = {"eq": False, "same": False}

    def body():
        B = env.B
        # -- r2 in isolation -------------------------------------------------------------------------------------
        r2a = B.build(s2, nocache2)
        v2_alone = env.vec(r2a, dom2)
        del r2a
        # -- r1 alive, then r2 -----------------------------------------------------------------------------------
        r1 = B.build(s1)
        v1 = env.vec(r1, dom1)  # before r2 exists: atoms build their restriction tuple lazily on first use
        r2 = B.build(s2, nocache2)
        v2 = env.vec(r2, dom2)
        if v2 != v2_alone:
            i = next(i for i, (x, y) in enumerate(zip(v2, v2_alone)) if x != y)
            _viol(ctx, f"instcache:{diffpath(s1, s2)}", case,
                          f"{r2} matches universe[{i}]={_show(env.univ[dom2][i])} -> {v2[i]} while r1={r1} is alive, but {v2_alone[i]} when built alone")
        eq_before = bool(r1 == r2) or bool(r2 == r1)
        h1, h2 = hash(r1), hash(r2)
        eq_after = bool(r1 == r2) or bool(r2 == r1)
        if eq_before != eq_after:
            ctx.count("eq_changed_by_hashing")
        eq = eq_before or eq_after
        st_["eq"], st_["same"] = eq, r1 is r2
        if not eq:
            return
        if h1 != h2:
            _viol(ctx, f"hash:{localise(env, 'hash', s1, s2)}", case, f"{r1!r} == {r2!r} but hashes differ")
        if dom1 != dom2:
            ctx.count("equal_across_domains")
            return
        if v1 != v2:
            i = next(i for i, (x, y) in enumerate(zip(v1, v2)) if x != y)
            _viol(ctx, f"match:{localise(env, 'match', s1, s2)}", case,
                          f"{r1} == {r2} but match({_show(env.univ[dom1][i])}) is {v1[i]} vs {v2[i]}")
        if dom1 == "pkg":
            cr = env.caching_repo(env.FakeRepo(pkgs=env.pkgs), iter)
            list(cr.match(r1))
            got = [str(p) for p in cr.match(r2)]
            want = [str(p) for p, m in zip(env.pkgs, v2_alone) if m]
            if got != want:
                _viol(ctx, f"cache:caching_repo:{diffpath(s1, s2)}", case,
                              f"caching_repo.match(r2) after match(r1) returned {got[:4]}.. ({len(got)}), r2 alone matches {want[:4]}.. ({len(want)})")

    res = core.guarded(ctx, case, body)
    cl = [f"t:{s1['t']}", f"kind:{kind if '+' not in kind else 'multi'}"]
    if st_["eq"]:
        cl.append("equal")
        cl.append("equal-distinct-objects" if not st_["same"] else "equal-same-object")
    ctx.case(case, nontrivial=st_["eq"] and not st_["same"], classes=cl)
    return res


def _show(x):
    s = str(x)
    return s if len(s) < 60 else s[:57] + "..."


_ADDR = re.compile(r"\s*(?:@\s*#?|at )(?:0x)?[0-9a-f]{6,}")


def _viol(ctx, bucket, case, msg):
    ctx.violation(bucket, case, _san(msg))


def _san(msg):
    """object addresses out of messages: reports must not differ between runs"""
    return _ADDR.sub("", msg)


# ---- REQUIRED_USE ----------------------------------------------------------------------------------------------------

class RUEnv:
    def __init__(self):
        from pkgcore.ebuild import conditionals
        from pkgcore.restrictions import boolean, required_use, values

        self.required_use = required_use
        ops = {"||": boolean.OrRestriction, "": boolean.AndRestriction, "^^": boolean.JustOneRestriction,
               "??": boolean.AtMostOneOfRestriction}

        def mk(data):  # ebuild_src.base._mk_required_use_node
            if data[0] == "!":
                return values.ContainmentMatch(data[1:], negate=True)
            return values.ContainmentMatch(data)

        self.parse = lambda s: conditionals.DepSet.parse(s, values.ContainmentMatch, operators=ops, element_func=mk, attr="REQUIRED_USE")
        self.subsets = [frozenset(f for i, f in enumerate(RP.RU_FLAGS) if (m >> i) & 1) for m in range(2 ** len(RP.RU_FLAGS))]

    def sols(self, d):
        out = set()
        for sol in self.required_use.find_constraint_satisfaction(d, set(RP.RU_FLAGS)):
            out.add(frozenset(k for k, v in sol.items() if v))
        return out

    def accepts(self, d):
        out = []
        for S in self.subsets:
            ev = d.evaluate_depset(S)
            out.append(all(n.match(S) for n in ev))
        return tuple(out)


def check_ru(ctx, env, kind, n1, n2):
    s1, s2 = RP.ru_render(n1), RP.ru_render(n2)
    case = {"ru1": s1, "ru2": s2, "kind": kind, "ast2": n2}
    st_ = {"eq": False}

    def body():
        cc = env.required_use._compiled_constraints
        d2a = env.parse(s2)
        cc.cache_clear()
        sol_alone = env.sols(d2a)
        del d2a
        cc.cache_clear()
        d1, d2 = env.parse(s1), env.parse(s2)
        eq = bool(d1 == d2) or bool(d2 == d1)
        st_["eq"] = eq
        env.sols(d1)
        sol2 = env.sols(d2)
        fmt = lambda ss: sorted("".join(sorted(x)) or "-" for x in ss)
        if sol2 != sol_alone:
            _viol(ctx, f"required_use:cached-solutions:{kind}", case,
                          f"solutions of ru2 after compiling ru1: {fmt(sol2)}; alone: {fmt(sol_alone)}")
        ref = {S for S in env.subsets if RP.ru_eval(n2, S)}
        if sol_alone != ref:
            # semantics of the solver itself are not this property's business (C06/C09); measured, not judged
            ctx.count("solver_differs_from_bruteforce")
        if eq:
            if hash(d1) != hash(d2):
                _viol(ctx, f"hash:depset:{kind}", case, "DepSets compare equal but hashes differ")
            a1, a2 = env.accepts(d1), env.accepts(d2)
            if a1 != a2:
                _viol(ctx, f"match:depset:{kind}", case, "equal DepSets accept different USE sets")

    core.guarded(ctx, case, body)
    ctx.case(case, nontrivial=st_["eq"] and s1 != s2, classes=["t:required_use", f"ru:{kind}"] + (["equal"] if st_["eq"] else []))


# ---- histories of queries through ONE caching_repo -----------------------------------------------------------------

def check_history(ctx, env, hist):
    """restrictions are created, queried and (mostly) dropped again; every answer of the caching repo must be what the
    restriction of *that* query matches (brute force over the universe).  After a drop the next restriction is
    re-allocated until it lands on a previously freed address (class id_reused) when that happens within a few tries."""
    import gc

    hist = [[RP.strip(d), bool(drop), bool(nc)] for d, drop, nc in hist]
    case = {"history": hist}
    st_ = {"reused": 0, "distinct": len({core.jdump(h[0]) for h in hist})}

    def body():
        cr = env.caching_repo(env.FakeRepo(pkgs=env.pkgs), iter)
        freed = set()
        keep = []
        for step, (d, drop, nc) in enumerate(hist):
            r = env.B.build(d, nc)
            if freed and id(r) not in freed:
                # allocate/free until an old address comes back (bounded); the misses are parked so the allocator moves on
                parked = []
                for _ in range(12):
                    parked.append(r)
                    r = env.B.build(d, True)
                    if id(r) in freed:
                        break
                del parked
            if id(r) in freed:
                st_["reused"] += 1
                freed.discard(id(r))
            got = [str(p) for p in cr.match(r)]
            want = [str(p) for p in env.pkgs if r.match(p)]
            if got != want:
                _viol(ctx, "cache:caching_repo:history", case,
                      f"step {step}: caching_repo.match({r}) returned {got[:4]}.. ({len(got)}), the restriction matches {want[:4]}.. ({len(want)})")
                return
            if drop:
                freed.add(id(r))
                del r
                gc.collect(0)
            else:
                keep.append(r)

    core.guarded(ctx, case, body)
    ctx.case(case, nontrivial=st_["reused"] > 0 and st_["distinct"] > 1,
             classes=["t:history"] + (["id_reused"] if st_["reused"] else []))


# ---- curated pairs (always run; the shapes named in the property text) ------------------------------------------------

def curated():
    vm = lambda op, ver, rev=None, neg=False, revk="none", t="vm", sp=0: {"t": t, "op": op, "ver": ver, "rev": rev, "revk": revk, "neg": neg, "sp": sp}
    out = []
    for op, comp in (("<", ">="), (">", "<="), ("<=", ">"), (">=", "<")):
        out.append(("vm/complement", vm(op, "1.0", "1", True), vm(comp, "1.0", "1")))
    out.append(("vm/flipneg", vm("~", "1.0", None, True), vm("~", "1.0")))
    out.append(("vm/flipneg", vm("=", "1.0", None, True), vm("=", "1.0")))
    for a, b in ((None, "0"), ("0", "00"), ("1", "01")):
        out.append(("vm/revspell", vm("=", "1", a, revk="Rev"), vm("=", "1", b, revk="Rev")))
        out.append(("vm/revspell", vm("=", "1", a), vm("=", "1", b)))
    for im in (True, False):
        out.append(("uddc/if_missing", {"t": "uddc", "if_missing": im, "vals": ["a"], "neg": False, "sp": 0},
                    {"t": "uddc", "if_missing": not im, "vals": ["a"], "neg": False, "sp": 0}))
        out.append(("usedepdefault/if_missing", {"t": "usedepdefault", "if_missing": im, "false": ["b"], "true": ["a"], "sp": 0},
                    {"t": "usedepdefault", "if_missing": not im, "false": ["b"], "true": ["a"], "sp": 0}))
    at = lambda text, nv=False: {"t": "atom", "text": text, "nv": nv, "sp": 0}
    for a, b, k in (("c/p[a(+),-b(+)]", "c/p[a(-),-b(-)]", "atom/use"), ("c/p[a,b]", "c/p[b,a]", "atom/use-order"),
                    ("!c/p", "!!c/p", "atom/blk-strength"), ("~c/p-1", "~c/p-1", "atom/copy"), ("=c/p-1.0", "=c/p-1.00", "atom/verspell"),
                    ("c/p[a(+)]", "c/p[a(-)]", "atom/use"), ("c/p:0/1", "c/p:0/2", "atom/sub")):
        out.append((k, at(a), at(b)))
    out.append(("atom/nv", at("~c/p-1", True), at("~c/p-1")))
    for t in ("func",):
        out.append(("func/respell", {"t": t, "f": "upper", "neg": False, "sp": 0}, {"t": t, "f": "upper", "neg": False, "sp": 1}))
    se = {"t": "strexact", "s": "a", "cs": True, "neg": False, "sp": 0}
    out.append(("strconv/copy", {"t": "strconv", "child": se}, {"t": "strconv", "child": se}))
    co = {"t": "contain", "vals": ["a"], "all": False, "neg": False, "bare": False, "sp": 0}
    out.append(("flatten/respell", {"t": "flatten", "child": co, "neg": False, "sp": 0}, {"t": "flatten", "child": co, "neg": False, "sp": 1}))
    out.append(("strexact/cs", se, dict(se, cs=False)))
    for kind_ in ("and", "or", "justone", "atmost"):
        for dom, kid in (("pkg", {"t": "catdep", "v": "c", "neg": False, "sp": 0}), ("str", se)):
            tree = {"t": "bool", "kind": kind_, "dom": dom, "children": [kid, dict(kid, neg=True)], "neg": False, "sp": 0}
            for inc in (0, 1, 2):
                out.append(("bool/incremental", tree, dict(tree, inc=inc)))
    out.append(("pkgr/moveneg", {"t": "pkgr", "attr": "slot", "child": se, "neg": True, "sp": 0},
                {"t": "pkgr", "attr": "slot", "child": dict(se, neg=True), "neg": False, "sp": 0}))
    return out


# ---- plan ------------------------------------------------------------------------------------------------------------

def plan(tier, seed):
    tasks = [{"task": "curated"}]
    for i in range(2 if tier == "quick" else 8):
        tasks.append({"task": "hist", "examples": 500 if tier == "quick" else 4000})
    if tier == "quick":
        for i in range(9):
            tasks.append({"task": "hyp", "examples": 1100})
        for i in range(4):
            tasks.append({"task": "ru", "examples": 600})
    else:
        for i in range(16):
            tasks.append({"task": "hyp", "examples": 10000})
        for i in range(8):
            tasks.append({"task": "ru", "examples": 4000})
    return tasks


def run_task(ctx, task, **kw):
    if task == "curated":
        env = Env()
        for kind, d1, d2 in curated():
            for nocache2 in (False, True):
                check_pair(ctx, env, kind, d1, d2, nocache2)
        ru = RUEnv()
        A, Bf, nA = ("flag", "a", False), ("flag", "b", False), ("flag", "a", True)
        for kind, n1, n2 in (("reorder", [A, Bf], [Bf, A]), ("duplicate", [A], [A, A]),
                             ("reorder", [("||", [A, Bf]), ("?", "c", False, [nA])], [("?", "c", False, [nA]), ("||", [A, Bf])]),
                             ("mutate", [("^^", [A, Bf])], [("??", [A, Bf])])):
            check_ru(ctx, ru, kind, n1, n2)
    elif task == "hyp":
        env = Env()
        core.hyp_run(ctx, RP.desc_pair(), lambda t: check_pair(ctx, env, t[0], t[1], t[2], t[3]), kw["examples"], chunk=400)
    elif task == "hist":
        env = Env()
        core.hyp_run(ctx, RP.query_history(), lambda h: check_history(ctx, env, h), kw["examples"], chunk=250, seed_salt=5)
    elif task == "ru":
        ru = RUEnv()
        core.hyp_run(ctx, RP.ru_pair(), lambda t: check_ru(ctx, ru, t[0], t[1], t[2]), kw["examples"], chunk=350)
    else:
        raise core.HarnessError(f"unknown task {task}")


def replay(ctx, case):
    if "history" in case:
        check_history(ctx, Env(), case["history"])
        return
    if "ru1" in case:
        # ru1 is only text; rebuild its AST is unnecessary: parse text directly, reference uses ast2
        env = RUEnv()
        n2 = case["ast2"]

        class _Txt(list):
            pass

        # check_ru renders from ASTs; re-render must reproduce the stored text
        if RP.ru_render(n2) != case["ru2"]:
            raise core.HarnessError("replay: ast2 does not render to ru2")
        n1 = case.get("ast1")
        if n1 is None:
            n1 = _parse_ru_text(case["ru1"])
        check_ru(ctx, env, case.get("kind", "replay"), n1, n2)
        return
    check_pair(ctx, Env(), "replay", case["d1"], case["d2"], case.get("nocache2", False))


def _parse_ru_text(s):
    toks = s.split()
    pos = 0

    def seq():
        nonlocal pos
        out = []
        while pos < len(toks) and toks[pos] != ")":
            t = toks[pos]
            pos += 1
            if t in ("||", "^^", "??", "("):
                if t != "(":
                    pos += 1
                kids = seq()
                pos += 1
                out.append(["()" if t == "(" else t, kids])
            elif t.endswith("?"):
                neg = t[0] == "!"
                pos += 1
                kids = seq()
                pos += 1
                out.append(["?", t.strip("!?"), neg, kids])
            else:
                out.append(["flag", t.lstrip("!"), t[0] == "!"])
        return out

    return seq()
