"""C23 Merge-time permission hardening never lets unsafe modes through.

A content set (files, dirs, fifos, device nodes, symlinks; every mode-bit combination; owners root / build user /
other) is handed to a real `MergeEngine.install(...)` as the package's contents, the four permission triggers are
registered in a generated order (`fix_uid_perms(uid=BAD_UID)`, `fix_gid_perms(gid=BAD_GID)`, `fix_set_bits()`,
`detect_world_writable(fix_perms=...)`; explicit ids because this host has no `portage` user and the defaults
collapse to 0) and `engine.pre_merge()` is executed.  `engine.csets['new_cset']` is then compared entry by entry with
expectations computed from the *input spec* (not from pkgcore objects):

  safety   no non-symlink entry has (mode & 0o6000) and (mode & 0o002)
  owner    uid == BAD_UID -> 0, gid == BAD_GID -> 0, every other owner unchanged
  frame    same key set (location incl. engine offset), same entry class, symlink target, file data object,
           device numbers, mtime unchanged; mode bits outside 0o6002 unchanged; an entry that was not unsafe keeps
           its setuid/setgid bits; o+w is never added and is removed only from unsafe entries or when
           detect_world_writable(fix_perms=True) is registered; symlink modes untouched
  no trigger exception was swallowed by the engine (recording observer; the engine turns trigger exceptions into
  warnings, which would silently skip the hardening)

Dropped w.r.t. DESIGN.md: "entries not needing a fix are the same objects" (identity is not in the statement).
"""
import itertools
import random

from hypothesis import strategies as st

from .. import core

ID = "C23"
TITLE = "Merge-time permission hardening never lets unsafe modes through"
LEVEL = "exploration"
TECHNIQUE = "bounded-exhaustive mode/type/owner grid + hypothesis content sets through MergeEngine pre_merge; postcondition + frame oracle from the input spec"
DESIGN_REF = "DESIGN.md §3 C23"
LEVEL_TEXT = (
    "Every entry of a mode x type x owner grid (quick: 96 modes, thorough: all 4096) plus hypothesis-generated content "
    "sets are passed through a real install engine's pre_merge stage with the four permission triggers in generated "
    "orders/configurations; the resulting new_cset is checked against safety, ownership and frame conditions."
)
LEVEL_NOTE = "Trusted: expectations in this module. Trigger order/config space is sampled (seeded), the entry grid is enumerated."
RULE = (
    "case = content set (1-8 entries) + config (trigger registration order, fix_perms, engine offset, observer, bad ids); "
    "grid task enumerates mode x type x uid-class x gid-class, hypothesis task draws random sets with arbitrary 12-bit "
    "modes; non-trivial = at least one entry needs a fix (setid+o+w on a non-symlink, or owned by the bad uid/gid); "
    "distinct = distinct case JSON"
)
ASSUMPTIONS = [
    "entries carry explicit mode/uid/gid as produced by livefs scans of an install image",
    "the build user/group ids are passed explicitly to fix_uid_perms/fix_gid_perms (no portage user on this host)",
    "all four permission triggers are registered (any order); detect_world_writable with either fix_perms value",
]
BUDGET = {"quick": 50, "thorough": 900}

TYPES = ["file", "dir", "fifo", "dev", "sym"]
TRIGGERS = ["uid", "gid", "setbits", "dww"]
QUICK_PERMS = [0o000, 0o002, 0o006, 0o003, 0o644, 0o646, 0o755, 0o757, 0o775, 0o777, 0o700, 0o702]
OFFSETS = [None, None, "/", "/var/tmp/img root", "/o/"]


def own_norm(p):
    out = []
    for c in p.split("/"):
        if c in ("", "."):
            continue
        if c == "..":
            if out:
                out.pop()
            continue
        out.append(c)
    return "/" + "/".join(out)


class RecOutput:
    def __init__(self):
        self.msgs = []

    def warn(self, msg, *a, **kw):
        self.msgs.append(("warn", msg))

    def error(self, msg, *a, **kw):
        self.msgs.append(("error", msg))

    def info(self, msg, *a, **kw):
        self.msgs.append(("info", msg))

    def debug(self, msg, *a, **kw):
        pass

    def write(self, msg, *a, **kw):
        pass

    def flush(self):
        pass


class Pkg:
    def __init__(self, contents):
        self.contents = contents

    def __str__(self):
        return "verif/c23-1"


def needs(spec, cfg):
    """list of fixes the entry needs (the non-trivial rule)"""
    n = []
    if spec["t"] != "sym" and (spec["mode"] & 0o6000) and (spec["mode"] & 0o002):
        n.append("unsafe-setid-ww")
    if spec["uid"] == cfg["bad_uid"]:
        n.append("bad-uid")
    if spec["gid"] == cfg["bad_gid"]:
        n.append("bad-gid")
    return n


def build_entry(fs, spec, i, datas):
    kw = dict(mode=spec["mode"], uid=spec["uid"], gid=spec["gid"], mtime=1000 + i, strict=False)
    t, p = spec["t"], spec["p"]
    if t == "file":
        from snakeoil.data_source import data_source

        d = datas[i] = data_source(f"data-{i}".encode())
        return fs.fsFile(p, data=d, **kw)
    if t == "dir":
        return fs.fsDir(p, **kw)
    if t == "fifo":
        return fs.fsFifo(p, **kw)
    if t == "dev":
        return fs.fsDev(p, major=4, minor=i % 200, **kw)
    return fs.fsSymlink(p, f"../target {i}", **kw)


def check_case(ctx, case):
    from pkgcore.fs import contents, fs
    from pkgcore.merge import engine as eng, triggers
    from pkgcore.operations import observer as obs_mod

    entries, cfg = case["entries"], case["cfg"]
    classes = set()
    anyfix = False
    for s in entries:
        n = needs(s, cfg)
        anyfix |= bool(n)
        classes.update(n)
        classes.add("t:" + s["t"])
        if s["t"] != "sym" and (s["mode"] & 0o002) and not (s["mode"] & 0o6000):
            classes.add("ww-only")
        if s["mode"] & 0o1000:
            classes.add("sticky")
    classes.add("order:" + "".join(x[0] for x in cfg["order"]))
    classes.add("fix_perms" if cfg["fix_perms"] else "report-only")
    classes.add("offset" if cfg["offset"] not in (None, "/") else "no-offset")
    classes.add("observer" if cfg["observer"] else "no-observer")
    ctx.case(case, nontrivial=anyfix, classes=sorted(classes))

    datas = {}
    objs = [build_entry(fs, s, i, datas) for i, s in enumerate(entries)]
    keys = [o.location for o in objs]
    if len(set(keys)) != len(keys):
        raise core.HarnessError("duplicate paths in a generated content set")
    rec = RecOutput()
    observer = obs_mod.repo_observer(rec) if cfg["observer"] else None

    def run():
        pkg = Pkg(contents.contentsSet(objs))
        e = eng.MergeEngine.install(ctx.scratch, pkg, offset=cfg["offset"], observer=observer, disable_plugins=True)
        mk = {
            "uid": lambda: triggers.fix_uid_perms(uid=cfg["bad_uid"]),
            "gid": lambda: triggers.fix_gid_perms(gid=cfg["bad_gid"]),
            "setbits": lambda: triggers.fix_set_bits(),
            "dww": lambda: triggers.detect_world_writable(fix_perms=cfg["fix_perms"]),
        }
        for name in cfg["order"]:
            mk[name]().register(e)
        if len(e.hooks["pre_merge"]) != len(cfg["order"]):
            ctx.violation("register:not-hooked", case, f"pre_merge hooks: {e.hooks['pre_merge']!r}")
        e.pre_merge()
        return e.csets["new_cset"]

    res = core.guarded(ctx, case, run)
    if core.crashed(res):
        return
    for kind, msg in rec.msgs:
        if "unhandled exception" in msg:
            last = [l for l in msg.strip().splitlines() if l.strip()][-1]
            ctx.violation(f"trigger-exception:{last.split(':')[0].strip()}", case, msg[-600:])

    off = cfg["offset"] or "/"
    want = {}
    for s, o in zip(entries, objs):
        want[own_norm(off + "/" + s["p"])] = (s, o)
    got = {x.location: x for x in res}
    if set(got) != set(want):
        ctx.violation("frame:keys", case, f"locations after pre_merge {sorted(got)} expected {sorted(want)}")
        return
    for k, (s, o) in want.items():
        a = got[k]
        t = s["t"]
        tag = f"{t} {k!r} mode={s['mode']:o} uid={s['uid']} gid={s['gid']}"
        if type(a) is not type(o):
            ctx.violation("frame:type", case, f"{tag}: became {a!r}")
            continue
        am = a.mode
        if t != "sym" and (am & 0o6000) and (am & 0o002):
            ctx.violation("safety:setid-world-writable", case, f"{tag}: mode after pre_merge {am:o}")
        exp_uid = 0 if s["uid"] == cfg["bad_uid"] else s["uid"]
        exp_gid = 0 if s["gid"] == cfg["bad_gid"] else s["gid"]
        if a.uid != exp_uid:
            ctx.violation("owner:uid", case, f"{tag}: uid after pre_merge {a.uid}, expected {exp_uid} (bad uid {cfg['bad_uid']})")
        if a.gid != exp_gid:
            ctx.violation("owner:gid", case, f"{tag}: gid after pre_merge {a.gid}, expected {exp_gid} (bad gid {cfg['bad_gid']})")
        m = s["mode"]
        unsafe = t != "sym" and (m & 0o6000) and (m & 0o002)
        if t == "sym":
            if am != m:
                ctx.violation("frame:symlink-mode", case, f"{tag}: mode became {am:o}")
            if a.target != o.target:
                ctx.violation("frame:target", case, f"{tag}: target {o.target!r} became {a.target!r}")
        else:
            if (am & ~0o6002) != (m & ~0o6002):
                ctx.violation("frame:mode-other-bits", case, f"{tag}: mode became {am:o}")
            if not unsafe and (am & 0o6000) != (m & 0o6000):
                ctx.violation("frame:setid-bits-of-safe-entry", case, f"{tag}: mode became {am:o}")
            if (am & 0o002) and not (m & 0o002):
                ctx.violation("frame:ww-added", case, f"{tag}: mode became {am:o}")
            if (m & 0o002) and not (am & 0o002) and not (unsafe or cfg["fix_perms"]):
                ctx.violation("frame:ww-removed", case, f"{tag}: mode became {am:o} without fix_perms")
        if a.mtime != o.mtime:
            ctx.violation("frame:mtime", case, f"{tag}: mtime {o.mtime} became {a.mtime}")
        if t == "file" and a.data is not o.data:
            ctx.violation("frame:data", case, f"{tag}: data object replaced")
        if t == "dev" and (a.major, a.minor) != (o.major, o.minor):
            ctx.violation("frame:device-numbers", case, f"{tag}: {o.major},{o.minor} became {a.major},{a.minor}")


# ---------------------------------------------------------------- generation

NAMES = ["usr/bin/su", "tmp", "var/lock x", "etc/passwd", "usr/lib/é.so", "dev/null0", "run/f.fifo", "a//b/./c"]


def cfg_from_rnd(rnd):
    order = TRIGGERS[:]
    rnd.shuffle(order)
    bad_uid, bad_gid = rnd.choice([(250, 250), (250, 251), (1000, 5), (7, 250)])
    return {
        "order": order,
        "fix_perms": rnd.random() < 0.4,
        "offset": rnd.choice(OFFSETS),
        "observer": rnd.random() < 0.5,
        "bad_uid": bad_uid,
        "bad_gid": bad_gid,
    }


def owner_classes(cfg):
    """root / bad / other ids for uid and gid (other never equals bad or 0; also crossed: gid value == bad uid)"""
    return [0, cfg["bad_uid"], cfg["bad_gid"] + 1000], [0, cfg["bad_gid"], cfg["bad_uid"] + 1000]


def grid(modes):
    for mode, t, ui, gi in itertools.product(modes, TYPES, range(3), range(3)):
        yield mode, t, ui, gi


def cfg_strategy():
    return st.fixed_dictionaries(
        {
            "order": st.permutations(TRIGGERS),
            "fix_perms": st.booleans(),
            "offset": st.sampled_from(OFFSETS),
            "observer": st.booleans(),
            "bad_uid": st.sampled_from([250, 1000, 7]),
            "bad_gid": st.sampled_from([250, 5, 251]),
        }
    )


@st.composite
def case_strategy(draw):
    cfg = draw(cfg_strategy())
    n = draw(st.integers(0, 8))
    uids = [0, cfg["bad_uid"], cfg["bad_gid"], 1, 65534]
    gids = [0, cfg["bad_gid"], cfg["bad_uid"], 1, 65534]
    entries = []
    for i in range(n):
        special = draw(st.integers(0, 7)) << 9
        perm = draw(st.one_of(st.sampled_from(QUICK_PERMS), st.integers(0, 0o777)))
        entries.append(
            {
                "t": draw(st.sampled_from(TYPES)),
                "p": f"/{NAMES[i]}",
                "mode": special | perm,
                "uid": draw(st.sampled_from(uids)),
                "gid": draw(st.sampled_from(gids)),
            }
        )
    return {"entries": entries, "cfg": cfg}


def plan(tier, seed):
    if tier == "quick":
        t = [{"task": "grid", "slice": i, "nslices": 4, "full": False, "per": 5, "cfgs": 8} for i in range(4)]
        t += [{"task": "hyp", "examples": 600} for _ in range(4)]
        return t
    t = [{"task": "grid", "slice": i, "nslices": 48, "full": True, "per": 8, "cfgs": 3} for i in range(48)]
    t += [{"task": "hyp", "examples": 15000} for _ in range(16)]
    return t


def run_task(ctx, task, **kw):
    if task == "grid":
        if kw["full"]:
            modes = list(range(0o10000))
        else:
            modes = [(sp << 9) | p for sp in range(8) for p in QUICK_PERMS]
        # the RNG only selects which trigger order/config of the finite config space each grid cell is run under
        rnd = random.Random(ctx.seed * 7919 + kw["slice"])
        cells = [c for i, c in enumerate(grid(modes)) if i % kw["nslices"] == kw["slice"]]
        per = kw["per"]
        done_all = True
        for i in range(0, len(cells), per):
            if ctx.out_of_time():
                done_all = False
                break
            chunk = cells[i:i + per]
            for _ in range(kw["cfgs"]):
                cfg = cfg_from_rnd(rnd)
                U, G = owner_classes(cfg)
                entries = [
                    {"t": t, "p": f"/{NAMES[j]}", "mode": mode, "uid": U[ui], "gid": G[gi]}
                    for j, (mode, t, ui, gi) in enumerate(chunk)
                ]
                check_case(ctx, {"entries": entries, "cfg": cfg})
        ctx.note("grid_exhaustive", done_all)
        ctx.note("grid_modes", len(modes))
        ctx.note("grid_cells", len(cells))
    elif task == "hyp":
        core.hyp_run(ctx, case_strategy(), lambda c: check_case(ctx, c), kw["examples"], chunk=300)
    else:
        raise core.HarnessError(f"unknown task {task}")


def replay(ctx, case):
    check_case(ctx, case)


def shrink_case(ctx, bucket, case):
    import copy

    def buckets(c):
        x = core.Ctx(ID, "quick", 0)
        try:
            check_case(x, c)
            return set(x.violations)
        finally:
            x.cleanup()

    cur = copy.deepcopy(case)
    if bucket not in buckets(cur):
        return None
    i = 0
    while i < len(cur["entries"]):
        cand = copy.deepcopy(cur)
        del cand["entries"][i]
        if bucket in buckets(cand):
            cur = cand
        else:
            i += 1
    for fld, val in (("offset", None), ("observer", False), ("fix_perms", False)):
        if cur["cfg"][fld] != val:
            cand = copy.deepcopy(cur)
            cand["cfg"][fld] = val
            if bucket in buckets(cand):
                cur = cand
    return cur
