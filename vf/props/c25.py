"""C25 Binary package tarballs round-trip their contents.

A case is a JSON tree spec (dirs, files with data, hardlink groups, symlinks, symlinked directories with children,
chains of such symlinks, fifos, char/block devices; arbitrary mode/uid/gid/mtime; names with spaces, non-ASCII, > 100
and > 256 characters).  It is turned into a contents set in one of three ways and sent through the tar code:

  synthetic  fs objects built directly (data_source bytes, explicit dev/inode) - the only way to have children
             *below* a symlink or devices with arbitrary numbers;
  disk       the tree is materialised under the scratch dir (os.link, mkfifo, mknod, lchown, utime) and scanned with
             `livefs.scan(img, offset=img)` exactly as a build image is - real st_dev/st_ino, local_source data;
  foreign    the archive is written by the *stdlib* tarfile module (independent writer: name styles "./p", "p", "/p",
             hardlink chains x->y->z, a "./" root member, PAX or GNU format) and only read by pkgcore.

Writer/reader under test: `write_set(cset, path, compressor="bzip2", parallelize=True)` + `generate_contents(path)`
(the binpkg repo calls), or, for the uncompressed variant (snakeoil.compression has no "none"),
`add_contents_to_tarfile(cset, TarFile(mode="w"))` + `convert_archive(TarFile(mode="r"))`.

Oracle (computed from the spec only): the set of output paths equals the spec paths after relocating every entry
that lies below a symlink of the archive to that symlink's (lexically) resolved target, repeated until no proper
prefix of any path is a symlink (what `contentsSet.map_directory_structure` does for a live merge), plus possibly
missing ancestor *directories*; per entry type, mode, uid, gid, mtime, symlink target, device numbers and file bytes
are equal; two files share (dev, inode) in the output iff they were hardlinked in the input.  Empty contents set,
an archive holding an empty (compressed) stream -> empty set.  Writer half: the archive pkgcore wrote is also read
with the stdlib tarfile module (one member per entry, stored bytes, link members only inside a hardlink group); when
that already fails the reader comparison is skipped (derived).  Each write/read runs under a 20 s SIGALRM so that a
non-terminating relocation loop is reported (crash:CaseTimeout@...) instead of hanging the check.

Dropped/simplified w.r.t. DESIGN.md: symlink resolution is lexical (normpath), like pkgcore's `resolved_target`;
specs are built so that no two entries resolve to the same final path and symlink graphs are acyclic (both are
detected by the reference and such a case is only checked for "no crash").  A zero-byte file is not a valid bzip2
stream; for it EOFError/ReadError are accepted besides the empty set.  Only the "size" checksum handler is enabled
on the file objects (real scans enable every handler, which costs ~10 threads per file; tar.py only reads "size").
"""
import bz2
import os
import random
import signal
import stat
import tarfile as std_tarfile

from hypothesis import strategies as st

from .. import core

ID = "C25"
TITLE = "Binary package tarballs round-trip their contents"
LEVEL = "exploration"
TECHNIQUE = (
    "seed-expanded tree specs -> contents set (synthetic objects / livefs scan of a real tree / stdlib-tarfile written "
    "archive) -> write_set+generate_contents (bzip2) or add_contents_to_tarfile+convert_archive (plain); oracle = spec "
    "with an independent symlinked-directory resolver"
)
DESIGN_REF = "DESIGN.md §3 C25"
LEVEL_TEXT = (
    "Generated-input search: random tree specs are written and read back through the tar code along three routes "
    "(synthetic contents sets, scanned on-disk trees, archives produced by the stdlib tarfile writer) and compared "
    "entry by entry with expectations derived from the spec, including inode sharing and relocation below symlinked "
    "directories; fixed empty-archive cases."
)
LEVEL_NOTE = (
    "Trusted: the path resolver and comparison in this module; the stdlib tarfile writer for the 'foreign' route; "
    "os.lstat for the mtimes of on-disk trees. Sampling, no proof."
)
RULE = (
    "case = tree spec of 1-14 entries (thorough up to 30) + route (synthetic/disk/foreign) + compressor (bzip2/none) + "
    "writer options; non-trivial = the spec has a hardlink group of >= 3 files or a symlinked directory with children; "
    "distinct = distinct case JSON"
)
ASSUMPTIONS = [
    "paths are absolute, normalised, valid Unicode; contents sets hold at most one entry per path",
    "symlink graphs are acyclic and no two entries resolve to the same final path (otherwise only 'no crash' is checked)",
    "symlinked directories are resolved lexically (normpath), as pkgcore's fsLink.resolved_target does",
    "files sharing (dev, inode) with equal uid/gid/mode/mtime are hardlinks; files without inode information are independent files",
    "device numbers fit the ustar header fields (major < 4096, minor < 2**20)",
    "the check runs as root (mknod, lchown)",
]
BUDGET = {"quick": 50, "thorough": 900}

# ---------------------------------------------------------------------------------------------------------------
# reference: symlinked-directory resolution


class OutOfDomain(Exception):
    pass


def _norm(p):
    n = os.path.normpath(p)
    return "/" + n.lstrip("/") if n.startswith("//") else n


def ref_final_paths(entries):
    """{spec path: final path}; raises OutOfDomain for symlink loops / colliding final paths"""
    syms = {e["path"]: e["target"] for e in entries if e["type"] == "sym"}

    def rtarget(loc, t):
        return _norm(t) if t.startswith("/") else _norm(os.path.join(loc, "..", t))

    def relocate(path, symmap):
        hops = 0
        while True:
            parts = path.split("/")[1:]
            for i in range(1, len(parts)):
                pre = "/" + "/".join(parts[:i])
                if pre in symmap:
                    path = _norm(symmap[pre].rstrip("/") + "/" + "/".join(parts[i:]))
                    hops += 1
                    if hops > 40:
                        raise OutOfDomain("symlink loop")
                    break
            else:
                return path, hops

    loc = {p: p for p in syms}
    symhops = {p: 0 for p in syms}
    symmap = {}
    for _ in range(40):
        symmap = {loc[p]: rtarget(loc[p], syms[p]) for p in syms}
        if len(symmap) != len(syms):
            raise OutOfDomain("two symlinks at one final location")
        new = {}
        for p in syms:
            new[p], h = relocate(loc[p], symmap)
            symhops[p] += h
        if new == loc:
            break
        loc = new
    else:
        raise OutOfDomain("symlink locations do not settle")
    final, hops = {}, {}
    for e in entries:
        p = e["path"]
        if p in syms:
            final[p], hops[p] = loc[p], symhops[p]
        else:
            final[p], hops[p] = relocate(p, symmap)
    if len(set(final.values())) != len(final):
        raise OutOfDomain("colliding final paths")
    return final, hops


# ---------------------------------------------------------------------------------------------------------------
# generator (all randomness from one hypothesis-drawn integer, expanded deterministically)

NAMES = ["a", "b", "lib", "lib64", "usr", "bin", "share", "with space", " lead", "trail ", "x  y", "->", "a -> b", "#c", "ü", "日本語",
         "é", "\U0001f600", "dot.ext", ".hidden", "UPPER", "-dash", "tab\tname", "q'uote", 'd"q']
LONG = ["L" * 101, "m" * 150 + " z", "ñ" * 90, "deep" * 60]


def _name(rnd, i):
    r = rnd.random()
    if r < 0.04:
        base = rnd.choice(LONG)
    else:
        base = rnd.choice(NAMES)
    return f"{base}{i}"


def _attrs(rnd, t):
    special = rnd.random() < 0.15
    if t == "sym":
        mode = 0o777
    elif t == "dir":
        mode = rnd.choice([0o755, 0o700, 0o775, 0o1777, 0o2755, 0o555])
    else:
        mode = rnd.choice([0o644, 0o600, 0o755, 0o4755, 0o2711, 0o444, 0o666, 0o000, 0o7777])
    uid = rnd.choice([0, 0, 1, 250, 1000, 65534]) if not special else rnd.choice([2097151, 2097152, 2**31 - 1, 4294967294])
    gid = rnd.choice([0, 0, 5, 250, 1000, 65534]) if not special else rnd.choice([2097152, 99999999, 2**31 - 1])
    k = rnd.randint(0, 3)
    if k == 0:
        mtime = rnd.choice([0, 1, 2**31 - 1, 2**31, 2**33 + 1, 1700000000])
    elif k == 1:
        mtime = rnd.randint(0, 2**32)
    else:
        mtime = rnd.randint(0, 2**32 * 1000) / 1000.0 + rnd.choice([0, 0.000001, 0.123456789])
    return {"mode": mode, "uid": uid, "gid": gid, "mtime": mtime}


def _data(rnd):
    k = rnd.random()
    if k < 0.12:
        n = 0
    elif k < 0.75:
        n = rnd.randint(1, 120)
    elif k < 0.93:
        n = rnd.choice([511, 512, 513, 1024, 1500])
    elif k < 0.985:
        n = rnd.randint(2000, 9000)
    else:
        n = 70000
    chunk = "".join(chr(rnd.randint(0, 255)) for _ in range(min(n, 64)))
    if n <= 64:
        return chunk
    return {"rep": [chunk, n]}


def data_bytes(d):
    if isinstance(d, dict):
        chunk, n = d["rep"]
        b = chunk.encode("latin-1")
        return (b * (n // len(b) + 1))[:n]
    return d.encode("latin-1")


def gen_spec(rnd, maxn, route):
    """entries in insertion order. route decides which shapes are possible."""
    ents = []
    dirs = ["/"]  # plain directories (spec paths)
    idx = [0]
    below_ok = route != "disk"  # children below a symlink cannot exist on a real filesystem

    def nm():
        idx[0] += 1
        return _name(rnd, idx[0])

    def join(d, n):
        return (d.rstrip("/") + "/" + n)

    def add(e):
        ents.append(e)
        return e

    ndirs = rnd.randint(0, max(1, maxn // 3))
    for _ in range(ndirs):
        p = join(rnd.choice(dirs), nm())
        # sometimes the directory entry itself is absent from the set (missing ancestor)
        if route == "disk" or rnd.random() > 0.2:
            add(dict(path=p, type="dir", **_attrs(rnd, "dir")))
        dirs.append(p)
    real_dirs = list(dirs)
    symdirs = []  # (sym path, hops to a plain dir)
    budget = rnd.randint(1, maxn)
    grp = 0
    while budget > 0:
        budget -= 1
        r = rnd.random()
        parents = dirs + ([s for s, _ in symdirs] * 2 if below_ok else [])
        parent = rnd.choice(parents)
        if r < 0.30:
            add(dict(path=join(parent, nm()), type="file", data=_data(rnd), **_attrs(rnd, "file")))
        elif r < 0.50:
            # hardlink group
            n = rnd.choice([2, 2, 3, 3, 4, 5])
            grp += 1
            a = _attrs(rnd, "file")
            d = _data(rnd)
            for _ in range(n):
                add(dict(path=join(rnd.choice(parents), nm()), type="file", data=d, grp=grp, **a))
            budget -= n - 1
        elif r < 0.58:
            # plain symlink (to a file name, dangling, or a directory without children below it)
            tgt = rnd.choice(["f", "../x/y", "/abs/t", nm(), "a b", "dir/"])
            add(dict(path=join(parent, nm()), type="sym", target=tgt, **_attrs(rnd, "sym")))
        elif r < 0.80:
            # symlinked directory: points to a plain directory or (chain) to another symlinked directory
            if symdirs and rnd.random() < 0.4:
                dest, h = rnd.choice(symdirs)
                h += 1
            else:
                dest, h = rnd.choice(real_dirs[1:] or ["/t0"]), 1
                if rnd.random() < 0.2:
                    dest = join(dest, nm())  # target directory that is not in the set at all
            sp = join(parent, nm())
            style = rnd.randint(0, 2)
            if style == 0:
                tgt = dest  # absolute
            else:
                tgt = os.path.relpath(dest, os.path.dirname(sp))
                if style == 2 and not tgt.startswith(".."):
                    tgt = "./" + tgt
            add(dict(path=sp, type="sym", target=tgt, **_attrs(rnd, "sym")))
            symdirs.append((sp, h))
            if below_ok:
                for _ in range(rnd.randint(1, 3)):
                    k = rnd.random()
                    cp = join(sp, nm())
                    if k < 0.6:
                        add(dict(path=cp, type="file", data=_data(rnd), **_attrs(rnd, "file")))
                    elif k < 0.8:
                        add(dict(path=cp, type="dir", **_attrs(rnd, "dir")))
                        dirs.append(cp)
                    else:
                        add(dict(path=cp, type="fifo", **_attrs(rnd, "fifo")))
                    budget -= 1
        elif r < 0.88:
            add(dict(path=join(parent, nm()), type="fifo", **_attrs(rnd, "fifo")))
        elif r < 0.93:
            t = rnd.choice(["chr", "blk"])
            if route == "disk":
                major, minor = rnd.choice([(1, 3), (1, 5), (7, 0), (8, 17), (254, 255), (0, 0)])
            else:
                major, minor = rnd.choice([(1, 3), (8, 17), (254, 255), (0, 0), (259, 1), (4095, 2**20 - 1), (136, 70000)])
            add(dict(path=join(parent, nm()), type=t, major=major, minor=minor, **_attrs(rnd, "dev")))
        else:
            # empty directory / extra file
            p = join(parent, nm())
            add(dict(path=p, type="dir", **_attrs(rnd, "dir")))
            dirs.append(p)
    if route == "disk":
        # every parent must be a real entry on disk, order = creation order
        have = {e["path"] for e in ents}
        extra = []
        for e in ents:
            d = os.path.dirname(e["path"])
            while d != "/" and d not in have:
                have.add(d)
                extra.append(dict(path=d, type="dir", **_attrs(rnd, "dir")))
                d = os.path.dirname(d)
        ents = sorted(extra, key=lambda e: e["path"].count("/")) + ents
        for e in ents:
            e["mode"] &= 0o7777
            if e["type"] == "sym":
                e["mode"] = 0o777
    else:
        order = rnd.random()
        if order < 0.3:
            rnd.shuffle(ents)
        # synthetic-only inode oddities
        if route == "synthetic":
            for e in ents:
                if e["type"] == "file" and "grp" not in e:
                    k = rnd.random()
                    if k < 0.12:
                        e["noino"] = True
            groups = sorted({e["grp"] for e in ents if "grp" in e})
            if groups and rnd.random() < 0.1:
                # a file that shares the inode numbers of a group but not its attributes: not a hardlink
                g = rnd.choice(groups)
                add(dict(path="/" + nm(), type="file", data=_data(rnd), clash=g, **_attrs(rnd, "file")))
    return ents


def gen_case(n, maxn):
    rnd = random.Random(n)
    route = rnd.choice(["synthetic", "synthetic", "synthetic", "disk", "foreign", "foreign"])
    case = {"route": route, "compress": rnd.choice(["bzip2", "bzip2", "none"]), "entries": gen_spec(rnd, maxn, route)}
    if route == "foreign":
        case["opts"] = {"names": rnd.choice(["./", "./", "", "/"]), "chain": rnd.random() < 0.6, "rootdir": rnd.random() < 0.3,
                        "format": rnd.choice(["pax", "pax", "gnu"]), "dirslash": rnd.random() < 0.5}
        if case["opts"]["format"] == "gnu":
            for e in case["entries"]:
                e["mtime"] = int(e["mtime"])
                e["uid"] = min(e["uid"], 2097151)
                e["gid"] = min(e["gid"], 2097151)
    return case


# ---------------------------------------------------------------------------------------------------------------
# pkgcore side


# imported once in the runner (workers are forked per task; importing pkgcore in each of them costs seconds on a busy host)
from pkgcore.fs import contents, fs, livefs, tar  # noqa: E402
from pkgcore.fs._tar import tarfile as pk_tarfile  # noqa: E402
from snakeoil import data_source  # noqa: E402


def _mods():
    return {"fs": fs, "contents": contents, "livefs": livefs, "tar": tar, "tarfile": pk_tarfile, "data_source": data_source}


def _devmode(e):
    return (stat.S_IFCHR if e["type"] == "chr" else stat.S_IFBLK) | (e["mode"] & 0o7777)


def build_synthetic(entries, m):
    fs, ds = m["fs"], m["data_source"]
    objs = []
    for e in entries:
        kw = {"mode": e["mode"], "uid": e["uid"], "gid": e["gid"], "mtime": e["mtime"]}
        t = e["type"]
        if t == "dir":
            objs.append(fs.fsDir(e["path"], **kw))
        elif t == "file":
            if e.get("noino"):
                dev = ino = None
            elif "grp" in e:
                dev, ino = 77, 5000 + e["grp"]
            elif "clash" in e:
                dev, ino = 77, 5000 + e["clash"]
            else:
                dev, ino = 77, 100000 + len(objs)
            b = data_bytes(e["data"])
            # explicit size: snakeoil's "size" handler decodes in-memory sources as text
            objs.append(fs.fsFile(e["path"], data=ds.data_source(b), chksums={"size": len(b)}, dev=dev, inode=ino, **kw))
        elif t == "sym":
            objs.append(fs.fsSymlink(e["path"], e["target"], **kw))
        elif t == "fifo":
            objs.append(fs.fsFifo(e["path"], **kw))
        else:
            kw["mode"] = _devmode(e)
            objs.append(fs.fsDev(e["path"], major=e["major"], minor=e["minor"], **kw))
    return m["contents"].contentsSet(objs)


def build_disk(root, entries):
    """materialise; returns {path: measured float mtime}"""
    first = {}
    for e in entries:
        p = root + e["path"]
        t = e["type"]
        if t == "dir":
            os.mkdir(p)
        elif t == "file":
            if "grp" in e and e["grp"] in first:
                os.link(first[e["grp"]], p)
                continue
            with open(p, "wb") as f:
                f.write(data_bytes(e["data"]))
            if "grp" in e:
                first[e["grp"]] = p
        elif t == "sym":
            os.symlink(e["target"], p)
        elif t == "fifo":
            os.mkfifo(p)
        else:
            os.mknod(p, _devmode(e), os.makedev(e["major"], e["minor"]))
        os.lchown(p, e["uid"], e["gid"])
        if t != "sym":
            os.chmod(p, e["mode"])
    # times last (children disturb directory mtimes), deepest first
    for e in sorted(entries, key=lambda e: -e["path"].count("/")):
        ns = int(round(e["mtime"] * 1000)) * 1_000_000
        os.utime(root + e["path"], ns=(ns, ns), follow_symlinks=False)
    return {e["path"]: os.lstat(root + e["path"]).st_mtime for e in entries}


def write_foreign(path, case):
    """independent writer: the stdlib tarfile module"""
    o = case["opts"]
    fmt = std_tarfile.PAX_FORMAT if o["format"] == "pax" else std_tarfile.GNU_FORMAT
    raw = path + ".raw"
    ents = case["entries"]
    # directories of the set first is NOT required of foreign archives; keep spec order but a symlinked directory
    # must precede its children for a meaningful archive (tar would extract in order) - spec order guarantees that
    with std_tarfile.TarFile(raw, mode="w", format=fmt) as tf:
        def name(p):
            return o["names"] + p.lstrip("/")

        if o["rootdir"]:
            ti = std_tarfile.TarInfo("./")
            ti.type = std_tarfile.DIRTYPE
            ti.mode = 0o755
            tf.addfile(ti)
        prev = {}
        import io

        for e in ents:
            ti = std_tarfile.TarInfo(name(e["path"]))
            ti.mode, ti.uid, ti.gid, ti.mtime = e["mode"], e["uid"], e["gid"], e["mtime"]
            t = e["type"]
            data = None
            if t == "dir":
                ti.type = std_tarfile.DIRTYPE
                if o["dirslash"]:
                    ti.name += "/"
            elif t == "file":
                if "grp" in e and e["grp"] in prev:
                    ti.type = std_tarfile.LNKTYPE
                    ti.linkname = name(prev[e["grp"]][-1] if o["chain"] else prev[e["grp"]][0])
                    prev[e["grp"]].append(e["path"])
                else:
                    b = data_bytes(e["data"])
                    ti.size = len(b)
                    data = io.BytesIO(b)
                    if "grp" in e:
                        prev[e["grp"]] = [e["path"]]
            elif t == "sym":
                ti.type = std_tarfile.SYMTYPE
                ti.linkname = e["target"]
            elif t == "fifo":
                ti.type = std_tarfile.FIFOTYPE
            else:
                ti.type = std_tarfile.CHRTYPE if t == "chr" else std_tarfile.BLKTYPE
                ti.devmajor, ti.devminor = e["major"], e["minor"]
                ti.mode = _devmode(e)
            tf.addfile(ti, data)
    if case["compress"] == "bzip2":
        with open(raw, "rb") as f, open(path, "wb") as g:
            g.write(bz2.compress(f.read()))
        os.unlink(raw)
    else:
        os.rename(raw, path)


def _member_path(name):
    return "/" + (name[2:] if name.startswith("./") else name.lstrip("/"))


def writer_half(arch, case, ents, measured):
    """read the pkgcore-written archive with the stdlib tarfile module: one member per entry under ./<path>, same
    type, attributes and bytes; hardlinked files as link members to an earlier member of their group.
    -> (bucket, msg) or None"""
    opener = bz2.open if case["compress"] == "bzip2" else open
    by_path = {e["path"]: e for e in ents}
    seen = {}
    try:
        with opener(arch, "rb") as raw, std_tarfile.open(fileobj=raw, mode="r:") as tf:
            for mem in tf:
                p = _member_path(mem.name)
                e = by_path.get(p)
                if e is None:
                    return "write:unexpected-member", f"archive member {mem.name!r} does not correspond to an entry"
                seen[p] = mem
                if e["type"] == "file":
                    want = data_bytes(e["data"])
                    if mem.isreg():
                        got = tf.extractfile(mem).read()
                        if got != want:
                            kind = "write:data-of-unlinkable-file-dropped" if (e.get("noino") or "clash" in e) else "write:file-data"
                            return kind, f"member {mem.name!r}: {len(want)} bytes {want[:16]!r}.. stored as {len(got)} bytes {got[:16]!r}.."
                    elif mem.islnk():
                        tgt = _member_path(mem.linkname)
                        te = by_path.get(tgt)
                        if te is None or "grp" not in e or te.get("grp") != e["grp"] or tgt not in seen:
                            return "write:hardlink-to-wrong-file", f"member {mem.name!r} is a hardlink to {mem.linkname!r}"
                    else:
                        return "write:member-type", f"member {mem.name!r} for a regular file has type {mem.type!r}"
    except (std_tarfile.TarError, EOFError, OSError) as ex:
        unl = sum(1 for e in ents if e.get("noino")) >= 2 or any("clash" in e for e in ents)
        return ("write:data-of-unlinkable-file-dropped" if unl else "write:corrupt-archive"), f"stdlib tarfile cannot read the archive: {type(ex).__name__}: {ex}"
    missing = sorted(set(by_path) - set(seen))
    if missing:
        unl = sum(1 for e in ents if e.get("noino")) >= 2 or any("clash" in e for e in ents)
        return ("write:data-of-unlinkable-file-dropped" if unl else "write:member-missing"), f"no archive member for {missing[:3]!r}"
    return None


def observe(cset):
    out = {}
    for o in cset:
        d = {"mode": o.mode, "uid": o.uid, "gid": o.gid, "mtime": o.mtime}
        if o.is_reg:
            d["type"] = "file"
            with o.data.bytes_fileobj() as f:
                d["bytes"] = f.read()
            d["ino"] = (o.dev, o.inode)
        elif o.is_dir:
            d["type"] = "dir"
        elif o.is_sym:
            d["type"] = "sym"
            d["target"] = o.target
        elif o.is_fifo:
            d["type"] = "fifo"
        elif o.is_dev:
            d["type"] = "chr" if stat.S_ISCHR(o.mode) else ("blk" if stat.S_ISBLK(o.mode) else "dev?")
            d["major"], d["minor"] = o.major, o.minor
        else:
            d["type"] = type(o).__name__
        if o.location in out:
            d["dup"] = True
        out[o.location] = d
    return out


def classify(case):
    ents = case["entries"]
    cl = {"route_" + case["route"], "compress_" + case["compress"]}
    groups = {}
    for e in ents:
        if "grp" in e:
            groups.setdefault(e["grp"], []).append(e)
    big = max((len(v) for v in groups.values()), default=0)
    if big >= 3:
        cl.add("hardlink_group_ge3")
    elif big == 2:
        cl.add("hardlink_pair")
    syms = {e["path"] for e in ents if e["type"] == "sym"}
    below = [e for e in ents if any(e["path"].startswith(s + "/") for s in syms)]
    if below:
        cl.add("symdir_with_children")
    for e in ents:
        t = e["type"]
        cl.add("type_" + t)
        if len(e["path"]) > 100:
            cl.add("path_gt_100")
        if len(e["path"]) > 256:
            cl.add("path_gt_256")
        if any(ord(c) > 127 for c in e["path"]):
            cl.add("non_ascii")
        if " " in e["path"]:
            cl.add("space_in_path")
        if isinstance(e["mtime"], float) and e["mtime"] != int(e["mtime"]):
            cl.add("fractional_mtime")
        if e["uid"] > 2097151 or e["gid"] > 2097151:
            cl.add("id_exceeds_ustar")
        if t == "file":
            n = len(data_bytes(e["data"]))
            cl.add("file_empty" if n == 0 else ("file_ge_block" if n >= 512 else "file_small"))
        if e.get("noino"):
            cl.add("file_without_inode")
        if "clash" in e:
            cl.add("inode_shared_attrs_differ")
    if sum(1 for e in ents if e.get("noino")) >= 2:
        cl.add("two_files_without_inode")
    if case["route"] == "foreign":
        o = case["opts"]
        cl.add("names_" + {"./": "dotslash", "": "bare", "/": "absolute"}[o["names"]])
        cl.add("format_" + o["format"])
        if o["chain"] and big >= 3:
            cl.add("foreign_hardlink_chain")
    nontriv = big >= 3 or bool(below)
    return cl, nontriv


def check_case(ctx, case, m, record=True):
    ents = case["entries"]
    if getattr(ctx, "_c25_hung", False):
        ctx.count("skipped_after_timeout")  # every further case would cost another CASE_TIMEOUT
        return
    cl, nontriv = classify(case)
    try:
        final, hops = ref_final_paths(ents)
        in_domain = True
    except OutOfDomain:
        final, hops, in_domain = None, None, False
        cl.add("out_of_domain")
    if in_domain and max(hops.values(), default=0) >= 2:
        cl.add("symdir_multi_hop")
    if record:
        ctx.case(case, nontrivial=nontriv and in_domain, classes=sorted(cl))
    tar, pk_tarfile = m["tar"], m["tarfile"]
    d = ctx.fresh_dir("t")
    arch = os.path.join(d, "pkg.tbz2" if case["compress"] == "bzip2" else "pkg.tar")
    measured = None
    handles = []
    try:
        # ---- produce the archive
        if case["route"] == "foreign":
            write_foreign(arch, case)
        else:
            if case["route"] == "disk":
                img = os.path.join(d, "img")
                os.mkdir(img)
                measured = build_disk(img, ents)
                cset = m["livefs"].scan(img, offset=img, chksum_types=("size",))
                if {o.location for o in cset} != {e["path"] for e in ents}:
                    raise core.HarnessError("livefs scan does not match the spec that was materialised")
            else:
                cset = build_synthetic(ents, m)

            def write():
                if case["compress"] == "bzip2":
                    tar.write_set(cset, arch, compressor="bzip2", parallelize=True)
                else:
                    th = pk_tarfile.TarFile(name=arch, mode="w")
                    try:
                        tar.add_contents_to_tarfile(cset, th)
                    finally:
                        th.close()
                return True

            if core.crashed(core.guarded(ctx, case, timed(write))):
                return
            # writer half: the archive as an independent reader (stdlib tarfile) sees it
            bad = writer_half(arch, case, ents, measured)
            if bad:
                ctx.violation(bad[0], case, bad[1])
                return

        # ---- read it back
        def read():
            if case["compress"] == "bzip2":
                got = tar.generate_contents(arch)
            else:
                th = pk_tarfile.TarFile(name=arch, mode="r")
                handles.append(th)
                got = tar.convert_archive(th)
            return observe(got)

        got = core.guarded(ctx, case, timed(read))
        if any(b.startswith("crash:CaseTimeout") for b in ctx.violations):
            ctx._c25_hung = True
        if core.crashed(got) or not in_domain:
            return
        compare(ctx, case, ents, final, hops, got, measured)
    finally:
        for h in handles:
            try:
                h.close()
            except Exception:  # noqa: BLE001
                pass
        _rmtree(d)


class CaseTimeout(Exception):
    """a single write or read did not finish within CASE_TIMEOUT seconds (normal: ~0.03 s)"""


CASE_TIMEOUT = 20


def _alarm(signum, frame):
    raise CaseTimeout(f"no result after {CASE_TIMEOUT}s")


def timed(fn):
    """run fn() under SIGALRM; a hang inside pkgcore surfaces as crash:CaseTimeout@<pkgcore frame> via core.guarded"""
    def run():
        old = signal.signal(signal.SIGALRM, _alarm)
        signal.alarm(CASE_TIMEOUT)
        try:
            return fn()
        finally:
            signal.alarm(0)
            signal.signal(signal.SIGALRM, old)
    return run


def _rmtree(d):
    for base, dirs, files in os.walk(d, topdown=False):
        for n in files:
            os.unlink(os.path.join(base, n))
        for n in dirs:
            p = os.path.join(base, n)
            if os.path.islink(p):
                os.unlink(p)
            else:
                os.rmdir(p)
    os.rmdir(d)


def compare(ctx, case, ents, final, hops, got, measured):
    exp = {}
    for e in ents:
        exp[final[e["path"]]] = e
    exp_paths = set(exp)
    got_paths = set(got)
    ancestors = set()
    for p in exp_paths:
        if not p.startswith("/") or p.startswith("//") or p != os.path.normpath(p):
            raise core.HarnessError(f"reference produced a non-canonical path {p!r}")
        a = os.path.dirname(p)
        while a != "/":
            ancestors.add(a)
            a = os.path.dirname(a)
    missing = sorted(exp_paths - got_paths)
    extra = sorted(p for p in got_paths - exp_paths if not (p in ancestors and got[p]["type"] == "dir"))
    if missing or extra:
        # root cause: relocation below symlinked directories?
        rel = [e for e in ents if final[e["path"]] in missing and hops[e["path"]] > 0]
        if not rel:
            # the final location can exist anyway (re-created as a missing ancestor) while the entry itself was left
            # part-way: recognise it by its (unique) basename among the unexpected paths
            names = {os.path.basename(x) for x in extra}
            rel = [e for e in ents if hops[e["path"]] > 0 and os.path.basename(e["path"]) in names]
        if rel:
            h = max(hops[e["path"]] for e in rel)
            e = rel[0]
            where = [p for p in extra if os.path.basename(p) == os.path.basename(e["path"])]
            ctx.violation("symdir:multi-hop-unresolved" if h >= 2 else "symdir:single-hop-misplaced", case,
                          f"{e['path']!r} should end up at {final[e['path']]!r} ({hops[e['path']]} symlink hop(s)); found at {where!r}")
        elif any(e["path"] != final[e["path"]] for e in ents):
            ctx.violation("symdir:paths", case, f"missing={missing[:3]!r} extra={extra[:3]!r}")
        else:
            ctx.violation("paths:set-differs", case, f"missing={missing[:3]!r} extra={extra[:3]!r}")
        return
    not_dir = sorted(p for p in ancestors - exp_paths if p not in got)
    if not_dir:
        ctx.violation("paths:ancestor-missing", case, f"no directory entry for {not_dir[:3]!r}")
    for p in sorted(exp_paths):
        e, g = exp[p], got[p]
        t = e["type"]
        if g.get("dup"):
            ctx.violation("paths:duplicate", case, f"{p!r} appears twice")
        if g["type"] != t:
            ctx.violation(f"attr:type:{t}", case, f"{p!r}: expected {t}, got {g['type']}")
            continue
        want_mode = _devmode(e) if t in ("chr", "blk") else e["mode"]
        if g["mode"] != want_mode:
            ctx.violation(f"attr:mode:{t}", case, f"{p!r}: mode {want_mode:o} read back as {g['mode']:o}")
        for k in ("uid", "gid"):
            if g[k] != e[k]:
                ctx.violation(f"attr:{k}", case, f"{p!r}: {k} {e[k]} read back as {g[k]!r}")
        want_mtime = measured[e["path"]] if measured is not None else e["mtime"]
        if g["mtime"] != want_mtime:
            kind = "seconds" if int(g["mtime"]) != int(want_mtime) else "fraction"
            ctx.violation(f"attr:mtime-{kind}", case, f"{p!r}: mtime {want_mtime!r} read back as {g['mtime']!r}")
        if t == "sym" and g["target"] != e["target"]:
            ctx.violation("attr:target", case, f"{p!r}: target {e['target']!r} read back as {g['target']!r}")
        if t in ("chr", "blk") and (g["major"], g["minor"]) != (e["major"], e["minor"]):
            ctx.violation("attr:device-numbers", case, f"{p!r}: {e['major']},{e['minor']} read back as {g['major']},{g['minor']}")
        if t == "file":
            want = data_bytes(e["data"])
            if g["bytes"] != want:
                if "grp" in e:
                    b = "data:hardlinked-file"
                else:
                    b = "data:plain-file"
                ctx.violation(b, case, f"{p!r}: {len(want)} bytes {want[:24]!r}.. read back as {len(g['bytes'])} bytes {g['bytes'][:24]!r}..")
    # inode sharing
    files = [(p, exp[p]) for p in sorted(exp_paths) if exp[p]["type"] == "file"]
    for i, (p1, e1) in enumerate(files):
        for p2, e2 in files[i + 1:]:
            linked = "grp" in e1 and e1.get("grp") == e2.get("grp")
            same = got[p1]["ino"] == got[p2]["ino"] and None not in got[p1]["ino"]
            if linked and not same:
                ctx.violation("hardlink:split", case, f"{p1!r} and {p2!r} were hardlinked, read back with inodes {got[p1]['ino']} / {got[p2]['ino']}")
                return
            if same and not linked:
                ctx.violation("hardlink:merged", case, f"{p1!r} and {p2!r} were independent files, read back sharing inode {got[p1]['ino']}")
                return


# ---------------------------------------------------------------------------------------------------------------
# empty archives


def check_empty(ctx, variant, m):
    case = {"empty": variant}
    ctx.case(case, nontrivial=False, classes=["empty_" + variant])
    tar, pk_tarfile = m["tar"], m["tarfile"]
    d = ctx.fresh_dir("e")
    p = os.path.join(d, "e.tbz2")
    accept = ()
    try:
        if variant == "empty-cset-bzip2":
            if core.crashed(core.guarded(ctx, case, lambda: tar.write_set(m["contents"].contentsSet([]), p, compressor="bzip2", parallelize=True) or True)):
                return
            reader = lambda: tar.generate_contents(p)  # noqa: E731
        elif variant == "empty-cset-plain":
            def w():
                th = pk_tarfile.TarFile(name=p, mode="w")
                tar.add_contents_to_tarfile(m["contents"].contentsSet([]), th)
                th.close()
                return True
            if core.crashed(core.guarded(ctx, case, w)):
                return
            reader = lambda: tar.convert_archive(pk_tarfile.TarFile(name=p, mode="r"))  # noqa: E731
        elif variant == "empty-stream-bzip2":
            with open(p, "wb") as f:
                f.write(bz2.compress(b""))
            reader = lambda: tar.generate_contents(p)  # noqa: E731
        elif variant == "zero-byte-file":
            open(p, "wb").close()
            reader = lambda: tar.generate_contents(p)  # noqa: E731
            accept = (EOFError, pk_tarfile.ReadError)
        else:
            raise core.HarnessError(variant)
        try:
            got = core.guarded(ctx, case, reader, expected=accept)
        except accept:
            ctx.count("zero_byte_rejected_cleanly")
            return
        if core.crashed(got):
            return
        n = len(list(got))
        if n:
            ctx.violation("empty:not-empty", case, f"{variant}: read back {n} entries")
    finally:
        _rmtree(d)


EMPTY_VARIANTS = ["empty-cset-bzip2", "empty-cset-plain", "empty-stream-bzip2", "zero-byte-file"]
SEEDS = st.integers(0, 2**64 - 1)


def plan(tier, seed):
    tasks = [{"task": "empty"}]
    if tier == "quick":
        for _ in range(15):
            tasks.append({"task": "trees", "examples": 100, "maxn": 14})
    else:
        for _ in range(31):
            tasks.append({"task": "trees", "examples": 2500, "maxn": 30})
    return tasks


def run_task(ctx, task, **kw):
    m = _mods()
    if task == "empty":
        for v in EMPTY_VARIANTS:
            check_empty(ctx, v, m)
    elif task == "trees":
        core.hyp_run(ctx, SEEDS, lambda n: check_case(ctx, gen_case(n, kw["maxn"]), m), kw["examples"], chunk=50)
    else:
        raise core.HarnessError(f"unknown task {task}")


def shrink_case(ctx, bucket, case):
    """greedy: drop entries / simplify while the same bucket is still reported"""
    if "entries" not in case:
        return None
    m = _mods()

    def hits(c):
        sub = core.Ctx(ID, ctx.tier, ctx.seed)
        try:
            check_case(sub, c, m, record=False)
        except Exception:  # noqa: BLE001 - a candidate that breaks the harness is simply not taken
            return False
        finally:
            sub.cleanup()
        return bucket in sub.violations

    cur = case
    if not hits(cur):
        return None
    changed = True
    while changed:
        changed = False
        for i in range(len(cur["entries"]) - 1, -1, -1):
            cand = dict(cur, entries=cur["entries"][:i] + cur["entries"][i + 1:])
            if cand["entries"] and hits(cand):
                cur, changed = cand, True
    for i, e in enumerate(cur["entries"]):
        for k, v in (("data", "x"), ("uid", 0), ("gid", 0), ("mtime", 1), ("mode", 0o777 if e["type"] == "sym" else 0o644)):
            if k in e and e[k] != v:
                ents = [dict(x) for x in cur["entries"]]
                for x in ents:
                    if x is ents[i] or ("grp" in e and x.get("grp") == e["grp"]):
                        x[k] = v
                cand = dict(cur, entries=ents)
                if hits(cand):
                    cur = cand
    return cur


def replay(ctx, case):
    m = _mods()
    if "empty" in case:
        check_empty(ctx, case["empty"], m)
    else:
        check_case(ctx, case, m)
