"""C35 The Python/daemon command protocol never deadlocks or desynchronizes.

The harness owns the peer.  `vf/ref/ebd_model.py` is a message-level model of the bash daemon
(main loop, phase loop, metadata subshell, die, signal handlers) written from the bash source.  The
*unmodified* Python side (EbuildProcessor and the callers that own its error handling:
request/release pool, reuse_or_request, run_generic_phase, _RegenOpHelper, IpcCommand, inherit
handler, ebd._request_bashrcs) runs against in-memory pipe endpoints driven by the model; the only
seams are at the OS boundary (`processor.os/spawn/signal` replaced by proxies: pipe/fdopen give the
in-memory endpoints, waitpid/killpg act on the model process, the SIGALRM itimer is virtual) and a
subclass that *observes* expect() calls.  The real __init__ handshake runs against the model too.

Generated (hypothesis): request programs (pooled get_keys / get_ebuild_environment, run_generic_phase
with logging/tmpdir/bad env, regen helper with eclass caching = batched async expects, raw
transactions with preload batches / clear / metadata path / alive / unknown command) x daemon-side
event scripts per execution (inherit, bashrcs, helper IPC ok/failing, stderr, die, exit N, signal to
the main pid) x idle signals x eager/lazy scheduling of the daemon relative to Python's flushes.

Oracle (independent of processor.py):
  deadlock   Python blocks (read, or waitpid) while the model daemon has nothing pending and is itself
             blocked reading, and no timeout is armed  -> synchronous, no wall clock;
  desync     every model line carries the stream offset of the request it answers; every expect()
             records the offset at which it was issued.  A line consumed for an expectation must carry
             that expectation's offset (FIFO); a sync expect must leave no expectation unconsumed;
             lines consumed as events must belong to the current operation.  Accepted foreign replies
             and operations that succeed on foreign events are violations (a *rejected* stale line that
             ends the session is the protocol's error path and is only counted);
  replies    an expect() that rejects the daemon's own positive reply to exactly that request
             (literal mismatch) is a violation; so is an operation that reports success although the
             model daemon failed/died/was signalled, or get_keys returning keys of another request;
  unknown    an unknown command (Python->daemon) must surface as an error and the processor must be
             dead afterwards;
  misfed     the daemon, still waiting inside an execution for the reply to an inherit/bashrc/helper request of
             an *earlier* operation, takes bytes a later operation wrote (e.g. the pool's `alive` probe) as that
             reply and the later operation consumes the outcome (someone else's error surfaces in it);
  timers     no SIGALRM timer may stay armed after an operation returns.
Payload class `nonascii`: ebuild path, phase env value and metadata path whose byte length differs from the
character count (size-prefixed messages count bytes, as `read -N` in the daemon's C locale does; confirmed by
the conformance run with non-ASCII `set_metadata_path` / `start_receiving_env bytes`).
Conformance: message traces recorded from real daemon sessions (real bash, real ebuilds/eclasses
realising the same event scripts, real signals) are replayed into the model, which must produce the
same token sequence (`traces_validated_against_impl`).  Literal cross-check: every command literal
processor.py writes is looked up in the bash loops and its expected reply literal compared.

Dropped from DESIGN.md: the exhaustive part (thorough tier) enumerates 1 operation x <=3 events, 2 operations
x <=2 events, 3 operations x <=1 event from a reduced alphabet, both schedulings (78k programs), not all
3x3; signals are only delivered to the daemon's main pid; helper IPC uses two stub IpcCommand subclasses
(protocol framing is real, command semantics are not); real phase *execution* (start_processing) is not
part of the conformance traces (phase loop, metadata/env generation, die, signals, EOF are; the real
__source_bashrcs - incl. a bashrc whose last command fails - and __internal_inherit are run through
harness-written env chunks, their conversations sent pipelined so that a missing ack shows as a different
line instead of as silence).
Side observation (not this property): EbuildProcessor.is_alive stores pid=False and later calls
os.waitpid(False, WNOHANG), i.e. waitpid(0): "any child in my process group".
"""
from __future__ import annotations

import errno
import itertools
import json
import os
import re
import signal as real_signal
import types
from collections import deque

from hypothesis import strategies as st

from .. import core
from ..ref import ebd_model as M

ID = "C35"
TITLE = "The Python/daemon command protocol never deadlocks or desynchronizes"
LEVEL = "exploration"
TECHNIQUE = ("unmodified Python side run against a message-level model of the bash daemon; hypothesis request "
             "programs x daemon event schedules; synchronous deadlock detection, offset-tagged replies; model "
             "validated against traces of real daemon sessions")
DESIGN_REF = "DESIGN.md §3 C35"
LEVEL_TEXT = (
    "Generated-schedule search at message granularity: request programs through the real pool / phase / regen "
    "callers against a hand-written bash-daemon model, with daemon-side events (inherit, bashrcs, helper IPC, die, "
    "exit, signals) and eager/lazy scheduling; thorough adds bounded-exhaustive programs (1 op x <=3 events, 2 x <=2, "
    "3 x <=1; 78k programs). "
    "Deadlock and desynchronisation are decided synchronously from the model state and hidden reply tags."
)
LEVEL_NOTE = ("Trusted: vf/ref/ebd_model.py (transcribed from the bash source; validated by replaying traces of real "
              "daemon sessions). Byte-level interleavings inside a line, multi-threading and group-directed signals "
              "are not explored. No proof of absence.")
RULE = (
    "case = {ops, idle_signals, eager}; ops drawn from pooled keys/env, phase, regen(caching), raw transactions; "
    "every execution carries an event script. non-trivial = at least 4 daemon lines consumed and (a daemon-side event "
    "executed, or a batch of async expectations consumed, or a signal/die/unknown command occurred); distinct = "
    "canonical JSON of the case"
)
ASSUMPTIONS = [
    "vf/ref/ebd_model.py is a faithful message-level transcription of ebuild-daemon.bash / -lib.bash / die",
    "a buffered write reaches the daemon only on flush (true for the small messages generated)",
    "a dead daemon is reported dead by waitpid at once (no zombie lag); signals reach only the main pid",
    "callers behave as pkgcore's own callers do (pool request/release, run_generic_phase, _RegenOpHelper)",
]
BUDGET = {"quick": 50, "thorough": 900}

FAKE_PID = 40_000_000  # far above pid_max: can never name a real process
FAKE_FD = 30_000_000
ECLASSES = ("e0", "e1", "e2", "bad")  # "bad" fails `bash -n`
BAD_ENV_KEY = "VF_BAD-VAR"


class Deadlock(BaseException):
    def __init__(self, site, detail, where=""):
        super().__init__(f"{site}: {detail}")
        self.site = site
        self.detail = detail
        self.where = where  # which daemon loop is blocked


class SessionOver(BaseException):
    """the pool decided to spawn a second daemon: the session with the first one is over"""


# ============================================================================ in-memory endpoints
class WriteEnd:
    # attributes of the real `os.fdopen(fd, "w")` text stream that the code under test may consult
    encoding = "utf-8"
    errors = "strict"
    mode = "w"
    newlines = None
    line_buffering = False
    name = "<c35 in-memory pipe to the daemon>"

    def writable(self):
        return True

    def readable(self):
        return False

    def isatty(self):
        return False

    def __init__(self, conn):
        self.c = conn
        self.h = conn.h
        self.buf = bytearray()
        self.offset = 0  # bytes handed to write() so far
        self.closed = False

    def write(self, s):
        if self.closed:
            raise ValueError("I/O operation on closed file.")
        b = s.encode(self.encoding, self.errors)
        self.buf += b
        self.offset += len(b)
        return len(s)

    def flush(self):
        if self.closed:
            raise ValueError("I/O operation on closed file.")
        if not self.buf:
            return
        d = self.c.daemon
        if not d.alive:
            raise BrokenPipeError(errno.EPIPE, "Broken pipe")
        d.feed(bytes(self.buf))
        self.h.trace.append(("w", bytes(self.buf)))
        self.buf.clear()
        if self.h.eager:
            d.pump()

    def close(self):
        if self.closed:
            return
        try:
            self.flush()
        finally:
            self.closed = True
            self.c.daemon.close_input()
            if self.h.eager:
                self.c.daemon.pump()


class ReadEnd:
    mode = "rb"
    name = "<c35 in-memory pipe from the daemon>"

    def readable(self):
        return True

    def writable(self):
        return False

    def isatty(self):
        return False

    def __init__(self, conn):
        self.c = conn
        self.h = conn.h
        self.closed = False

    def _fill(self, site):
        """make sure the model has output pending, or is dead; else deadlock/timeout"""
        d = self.c.daemon
        while not d.out:
            if not d.alive:
                return False
            d.pump()
            if d.out or not d.alive:
                continue
            # daemon alive, blocked reading, nothing pending for us
            self.h.would_block(self.c, site)
        return True

    def readline(self):
        if self.closed:
            raise ValueError("I/O operation on closed file.")
        if not self._fill("read"):
            self.h.on_eof()
            return b""
        data, tag = self.c.daemon.out.popleft()
        i = data.find(b"\n")
        if 0 <= i < len(data) - 1:
            self.c.daemon.out.appendleft((data[i + 1:], tag))
            data = data[: i + 1]
        self.h.on_line(self.c, data, tag)
        return data

    def read(self, n=-1):
        if self.closed:
            raise ValueError("I/O operation on closed file.")
        out = b""
        while len(out) < n:
            if not self._fill("read-raw"):
                self.h.on_eof()
                break
            data, tag = self.c.daemon.out.popleft()
            need = n - len(out)
            if len(data) > need:
                self.c.daemon.out.appendleft((data[need:], tag))
                data = data[:need]
            out += data
            self.h.on_raw(self.c, data, tag)
        return out

    def close(self):
        self.closed = True
        self.c.daemon.close_output()


# ============================================================================ OS-boundary proxies
class _Cur:
    h = None  # the running session


class OsProxy:
    """stands in for the `os` module inside pkgcore.ebuild.processor"""

    def __getattr__(self, name):
        return getattr(os, name)

    def pipe(self):
        h = _Cur.h
        h.fd_seq += 2
        return FAKE_FD + h.fd_seq, FAKE_FD + h.fd_seq + 1

    def close(self, fd):
        if fd >= FAKE_FD:
            return
        os.close(fd)

    def fdopen(self, fd, mode="r", *a, **kw):
        if fd < FAKE_FD:
            return os.fdopen(fd, mode, *a, **kw)
        c = _Cur.h.creating
        return c.w if "w" in mode else c.r

    def waitpid(self, pid, options):
        h = _Cur.h
        if pid is False or pid == 0:
            # EbuildProcessor.is_alive stores pid=False once the daemon is reaped and later calls
            # os.waitpid(False, WNOHANG) == waitpid(0, ...): "any child in my process group".  The
            # harness process has none -> ECHILD (is_alive treats that as dead).
            h.classes.add("waitpid-zero")
            raise ChildProcessError(errno.ECHILD, "No child processes")
        c = h.conn_of(abs(pid), "waitpid")
        d = c.daemon
        if options & os.WNOHANG:
            if d.alive:
                return (0, 0)
        else:
            d.pump()
            if d.alive:
                raise Deadlock("waitpid", f"python waits for the daemon to exit; daemon blocked reading in {d.where}")
        if c.reaped:
            raise ChildProcessError(errno.ECHILD, "No child processes")
        c.reaped = True
        st_ = d.status or 0
        return (c.pid, (-st_) if st_ < 0 else (st_ << 8))

    def killpg(self, pgid, sig):
        c = _Cur.h.conn_of(pgid, "killpg")
        if c.reaped:
            raise ProcessLookupError(errno.ESRCH, "No such process")
        if sig == real_signal.SIGKILL:
            c.daemon.kill()

    def kill(self, pid, sig):
        raise core.HarnessError("os.kill from the code under test")


class SignalProxy:
    """virtual SIGALRM timer; everything else passes through (but never installs real handlers)"""

    def __getattr__(self, name):
        return getattr(real_signal, name)

    def signal(self, signum, handler):
        h = _Cur.h
        old = h.sig_handlers.get(signum, real_signal.SIG_DFL)
        h.sig_handlers[signum] = handler
        return old

    def setitimer(self, which, seconds, interval=0.0):
        h = _Cur.h
        old = h.timer
        h.timer = seconds if seconds else 0
        if seconds:
            h.timer_armed_by = h.cur_label
        return (old, 0.0)

    def getitimer(self, which):
        return (_Cur.h.timer, 0.0)


class SpawnProxy:
    def __init__(self, real):
        self._real = real

    def __getattr__(self, name):
        return getattr(self._real, name)

    def is_sandbox_capable(self, *a, **kw):
        return False

    def is_userpriv_capable(self, *a, **kw):
        return False

    def spawn(self, *a, **kw):
        return [_Cur.h.creating.pid]


_ENV = {}


def _features():
    if "features" not in _ENV:
        from .. import ebd as vebd

        _ENV["features"] = M.detect_features(vebd.ebd_dir())
    return _ENV["features"]


class CheckedLock:
    """stands in for processor._global_ebp_lock (a non-reentrant threading.Lock): same semantics,
    but re-acquiring it from the thread that holds it - which blocks forever - raises Deadlock"""

    def __init__(self, reentrant=False):
        self.held = 0
        self.reentrant = reentrant  # mirrors the lock type of the tree under test

    def acquire(self, blocking=True, timeout=-1):
        if self.held and self.reentrant:
            self.held += 1
            return True
        if self.held:
            raise Deadlock("pool-lock", "the thread holding processor._global_ebp_lock tries to take it again "
                                        "(non-reentrant threading.Lock): blocks forever")
        self.held = 1
        return True

    def release(self):
        self.held = max(0, self.held - 1)

    __enter__ = acquire

    def __exit__(self, *a):
        self.release()
        return False


def _setup():
    """import pkgcore once per worker and install the proxies"""
    if _ENV:
        return _ENV
    import logging

    from pkgcore.ebuild import ebd as ebd_mod
    from pkgcore.ebuild import ebd_ipc, processor
    from pkgcore.ebuild import repository as repo_mod
    from pkgcore.ebuild.eapi import get_eapi
    from pkgcore.operations import format as fmt
    from pkgcore.package import errors as pkg_errors

    # the module installs SIGINT/SIGTERM handlers at import; the worker must not keep them
    real_signal.signal(real_signal.SIGTERM, real_signal.SIG_DFL)
    real_signal.signal(real_signal.SIGINT, real_signal.default_int_handler)
    logging.getLogger("pkgcore").setLevel(logging.CRITICAL + 1)

    class TracedEBP(processor.EbuildProcessor):
        """observation only: tells the harness when an expectation is issued / a sync expect ends"""

        def __init__(self, *a, **kw):
            h = _Cur.h
            h.ebps.append(self)  # every instance is neutralised when its session ends
            self._vf_conn = h.new_conn()  # the model daemon this processor will talk to
            super().__init__(*a, **kw)

        def expect(self, want, async_req=False, flush=False, timeout=0):
            h, c = _Cur.h, self._vf_conn
            h.expect_enter(c, want, async_req)
            try:
                r = super().expect(want, async_req=async_req, flush=flush, timeout=timeout)
            except BaseException:
                h.expect_exit(c, want, async_req, None)
                raise
            h.expect_exit(c, want, async_req, r)
            return r

    _ENV.update(processor=processor, ebd_mod=ebd_mod, ebd_ipc=ebd_ipc, repo_mod=repo_mod, fmt=fmt,
                pkg_errors=pkg_errors, eapi=get_eapi("8"), TracedEBP=TracedEBP,
                BaseEBP=processor.EbuildProcessor, real=dict(os=processor.os, spawn=processor.spawn,
                                                             signal=processor.signal))
    return _ENV


class _Patched:
    """install the proxies for the duration of one in-memory session"""

    def __enter__(self):
        E = _setup()
        p = E["processor"]
        p.os = OsProxy()
        p.spawn = SpawnProxy(E["real"]["spawn"])
        p.signal = SignalProxy()
        p.EbuildProcessor = E["TracedEBP"]
        self.saved_lock = p._global_ebp_lock
        import threading

        self.saved_tb = p.traceback
        p.traceback = types.SimpleNamespace(print_exc=lambda *a, **k: None)  # shutdown_all_processors prints
        p._global_ebp_lock = CheckedLock(reentrant=isinstance(self.saved_lock, type(threading.RLock())))
        self.saved_ebd = (E["ebd_mod"].is_userpriv_capable, E["ebd_mod"].is_sandbox_capable)
        E["ebd_mod"].is_userpriv_capable = lambda *a, **k: False
        E["ebd_mod"].is_sandbox_capable = lambda *a, **k: False
        return E

    def __exit__(self, *a):
        E = _setup()
        p = E["processor"]
        p.os, p.spawn, p.signal = E["real"]["os"], E["real"]["spawn"], E["real"]["signal"]
        p.EbuildProcessor = E["BaseEBP"]
        p._global_ebp_lock = self.saved_lock
        p.traceback = self.saved_tb
        E["ebd_mod"].is_userpriv_capable, E["ebd_mod"].is_sandbox_capable = self.saved_ebd
        del p.active_ebp_list[:]
        del p.inactive_ebp_list[:]
        _Cur.h = None
        return False


# ============================================================================ one session
MAX_DAEMONS = 4


class Conn:
    """one model daemon + the two pipe ends + what the harness knows about the stream"""

    def __init__(self, h, k):
        self.h = h
        self.k = k
        self.pid = FAKE_PID + k
        self.daemon = M.Daemon(
            scripts=h._next_script, idle_signals=(h.case.get("idle_signals") or {}) if k == 0 else {},
            env_ok=lambda payload: BAD_ENV_KEY.encode() not in payload,
            eclass_ok=lambda path: not path.endswith("/bad.eclass") and os.path.exists(path),
            handshake=True, cwd=h.files["cwd"], features=_features(),
            on_reply_input=lambda rec, line: h.on_daemon_reply_input(self, rec, line))
        self.daemon.execs = h.execs  # one list for the whole session
        self.daemon.exec_index = 100 * k
        self.w = WriteEnd(self)
        self.r = ReadEnd(self)
        self.reaped = False
        self.fifo = deque()  # (offset at which the expectation was issued, want)
        self.depth = 0
        self.op_start = 0
        self.misaligned = None  # description of the first misaligned consumption
        self.misfed = None  # (execution record, line): see Session.on_daemon_reply_input


class Session:
    def __init__(self, ctx, case, files):
        self.ctx = ctx
        self.case = case
        self.files = files
        self.eager = bool(case.get("eager", True))
        self.execs = []
        self.conns = []
        self.creating = None
        self.trace = []
        self.fd_seq = 0
        self.sig_handlers = {}
        self.timer = 0
        self.timer_armed_by = None
        self.cur_label = "init"
        self.script_queue = deque()
        self.problems = []  # (bucket, msg)
        self.classes = set()
        self.lines_consumed = 0
        self.events_executed = 0
        self.op = None  # per-operation observation record
        self.ebps = []

    def new_conn(self):
        if len(self.conns) >= MAX_DAEMONS:
            raise SessionOver()
        c = Conn(self, len(self.conns))
        if self.conns:
            self.classes.add("respawn")
        self.conns.append(c)
        self.creating = c
        return c

    def conn_of(self, pid, what):
        k = pid - FAKE_PID
        if not 0 <= k < len(self.conns):
            raise core.HarnessError(f"{what} on foreign pid {pid}")
        return self.conns[k]

    @property
    def misaligned(self):
        for c in self.conns:
            if c.misaligned:
                return c.misaligned
        return None

    # ---- model callbacks ---------------------------------------------------
    def _next_script(self, cmd):
        if self.script_queue:
            s = self.script_queue.popleft()
            if s:
                self.events_executed += 1
            return s
        return []

    def problem(self, bucket, msg):
        self.problems.append((bucket, f"[{self.cur_label}] {msg}"))

    def would_block(self, c, site):
        if self.timer:
            self.timer = 0
            self.classes.add("timeout-fired")
            if self.op is not None:
                self.op["timeout"] = True
            hnd = self.sig_handlers.get(real_signal.SIGALRM)
            if callable(hnd):
                hnd(real_signal.SIGALRM, None)  # raises pkgcore's TimeoutError
            raise core.HarnessError("itimer armed without a SIGALRM handler")
        pend = len(c.w.buf)
        raise Deadlock(site, f"python blocks in {site} (unflushed bytes: {pend}); daemon blocked reading in "
                             f"{c.daemon.where}, nothing pending", where=c.daemon.where)

    def on_eof(self):
        self.classes.add("eof")
        if self.op is not None:
            self.op["eof"] += 1
            if self.op["eof"] > 200:
                raise Deadlock("eof-spin", "python keeps reading a closed pipe (daemon is gone) without giving up")

    # ---- consumption bookkeeping --------------------------------------------
    def expect_enter(self, c, want, async_req):
        c.fifo.append((c.w.offset, want))
        if not async_req:
            c.depth += 1
            if len(c.fifo) > 1:
                self.classes.add("async-batch-consumed")

    def expect_exit(self, c, want, async_req, result):
        if async_req:
            return
        c.depth -= 1
        rec = self.op
        consumed = rec["expect_lines"] if rec is not None else []
        if result is True:
            bad = [c for c in consumed if c[2] is False]
            if bad:
                self.problem("desync:expect-accepted-foreign-reply",
                             f"expect({want!r}) returned True but consumed {bad[0][0]!r} written for another request")
            if c.fifo:
                self.problem("desync:expect-left-replies-unread",
                             f"expect({want!r}) returned True with {len(c.fifo)} earlier expectation(s) unconsumed")
                c.misaligned = c.misaligned or "unconsumed expectations"
        elif result is False:
            if c.fifo and not (rec and (rec["terminal"] or rec["eof"])):
                self.problem("desync:expect-left-replies-unread",
                             f"expect({want!r}) returned with {len(c.fifo)} earlier expectation(s) unconsumed")
                c.misaligned = c.misaligned or "unconsumed expectations"
            if consumed and all(c[2] is True and c[1].kind == "reply_ok" for c in consumed) \
                    and not (rec and (rec["terminal"] or rec["eof"] or rec.get("timeout"))):
                self.problem(f"reply-rejected:{consumed[-1][1].cmd}",
                             f"expect({want!r}) rejected the daemon's own positive reply {consumed[-1][0]!r}")
        if rec is not None:
            rec["expect_lines"] = []

    def on_line(self, c, data, tag):
        self.trace.append(("r", data))
        self.lines_consumed += 1
        rec = self.op
        text = data.decode("utf8", "replace").rstrip("\n")
        if rec is not None:
            rec["kinds"].add(tag.kind)
        if c.misfed is not None and tag.cmd.startswith("exec:") and tag.end > c.op_start and not c.misfed[0].get("reported"):
            mrec, mline = c.misfed
            mrec["reported"] = True
            self.problem("desync:earlier-request-outcome-surfaced-in-later-one",
                         f"the daemon was still waiting for the reply to a request of an earlier operation ({mrec['cmd']} "
                         f"#{mrec['index']}), took {mline!r} written by this operation as that reply, and this operation "
                         f"consumed the result {text!r}")
        if tag.kind in ("die", "notice"):
            if rec is not None:
                rec["terminal"] = True
            self.classes.add("die" if tag.kind == "die" else "sig-notice")
            return
        if c.fifo:
            off, want = c.fifo.popleft()
            own = tag.end == off and tag.kind in ("reply_ok", "reply_fail")
            if rec is not None:
                rec["expect_lines"].append((text, tag, own))
            if not own:
                self.classes.add("stale-line-consumed")
                c.misaligned = c.misaligned or f"{text!r} consumed for expectation {want!r}"
                if c.depth == 0:
                    # consumed by generic_handler's batch check: it compares texts, decides there
                    rec["foreign_batch"] = True
            return
        # event / reply consumed outside any expectation (generic_handler loop, ipc, die reader)
        if not (c.op_start < tag.end <= c.w.offset):
            self.classes.add("stale-line-consumed")
            c.misaligned = c.misaligned or f"{text!r} consumed as an event of a later operation"
            if rec is not None:
                rec["foreign_events"].append(text)

    def on_daemon_reply_input(self, c, rec, line):
        """running ebuild code in the daemon consumed `line` as the reply to its own inherit/bashrc/helper
        request.  The execution was started by bytes ending at offset rec['tagend']; if that is not inside the
        current operation, the daemon answers an *earlier* operation's request with what the python side wrote
        for a later one (e.g. the pool's `alive` probe).  It becomes a violation when output of that misfed
        execution is then consumed by the later operation (see on_line)"""
        if rec.get("tagend", 0) <= c.op_start and c.misfed is None:
            c.misfed = (rec, line)
            self.classes.add("daemon-misread-request")

    def on_raw(self, c, data, tag):
        self.trace.append(("r", data))
        if not (c.op_start < tag.end <= c.w.offset):
            c.misaligned = c.misaligned or "raw payload of another operation consumed"
            if self.op is not None:
                self.op["foreign_events"].append("<raw>")

    # ---- running operations --------------------------------------------------
    def begin(self, label):
        self.cur_label = label
        for c in self.conns:
            c.op_start = c.w.offset
        self.op = {"kinds": set(), "expect_lines": [], "terminal": False, "eof": 0, "foreign_events": [],
                   "execs_before": len(self.execs), "dead_before": any(not c.daemon.alive for c in self.conns),
                   "misaligned_before": self.misaligned}
        return self.op

    def end(self):
        if self.timer:
            self.problem("stale-alarm:timer-left-armed",
                         f"SIGALRM timer armed by {self.timer_armed_by} still pending after the operation returned")
            self.timer = 0
        rec, self.op = self.op, None
        return rec


def _expected_exc(E):
    p = E["processor"]
    return (p.ProcessorError, p.ProcessingInterruption, p.TimeoutError, E["fmt"].GenericBuildError,
            E["pkg_errors"].MetadataException, E["ebd_ipc"].IpcError)


# ---------------------------------------------------------------------------- fixtures
def make_files(ctx):
    d = ctx.fresh_dir("c35")
    ecl = os.path.join(d, "eclass")
    os.makedirs(ecl)
    for n in ECLASSES:
        with open(os.path.join(ecl, n + ".eclass"), "w") as f:
            f.write("broken() {\n" if n == "bad" else f"# eclass {n}\n: \n")
    for n in ("rc0", "rc1"):
        with open(os.path.join(d, n), "w") as f:
            f.write(": # bashrc\n")
    with open(os.path.join(d, "rc_fail"), "w") as f:
        # the usual idiom; for any other package the file's last command returns 1
        f.write("VF_RC_SEEN=1\n[[ ${CATEGORY} == no-such-category ]] && VF_RC_MATCH=1\n")
    os.makedirs(os.path.join(d, "T"))
    os.makedirs(os.path.join(d, "cwd"))
    return {"dir": d, "eclass": ecl, "T": os.path.join(d, "T"), "cwd": os.path.join(d, "cwd"),
            "log": os.path.join(d, "T", "build.log"), "ebuild": os.path.join(d, "pkg-1.ebuild"),
            # a path whose byte length differs from its character count (every size-prefixed message that
            # embeds it has len(bytes) != len(str))
            "ebuild_nonascii": os.path.join(d, "pk\u00e9\u2713-1.ebuild")}


def make_objs(E, files, sess):
    eclass_objs = {n: types.SimpleNamespace(path=os.path.join(files["eclass"], n + ".eclass")) for n in ECLASSES}
    ecache = types.SimpleNamespace(eclasses=eclass_objs, get_eclass=lambda name: eclass_objs.get(name))
    processor = E["processor"]

    class Pkg:
        category, PF, P, PN, PV, PR, PVR = "cat", "pkg-1", "pkg-1", "pkg", "1", "r0", "1"
        ebuild = types.SimpleNamespace(path=files["ebuild_nonascii" if sess.case.get("nonascii") else "ebuild"])
        eapi = E["eapi"]

        def _fetch_metadata(self, ebp=None, force_regen=None):
            # what ebuild_src.package_factory._update_metadata does around get_keys
            with processor.reuse_or_request(ebp) as my_proc:
                try:
                    return my_proc.get_keys(self, ecache)
                except processor.ProcessorError as e:
                    raise E["pkg_errors"].MetadataException(self, "data", "failed sourcing ebuild", e)

    pkg = Pkg()
    fake_op = types.SimpleNamespace(pkg=pkg, observer=None)

    class IpcOk(E["ebd_ipc"].IpcCommand):
        def run(self, args):
            return "resp"

    class IpcFail(E["ebd_ipc"].IpcCommand):
        def run(self, args):
            raise E["ebd_ipc"].IpcCommandError("boom")

    return types.SimpleNamespace(pkg=pkg, ecache=ecache, ipc={"best_version": IpcOk(fake_op), "eapply": IpcFail(fake_op)})


# ---------------------------------------------------------------------------- interpretation
def run_case(ctx, case, record=True):
    """interpret one case against a fresh model daemon; returns list of (bucket, msg)"""
    files = run_case.files.get(ctx.scratch) if hasattr(run_case, "files") else None
    if files is None:
        files = make_files(ctx)
        run_case.files = {ctx.scratch: files}
    sess = Session(ctx, case, files)
    if case.get("nonascii"):
        sess.classes.add("nonascii-payload")
    with _Patched() as E:
        _Cur.h = sess
        objs = make_objs(E, files, sess)
        expected = _expected_exc(E)
        try:
            _interpret(E, sess, objs, case, expected)
        except SessionOver:
            sess.classes.add("respawn")
        except Deadlock as dl:
            sess.classes.add("deadlock")
            if dl.site in ("waitpid", "pool-lock", "eof-spin"):
                bucket = f"deadlock:{dl.site}"  # one root cause each, whatever operation runs into it
            else:
                bucket = f"deadlock:{dl.site}:{sess.cur_label.split('#')[0]}:{dl.where}"
            sess.problem(bucket, str(dl))
        finally:
            for ebp in sess.ebps:  # no __del__ of this session may run during a later one
                ebp.__class__ = _InertEBP
    problems = _dedup(sess.problems)
    if record:
        nontriv = sess.lines_consumed >= 4 and bool(
            sess.events_executed or sess.classes & {"async-batch-consumed", "die", "sig-notice", "unknown-cmd",
                                                    "preload-fail", "env-fail"})
        ctx.case(case, nontrivial=nontriv, classes=sorted(sess.classes), key=core.jdump(case))
        for b, m in problems:
            ctx.violation(b, case, m)
    return problems


def _dedup(problems):
    seen, out = set(), []
    for b, m in problems:
        if b not in seen:
            seen.add(b)
            out.append((b, m))
    return out


def _call(E, sess, label, fn, expected):
    """run one operation of the program; returns (status, value) with status in ok/err/crash"""
    rec = sess.begin(label)
    status, val = "ok", None
    try:
        try:
            val = fn()
        except (SessionOver, Deadlock, core.HarnessError):
            raise
        except expected as e:
            status, val = "err", e
        except KeyboardInterrupt as e:
            status, val = "err", e
        except SystemExit as e:
            status, val = "err", e
        except RuntimeError as e:
            if isinstance(e.args[0] if e.args else None, OSError) and e.args[0].errno == errno.EPIPE:
                status, val = "err", e
            else:
                raise
        except Exception as e:  # noqa: BLE001
            b = core.pkg_frame_bucket(e)
            if b is None:
                raise
            status, val = "crash", e
            sess.problem(b, f"{type(e).__name__}: {e}")
    finally:
        rec = sess.end()
    rec["status"], rec["value"] = status, val
    _judge(E, sess, label, rec)
    return rec


def _judge(E, sess, label, rec):
    """operation-level oracle: failures must be justified by something the daemon did, successes
    must not hide a failed execution, nothing foreign may be accepted"""
    new_execs = sess.execs[rec["execs_before"]:]
    status = rec["status"]
    justified = (rec["terminal"] or rec["eof"] or rec.get("timeout") or "reply_fail" in rec["kinds"]
                 or rec["dead_before"] or any(not c.daemon.alive for c in sess.conns) or sess.misaligned is not None)
    if status == "err" and isinstance(rec["value"], E["processor"].ProcessorError) \
            and "unknown eclass: nx.eclass" in str(rec["value"]):
        justified = True  # the python side itself refuses the request (eclass not in the cache)
    if any(x["outcome"] == "exit0" for x in new_execs):
        justified = True  # the ebuild left with `exit 0`: "phases succeeded" without keys / environment
    kind = label.split("#")[0]
    if status == "ok":
        if rec["foreign_events"]:
            sess.problem("desync:foreign-event-accepted",
                         f"operation succeeded after consuming line(s) of another request: {rec['foreign_events'][:2]}")
        if rec.get("foreign_batch") and kind not in ("release", "gc", "shutdown_all"):
            sess.problem("desync:foreign-batch-accepted", "batched expectations consumed foreign lines, operation succeeded")
        if rec.get("check_execs", True):
            for x in new_execs:
                if x["outcome"] in ("failed", "died", "signaled", "env_failed") and not rec.get("failure_allowed"):
                    sess.problem(f"misread:{kind}:success-after-{x['outcome']}",
                                 f"operation reported success but the daemon's execution #{x['index']} {x['outcome']}")
    elif status == "err" and not justified:
        sess.problem(f"unjustified-error:{kind}:{type(rec['value']).__name__}",
                     f"{type(rec['value']).__name__}: {rec['value']} although the daemon neither failed, died, was signalled "
                     "nor sent anything but positive replies")


def _interpret(E, sess, objs, case, expected):
    p = E["processor"]
    files = sess.files
    n = 0
    for op in case["ops"]:
        n += 1
        kind = op[0]
        label = f"{kind}#{n}"
        if kind in ("keys", "env"):
            script = op[1]

            def fn(kind=kind, script=script):
                sess.script_queue.append(script)
                try:
                    with p.reuse_or_request(None) as proc:
                        if kind == "keys":
                            return ("keys", proc.get_keys(objs.pkg, objs.ecache))
                        return ("env", proc.get_ebuild_environment(objs.pkg, objs.ecache))
                finally:
                    sess.script_queue.clear()

            rec = _call(E, sess, label, fn, expected)
            _check_result(sess, rec)
        elif kind == "phase":
            _, phase, o, script = op
            env = {"T": files["T"], "PKGCORE_EMPTYDIR": files["cwd"], "PF": "pkg-1", "CATEGORY": "cat"}
            if case.get("nonascii"):
                env["VF_NOTE"] = "caf\u00e9 \u2713 gr\u00f6\u00dfe"
            if o.get("bad_env"):
                env[BAD_ENV_KEY] = "1"
                sess.classes.add("env-fail")
            handlers = dict(objs.ipc)
            handlers["request_inherit"] = _partial(p.inherit_handler, objs.ecache)
            srcs = [types.SimpleNamespace(path=os.path.join(files["dir"], f"rc{i}"), get_data=None)
                    for i in range(o.get("nbashrc", 0))]
            fake_self = types.SimpleNamespace(pkg=objs.pkg, domain=types.SimpleNamespace(get_package_bashrcs=lambda pkg: srcs))
            handlers["request_bashrcs"] = _partial(E["ebd_mod"].ebd._request_bashrcs, fake_self)

            def fn(phase=phase, o=o, script=script, env=env, handlers=handlers):
                sess.script_queue.append(script)
                try:
                    kw = {}
                    if not o.get("tmpdir"):
                        kw["tmpdir"] = None
                    return ("phase", E["ebd_mod"].run_generic_phase(
                        objs.pkg, phase, env, False, False, extra_handlers=handlers,
                        failure_allowed=bool(o.get("failure_allowed")),
                        logging=files["log"] if o.get("logging") else None, **kw))
                finally:
                    sess.script_queue.clear()

            sess.classes.add("phase")
            rec = _call_with(E, sess, label, fn, expected, failure_allowed=bool(o.get("failure_allowed")))
        elif kind == "regen":
            _, caching, scripts = op
            sess.classes.add("regen-caching" if caching else "regen")

            def fn(caching=caching, scripts=scripts):
                results = []
                helper = object.__new__(E["repo_mod"]._RegenOpHelper)
                try:
                    helper.__init__(None, force=True, eclass_caching=caching)
                except BaseException:
                    helper.__class__ = _Inert  # its __del__ expects a fully built object
                    raise
                try:
                    for s in scripts:
                        sess.script_queue.append(s)
                        before = len(sess.execs)
                        try:
                            results.append((before, helper(objs.pkg)))
                        except E["pkg_errors"].MetadataException as e:
                            results.append((before, e))
                        finally:
                            sess.script_queue.clear()
                finally:
                    try:
                        helper.__del__()
                    finally:
                        helper.__class__ = _Inert
                return ("regen", results)

            rec = _call_with(E, sess, label, fn, expected, check_execs=False)
            if rec["status"] == "ok":
                for before, res in rec["value"][1]:
                    _check_keys(sess, before, res, label)
        elif kind == "txn":
            calls = op[1]

            def fn(calls=calls):
                ebp = p.request_ebuild_processor(userpriv=False, sandbox=False)
                out = []
                try:
                    for c in calls:
                        if ebp.pid is None:
                            break  # the processor has been shut down (marked dead): nothing to talk to
                        out.append(_txn_call(E, sess, objs, ebp, c))
                finally:
                    p.release_ebuild_processor(ebp)
                return ("txn", out)

            rec = _call_with(E, sess, label, fn, expected, check_execs=False)
            if rec["status"] == "ok":
                _check_txn(sess, calls, rec["value"][1], label)
        else:
            raise core.HarnessError(f"unknown op {op!r}")
    # what the interpreter exit does (atexit hook), then garbage collection of the processors
    _call_with(E, sess, "shutdown_all#end", lambda: p.shutdown_all_processors(), expected, check_execs=False)
    for i, ebp in enumerate(sess.ebps):
        _call_with(E, sess, f"gc#{i}", ebp.__del__, expected, check_execs=False)
    if any(c.daemon.alive for c in sess.conns):
        sess.classes.add("daemon-left-running")


class _Inert:
    pass


class _InertEBP:
    pid = None


def _partial(f, *a):
    import functools

    return functools.partial(f, *a)


def _call_with(E, sess, label, fn, expected, **flags):
    rec_holder = {}
    orig_begin = sess.begin

    def begin(lbl):
        r = orig_begin(lbl)
        r.update(flags)
        r["sent"] = True
        return r

    sess.begin = begin
    try:
        return _call(E, sess, label, fn, expected)
    finally:
        sess.begin = orig_begin


def _check_result(sess, rec):
    if rec["status"] != "ok":
        return
    what, val = rec["value"]
    new = sess.execs[rec["execs_before"]:]
    label = sess.cur_label
    if len(new) != 1:
        sess.problem(f"misread:{what}:result-without-execution", f"{what} returned {val!r} but the daemon ran {len(new)} executions")
        return
    x = new[0]
    if what == "keys" and val != x["keys"]:
        sess.problem("desync:keys-of-another-request", f"get_keys returned {val!r}; the daemon sent {x['keys']!r} for this request")
    if what == "env" and val != x.get("env", "").strip():
        sess.problem("desync:env-of-another-request", f"get_ebuild_environment returned {val!r}; daemon sent {x.get('env')!r}")


def _check_keys(sess, before, res, label):
    if isinstance(res, Exception):
        return
    new = sess.execs[before:before + 1]
    if not new or new[0]["outcome"] not in ("ok", "exit0") or res != new[0]["keys"]:
        sess.problem("desync:keys-of-another-request",
                     f"[{label}] regen got {res!r}; daemon execution: {new[0]['outcome'] if new else None} "
                     f"{new[0]['keys'] if new else None}")


def _txn_call(E, sess, objs, ebp, c):
    k = c[0]
    if k == "preload":
        names, async_req = c[1], c[2]
        if "bad" in names:
            sess.classes.add("preload-fail")
        return ebp.preload_eclasses(objs.ecache, async_req=async_req, limited_to=list(names))
    if k == "clear":
        return ebp.clear_preloaded_eclasses()
    if k == "paths":
        paths = tuple(c[1]) + (("/opt/b\u00efn\u2713",) if sess.case.get("nonascii") else ())
        ebp._ensure_metadata_paths(paths)
        return ebp._metadata_paths == paths
    if k == "alive":
        return ebp.is_responsive
    if k == "caching":
        if c[1]:
            return ebp.allow_eclass_caching()
        return ebp.disable_eclass_caching()
    if k == "keys":
        sess.script_queue.append(c[1])
        before = len(sess.execs)
        try:
            return (before, ebp.get_keys(objs.pkg, objs.ecache))
        finally:
            sess.script_queue.clear()
    if k == "raw":
        sess.classes.add("unknown-cmd")
        ebp.write(c[1])
        return None
    if k == "shutdown":
        return ebp.shutdown_processor()
    raise core.HarnessError(f"unknown txn call {c!r}")


def _check_txn(sess, calls, results, label):
    """a transaction that ran to its end without exception: positive model replies must have been
    reported as success; an unknown command must not have gone unnoticed"""
    for c, r in zip(calls, results):
        if c[0] == "keys":
            _check_keys(sess, r[0], r[1], label)
    if any(c[0] == "raw" for c in calls):
        i = [c[0] for c in calls].index("raw")
        later = [c[0] for c in calls[i + 1:] if c[0] in ("alive", "clear", "paths", "keys", "preload")]
        # any later request that reads a reply must have seen the die (-> exception, not here)
        if later and all(r is not False for r in results[i + 1:] if r is not None) and len(results) == len(calls):
            ok_later = [r for c, r in zip(calls[i + 1:], results[i + 1:]) if c[0] == "alive" and r is True]
            if ok_later:
                sess.problem("unknown-command:misread", "requests after an unknown command were answered positively")


# ---------------------------------------------------------------------------- generator
class _Cur:
    """cursor over hypothesis-drawn bytes (cheap to draw; the structure is decoded here)"""

    def __init__(self, data):
        self.d, self.i = data, 0

    def pick(self, n):
        if self.i >= len(self.d):
            return 0
        v = self.d[self.i] % n
        self.i += 1
        return v

    def of(self, seq):
        return seq[self.pick(len(seq))]


_EV_DEPEND = [["inherit", "e0"], ["inherit", "e1"], ["inherit", "e2"], ["inherit", "nx"], ["inherit", "e0"],
              ["stderr", 1], ["stderr", 2], ["die", 1], ["die", 2], ["exit", 0], ["exit", 1], ["exit", 3],
              ["sig", "INT"], ["sig", "TERM"]]
_EV_PHASE = _EV_DEPEND + [["bashrcs"], ["bashrcs"], ["ipc", "best_version", ["a", "b"], False],
                          ["ipc", "best_version", ["a", "b"], True], ["ipc", "eapply", ["x"], False],
                          ["ipc", "eapply", ["x"], True]]
_RAW = ["frobnicate", "preload_eclass", "gen_metadata"]
_NAMESETS = [["e0"], ["e0", "e1"], ["e1", "e2", "e0"], ["bad"], ["e0", "bad"], ["bad", "e2"], ["e2"]]


def _dec_script(c, alphabet):
    return [list(c.of(alphabet)) for _ in range(c.pick(4))]


def _dec_txn_call(c):
    k = c.pick(11)
    if k <= 1:
        return ["preload", list(c.of(_NAMESETS)), True]
    if k == 2:
        return ["preload", list(c.of(_NAMESETS)), False]
    if k == 3:
        return ["clear"]
    if k == 4:
        return ["alive"]
    if k == 5:
        return ["paths", list(c.of([["/dev/null"], ["/usr/bin", "/bin"]]))]
    if k == 6:
        return ["caching", bool(c.pick(2))]
    if k in (7, 8):
        return ["keys", _dec_script(c, _EV_DEPEND)]
    if k == 9:
        return ["raw", c.of(_RAW)]
    return ["shutdown"]


def decode_case(data):
    c = _Cur(data)
    eager = bool(c.pick(2))
    nonascii = c.pick(3) == 1
    idle = {}
    if c.pick(4) == 0:
        idle = {str(c.pick(9)): c.of(["INT", "TERM"])}
    ops = []
    for _ in range(1 + c.pick(4)):
        k = c.pick(8)
        if k <= 1:
            ops.append(["keys", _dec_script(c, _EV_DEPEND)])
        elif k == 2:
            ops.append(["env", _dec_script(c, _EV_DEPEND)])
        elif k == 3:
            o = {"logging": bool(c.pick(2)), "tmpdir": bool(c.pick(2)), "failure_allowed": bool(c.pick(2)),
                 "bad_env": c.pick(4) == 0, "nbashrc": c.pick(3)}
            ops.append(["phase", c.of(["setup", "nofetch", "compile install"]), o, _dec_script(c, _EV_PHASE)])
        elif k <= 5:
            ops.append(["regen", c.pick(4) != 0, [_dec_script(c, _EV_DEPEND) for _ in range(1 + c.pick(3))]])
        else:
            ops.append(["txn", [_dec_txn_call(c) for _ in range(1 + c.pick(4))]])
    case = {"ops": ops, "idle_signals": idle, "eager": eager}
    if nonascii:
        case["nonascii"] = True
    return case


def st_case():
    return st.binary(min_size=6, max_size=64).map(decode_case)


# ---------------------------------------------------------------------------- exhaustive (thorough)
EX_EVENTS_DEPEND = [["inherit", "e0"], ["inherit", "nx"], ["stderr", 2], ["die", 1], ["exit", 3], ["sig", "TERM"],
                    ["sig", "INT"]]
EX_EVENTS_PHASE = EX_EVENTS_DEPEND + [["bashrcs"], ["ipc", "best_version", ["a"], False], ["ipc", "eapply", ["x"], False],
                                      ["ipc", "eapply", ["x"], True]]


def _ex_scripts(events, n):
    """all scripts with exactly n events"""
    return [list(t) for t in itertools.product(events, repeat=n)]


def _ex_op_templates(nev):
    """op templates consuming exactly `nev` events (0..3)"""
    out = []
    for s in _ex_scripts(EX_EVENTS_DEPEND, nev):
        out.append(["keys", s])
        out.append(["regen", True, [s]])
        out.append(["txn", [["caching", True], ["keys", s], ["alive"]]])
    if nev <= 2:
        for s in _ex_scripts(EX_EVENTS_DEPEND, nev):
            out.append(["env", s])
    for s in _ex_scripts(EX_EVENTS_PHASE, nev) if nev <= 2 else []:
        out.append(["phase", "setup", {"logging": True, "tmpdir": True, "failure_allowed": False, "bad_env": False,
                                       "nbashrc": 1}, s])
    if nev == 0:
        out += [
            ["phase", "setup", {"logging": False, "tmpdir": False, "failure_allowed": False, "bad_env": True, "nbashrc": 0}, []],
            ["phase", "setup", {"logging": False, "tmpdir": False, "failure_allowed": True, "bad_env": True, "nbashrc": 0}, []],
            ["regen", True, [[], []]],
            ["txn", [["preload", ["e0", "e1"], True], ["alive"]]],
            ["txn", [["preload", ["e0", "bad"], True]]],
            ["txn", [["preload", ["e0", "e1"], False], ["clear"]]],
            ["txn", [["raw", "frobnicate"], ["alive"]]],
            ["txn", [["raw", "frobnicate"]]],
            ["txn", [["paths", ["/usr/bin"]], ["shutdown"]]],
        ]
    return out


def ex_cases():
    """programs of <=3 operations carrying <=3 daemon events in total (ordered), both schedulings,
    plus one idle signal position for the event-free programs"""
    tmpl = {n: _ex_op_templates(n) for n in range(4)}
    for nops in (1, 2, 3):
        for split in itertools.product(range(4), repeat=nops):
            if sum(split) > 3 or (nops == 3 and sum(split) > 1) or (nops == 2 and sum(split) > 2):
                continue
            for ops in itertools.product(*[tmpl[k] for k in split]):
                for eager in (True, False):
                    yield {"ops": [list(o) for o in ops], "idle_signals": {}, "eager": eager}
                if sum(split) == 0 and nops <= 2:
                    for k in (1, 2, 3):
                        for sig in ("INT", "TERM"):
                            yield {"ops": [list(o) for o in ops], "idle_signals": {str(k): sig}, "eager": False}


# ---------------------------------------------------------------------------- literal cross-check
def _lead_literal(node):
    import ast

    if isinstance(node, ast.Constant) and isinstance(node.value, str):
        return node.value, True
    if isinstance(node, ast.JoinedStr) and node.values and isinstance(node.values[0], ast.Constant):
        return node.values[0].value, False
    return None, False


def _python_protocol_literals(src):
    """[(function, written lead literal, complete?, expected reply or None)] in source order"""
    import ast

    tree = ast.parse(src)
    out = []
    for fn in ast.walk(tree):
        if not isinstance(fn, (ast.FunctionDef,)):
            continue
        calls = [n for n in ast.walk(fn) if isinstance(n, ast.Call) and isinstance(n.func, ast.Attribute)
                 and n.func.attr in ("write", "expect", "_run_depend_like_phase") and n.args]
        calls.sort(key=lambda n: (n.lineno, n.col_offset))
        last = None
        for c in calls:
            lit, complete = _lead_literal(c.args[0])
            if lit is None:
                continue
            if c.func.attr == "write":
                last = (lit, complete)
                out.append((fn.name, lit, complete, None))
            elif c.func.attr == "_run_depend_like_phase":
                out.append((fn.name, lit + " ", False, None))
            elif last is not None:
                out.append((fn.name, last[0], last[1], lit))
    return out


_ARM = re.compile(r'^(\t+)(["A-Za-z_*?\\ |!-]+)\)\s*$')


def _bash_arms(src):
    """[(pattern alternatives, [write literals in the arm])] for every case arm"""
    lines = src.split("\n")
    arms = []
    for i, l in enumerate(lines):
        m = _ARM.match(l)
        if not m:
            continue
        indent = m.group(1)
        body = []
        for l2 in lines[i + 1:]:
            if l2 == indent + "\t;;" or l2 == indent + ";;":
                break
            body.append(l2)
        writes = re.findall(r'__ebd_write_line "([^"]*)"', "\n".join(body))
        arms.append(([p.replace("\\", "").replace('"', "") for p in m.group(2).split("|")], writes))
    return arms


def _bash_re(lit):
    return re.compile("^" + re.sub(r"\\\$\\\{[^}]*\\\}", ".*", re.escape(lit)) + "$", re.S)


def check_literals(ctx):
    import fnmatch

    from .. import ebd as vebd

    root = vebd.repo_root()
    d = vebd.ebd_dir()
    py = {n: open(os.path.join(root, "src/pkgcore/ebuild", n)).read() for n in ("processor.py", "ebd.py", "ebd_ipc.py")}
    sh = {n: open(os.path.join(d, n)).read() for n in ("ebuild-daemon.bash", "ebuild-daemon-lib.bash", "exit-handling.bash",
                                                       "ebuild.bash")}
    allsh = "\n".join(sh.values())
    arms = _bash_arms(sh["ebuild-daemon.bash"])
    compared = set(re.findall(r'[!=]= "([^"$]+)"', allsh))
    all_writes = re.findall(r'__ebd_write_line "([^"]*)"', allsh)
    n = 0
    for fname in ("processor.py", "ebd.py"):
        for func, lit, complete, reply in _python_protocol_literals(py[fname]):
            word = re.split(r"[ \n]", lit, 1)[0]
            if not word or not re.match(r"^[A-Za-z_?]+$", word):
                continue  # not a protocol word (sandbox summary text, data)
            sample = lit if complete else lit + "X"
            sample = sample.split("\n", 1)[0]
            case = {"kind": "literal", "file": fname, "function": func, "writes": lit, "expects": reply}
            n += 1
            ctx.case(case, nontrivial=reply is not None, classes=["literal", "literal-with-reply" if reply else "literal-command"],
                     key=f"{fname}:{func}:{lit}:{reply}")
            hit = [a for a in arms if any(fnmatch.fnmatchcase(sample, p) for p in a[0] if p != "*" and p != "lines")]
            if not hit and word not in compared:
                ctx.violation(f"literal:python-sends-unknown:{word}", case,
                              f"{fname}:{func} writes {lit!r}; no bash case arm or comparison handles it")
                continue
            if reply is None:
                continue
            cands = [w for a in hit for w in a[1]] if hit else all_writes
            if not any(_bash_re(w).match(reply) for w in cands):
                ctx.violation(f"reply-literal:{word}", case,
                              f"{fname}:{func} sends {word!r} and expects {reply!r}; bash answers {sorted(set(cands))!r}")
    # daemon -> python: first words the daemon files write must be known to the python side
    import ast

    vocab = set()
    for src in py.values():
        for node in ast.walk(ast.parse(src)):
            if isinstance(node, ast.Constant) and isinstance(node.value, str):
                vocab.add(node.value)
                vocab.add(node.value.split(" ", 1)[0])
    for fname in ("ebuild-daemon.bash", "ebuild-daemon-lib.bash", "exit-handling.bash", "ebuild.bash"):
        for w in re.findall(r'__ebd_write_line "([^"]*)"', sh[fname]):
            word = w.split(" ", 1)[0]
            if not word or word.startswith("$"):
                continue
            case = {"kind": "literal", "file": fname, "daemon_writes": w}
            n += 1
            ctx.case(case, nontrivial=True, classes=["literal", "literal-daemon-line"], key=f"{fname}:{w}")
            if word not in vocab:
                ctx.violation(f"literal:daemon-sends-unhandled:{word}", case,
                              f"{fname} writes {w!r}; the python side has no handler/expectation named {word!r}")
    ctx.note("literals_checked", n)


# ---------------------------------------------------------------------------- conformance with real bash
class _Real:
    """raw line I/O with a real daemon, bounded by select timeouts (no signals, no BufferedReader)"""

    def __init__(self, ebp, timeout):
        self.ebp = ebp
        self.fd = ebp.ebd_read.fileno()
        self.wfd = ebp.ebd_write.fileno()
        self.buf = b""
        self.eof = False
        self.timeout = timeout

    def send(self, data: bytes):
        os.write(self.wfd, data)

    def _more(self, timeout):
        import select

        if self.eof:
            return False
        r, _, _ = select.select([self.fd], [], [], timeout)
        if not r:
            return None
        chunk = os.read(self.fd, 65536)
        if not chunk:
            self.eof = True
            return False
        self.buf += chunk
        return True

    def line(self):
        """next line (bytes incl. newline), b'' at EOF, None on timeout"""
        while b"\n" not in self.buf:
            m = self._more(self.timeout)
            if m is None:
                return None
            if m is False:
                rest, self.buf = self.buf, b""
                return rest
        i = self.buf.index(b"\n") + 1
        out, self.buf = self.buf[:i], self.buf[i:]
        return out

    def peek_line(self):
        l = self.line()
        if l:
            self.buf = l + self.buf
        return l

    def raw(self, n):
        while len(self.buf) < n:
            m = self._more(self.timeout)
            if not m:
                break
        out, self.buf = self.buf[:n], self.buf[n:]
        return out

    def quiet(self, t=0.3):
        """True if the daemon has nothing more to say right now"""
        if self.buf:
            return False
        m = self._more(t)
        return m is None or (m is False and not self.buf)


class ModelMismatch(core.HarnessError):
    """the real daemon stayed silent / the comparison could not be made: inconclusive (exit 2)"""


class Deviation(Exception):
    """the real daemon *said* something else than the model of the pinned protocol"""


def _mismatch(msg, rl):
    # a missing line (timeout; rl is None) may be machine load: harness error.  A different line is a fact.
    return ModelMismatch(msg) if rl is None else Deviation(msg)


def _conf_ebuild(path, script):
    body = ["EAPI=8", 'DESCRIPTION="c35"', "SLOT=0"]
    for ev in script:
        if ev[0] == "inherit":
            body.append(f"inherit {ev[1]}")
        elif ev[0] == "stderr":
            body += [f'echo "<stderr {i}>" >&2' for i in range(ev[1])]
        elif ev[0] == "die":
            body.append('die "boom"')
        elif ev[0] == "exit":
            body.append(f"exit {ev[1]}")
        elif ev[0] == "sig":
            body.append(f"kill -{ev[1]} ${{PKGCORE_EBD_PID}}")
        else:
            raise core.HarnessError(ev)
    with open(path, "w") as f:
        f.write("\n".join(body) + "\n")


def _conf_env_events(payload):
    """what the harness-written env chunks of the conformance driver do when evaluated"""
    text = payload.decode("utf8", "replace")
    if text.startswith("__source_bashrcs"):
        return [["bashrcs"]]
    if text.startswith("__internal_inherit "):
        return [["inherit", text.split()[1].rstrip(";")]]
    return []


def _conf_programs(which, rnd):
    """fixed families + seeded choice; every program ends with something terminal for the daemon"""
    scripts = [
        [], [["inherit", "e0"]], [["inherit", "e0"], ["inherit", "e1"]], [["stderr", 2], ["exit", 3]],
        [["stderr", 1], ["exit", 1]], [["exit", 2]], [["die", 1]], [["inherit", "e2"], ["die", 1]],
        [["stderr", 2], ["die", 1]], [["exit", 0]], [["inherit", "e1"], ["stderr", 3], ["exit", 1]],
    ]
    common = [
        ["alive"], ["clear"], ["preload", ["e0"]], ["keys", [["inherit", "e0"], ["inherit", "e1"]]], ["clear"],
        ["preload", ["e1", "bad"]], ["preload", ["e1", "e2"]], ["paths", "/dev/null"],
        ["phase_loop", "nofetch", [["alive"], ["env_bytes", True], ["logging"], ["sandbox", 1], ["alive"], ["shutdown"]]],
        ["phase_loop", "setup", [["env_bytes", False]]],
        ["phase_loop", "compile install", [["env_file", False]]],
        ["phase_loop", "setup", [["env_file", True], ["bogus"]]],
        ["phase_loop", "setup", [["bashrcs", ["rc0", "rc_fail", "rc1"]], ["alive"], ["shutdown"]]],
        ["phase_loop", "install", [["bashrcs", ["rc_fail"]], ["inherit_chunk", "e2"], ["bashrcs", []], ["shutdown"]]],
        ["phase_loop", "nofetch", [["env_bytes_nonascii"], ["alive"], ["shutdown"]]],
        ["paths", "/opt/b\u00efn\u2713:/bin"],
        ["env", []], ["env", [["inherit", "e0"]]],
        ["keys", [["stderr", 2], ["exit", 3]]], ["alive"], ["env", [["stderr", 3], ["exit", 1]]],
    ]
    prog = list(common)
    for _ in range(6):
        kind, sc = ("keys" if rnd.random() < 0.75 else "env"), rnd.choice(scripts)
        if kind == "env" and any(e[0] == "inherit" for e in sc) and any(e[0] in ("die", "exit") for e in sc):
            # outside the depend phase the real inherit prints a QA notice on stderr, which would end up
            # in the failure reply: ebuild-level noise the protocol model does not describe
            kind = "keys"
        prog.append([kind, sc])
    rnd.shuffle(prog)
    terminal = [
        [["keys", [["sig", "TERM"]]]],
        [["raw", "frobnicate now"]],
        [["keys", [["inherit", "e0"], ["sig", "INT"], ["inherit", "e1"]]]],
        [["idle_signal", "TERM"]],
        [["idle_signal", "INT"]],
        [["phase_loop", "setup", [["alive"], ["sigmain", "TERM"], ["alive"], ["shutdown"]]]],
        [["env", [["sig", "TERM"], ["stderr", 1], ["exit", 1]]]],
        [["close"]],
    ]
    return prog + terminal[which % len(terminal)]


def conformance(ctx, which):
    """drive a real daemon and the model in lockstep with the same bytes; the model must predict
    every line the real daemon sends (modulo die text / key payloads) and every silence"""
    import random

    from .. import ebd as vebd

    vebd.ensure_generated()
    E = _setup()
    files = make_files(ctx)
    pkg = types.SimpleNamespace(category="cat", PF="pkg-1", P="pkg-1", PN="pkg", PV="1", PR="r0", PVR="1",
                                ebuild=types.SimpleNamespace(path=files["ebuild"]), eapi=E["eapi"])
    rnd = random.Random(ctx.seed * 7919 + which)
    prog = _conf_programs(which, rnd)
    null = os.open(os.devnull, os.O_WRONLY)
    try:
        with vebd.alarm(120, "daemon startup"):
            # the daemon's own stderr (bash -n complaints etc.) is not part of the protocol
            ebp = E["processor"].EbuildProcessor(False, False, fd_pipes={2: null})
    finally:
        os.close(null)
    validated = 0
    try:
        real = _Real(ebp, timeout=120)
        # wait until the daemon has reached its main loop (startup regenerates function lists)
        real.send(b"alive\n")
        if real.line() != b"yep!\n":
            raise ModelMismatch("real daemon did not answer the first alive")
        squeue = deque()
        model = M.Daemon(scripts=lambda cmd: squeue.popleft() if squeue else [], handshake=False, cwd=files["cwd"],
                         features=_features(), env_ok=lambda payload: BAD_ENV_KEY.encode() not in payload,
                         env_events=_conf_env_events, eclass_ok=lambda path: not path.endswith("/bad.eclass") and os.path.exists(path))
        trace = []

        def send(data):
            real.send(data)
            model.feed(data)
            trace.append(("w", data))

        def sync(op):
            """compare everything the model says now with the real daemon; returns the model lines"""
            model.pump()
            got = []
            while model.out:
                data, tag = model.out.popleft()
                for piece in data.splitlines(keepends=True):
                    got.append((piece, tag))
            i = 0
            while i < len(got):
                mline, tag = got[i]
                mtext = mline.decode().rstrip("\n")
                if tag.kind == "die" and mtext.startswith("dying"):
                    rl = real.line()
                    if rl is None or not rl.startswith(b"dying"):
                        raise _mismatch(f"{op}: model says die, real daemon sent {rl!r}", rl)
                    while True:
                        rl = real.line()
                        if not rl:
                            raise ModelMismatch(f"{op}: real die output never reached 'dead' ({rl!r})")
                        if rl.strip() == b"dead":
                            break
                    while got[i][0].strip() != b"dead":
                        i += 1
                    i += 1
                    continue
                if mtext.startswith("key "):
                    nreal = 0
                    while True:
                        rl = real.peek_line()
                        if rl and rl.startswith(b"key "):
                            real.line()
                            nreal += 1
                        else:
                            break
                    if not nreal:
                        raise _mismatch(f"{op}: model sends metadata keys, real daemon sent {rl!r}", rl)
                    while i < len(got) and got[i][0].startswith(b"key "):
                        i += 1
                    continue
                if mtext.startswith("receive_env "):
                    rl = real.line()
                    if not rl or not rl.startswith(b"receive_env "):
                        raise _mismatch(f"{op}: model sends receive_env, real daemon sent {rl!r}", rl)
                    real.raw(int(rl.split()[1]))
                    i += 2  # header + raw body
                    continue
                rl = real.line()
                if rl is None:
                    raise ModelMismatch(f"{op}: model sends {mtext!r}, real daemon is silent")
                if rl.decode("utf8", "replace").rstrip("\n") != mtext:
                    raise Deviation(f"{op}: model sends {mtext!r}, real daemon sent {rl!r}")
                i += 1
            if model.alive:
                if not real.quiet(0.15):
                    raise Deviation(f"{op}: model is waiting for input, real daemon sent more: {real.peek_line()!r}")
            else:
                rl = real.line()
                if rl != b"":
                    raise _mismatch(f"{op}: model daemon exited, real daemon still talks: {rl!r}", rl)
            return [g[0].decode().rstrip("\n") for g in got]

        def _conf_step(op):
            k = op[0]
            if k == "alive":
                send(b"alive\n")
                sync(op)
            elif k == "clear":
                send(b"clear_preloaded_eclasses\n")
                lines = sync(op)
                ctx.count("real_clear_reply:" + (lines[0] if lines else "none"))
            elif k == "preload":
                for n in op[1]:
                    send(f"preload_eclass {os.path.join(files['eclass'], n + '.eclass')}\n".encode())
                    sync(op)
            elif k == "paths":
                send(f"set_metadata_path {len(op[1].encode())}\n{op[1]}".encode())  # the count is in bytes
                sync(op)
            elif k in ("keys", "env"):
                _conf_ebuild(files["ebuild"], op[1])
                env = E["processor"].expected_ebuild_env(pkg, {
                    "PKGCORE_EBUILD_PHASES": tuple(pkg.eapi.phases.values()),
                    "PKGCORE_METADATA_KEYS": tuple(pkg.eapi.metadata_keys)}, depends=True)
                data = ebp._generate_env_str(env)
                squeue.append([list(e) for e in op[1]])
                send(f"{'gen_metadata' if k == 'keys' else 'gen_ebuild_env'} {len(data)}\n{data}".encode())
                for _ in range(10):
                    lines = sync(op)
                    if lines and lines[-1].startswith("request_inherit "):
                        name = lines[-1].split()[1]
                        send(f"path\n{os.path.join(files['eclass'], name + '.eclass')}\n".encode())
                    else:
                        break
            elif k == "phase_loop":
                squeue.append([])
                send(f"process_ebuild {op[1]}\n".encode())
                sync(op)
                for sub in op[2]:
                    if sub[0] == "alive":
                        send(b"alive\n")
                    elif sub[0] == "env_bytes":
                        payload = "export VF_A=1 VF_B='x y'" if sub[1] else f"export {BAD_ENV_KEY}=1"
                        send(f"start_receiving_env bytes {len(payload)}\n{payload}".encode())
                    elif sub[0] == "env_bytes_nonascii":
                        payload = "export VF_A='caf\u00e9 \u2713' VF_B=x"
                        send(f"start_receiving_env bytes {len(payload.encode())}\n{payload}".encode())
                    elif sub[0] == "bashrcs":
                        # the env chunk is bash code: let the phase shell run the real __source_bashrcs; the
                        # whole conversation is sent at once so a missing ack shows as a *different* line,
                        # not as silence
                        payload = "__source_bashrcs; true"
                        send(f"start_receiving_env bytes {len(payload)}\n{payload}".encode())
                        sync(op + [sub, "request"])
                        send("".join(f"path\n{os.path.join(files['dir'], n)}\n" for n in sub[1]).encode() + b"end_request\n")
                    elif sub[0] == "inherit_chunk":
                        payload = f"__internal_inherit {sub[1]}; true"
                        send(f"start_receiving_env bytes {len(payload)}\n{payload}".encode())
                        sync(op + [sub, "request"])
                        send(f"path\n{os.path.join(files['eclass'], sub[1] + '.eclass')}\n".encode())
                    elif sub[0] == "env_file":
                        pth = os.path.join(files["T"], "ebd-env-transfer")
                        with open(pth, "w") as f:
                            f.write("export VF_A=1\n" if sub[1] else f"export {BAD_ENV_KEY}=1\n")
                        send(f"start_receiving_env file {pth}\n".encode())
                    elif sub[0] == "logging":
                        send(f"logging {files['log']}\n".encode())
                    elif sub[0] == "sandbox":
                        send(f"set_sandbox_state {sub[1]}\n".encode())
                    elif sub[0] == "bogus":
                        send(b"frobnicate in phase loop\n")
                    elif sub[0] == "shutdown":
                        send(b"shutdown_daemon\n")
                    elif sub[0] == "sigmain":
                        # signal to the main pid while the phase subshell is in the foreground: deferred
                        os.kill(ebp.pid, getattr(real_signal, "SIG" + sub[1]))
                        import time

                        time.sleep(0.5)
                        model.pending_trap = sub[1]
                        continue
                    sync(op + [sub])
            elif k == "raw":
                send(op[1].encode() + b"\n")
                sync(op)
            elif k == "idle_signal":
                os.kill(ebp.pid, getattr(real_signal, "SIG" + op[1]))
                model.idle_signals[model.main_cmds] = op[1]
                # the model handler runs when the main loop looks for its next command
                model._co = _resume_with_signal(model)
                sync(op)
            elif k == "close":
                os.close(real.wfd)
                model.close_input()
                sync(op)
            else:
                raise core.HarnessError(op)

        for op in prog:
            k = op[0]
            try:
                _conf_step(op)
            except Deviation as dv:
                case = {"kind": "conformance", "which": which, "op": op}
                ctx.case(case, nontrivial=True, classes=["conformance", "conformance-deviation"], key=f"dev:{which}:{core.jdump(op)}")
                ctx.violation(f"conformance:real-daemon-deviates:{k}", case,
                              f"real bash daemon and the protocol model (pinned bash source) disagree: {dv}. Either the bash "
                              "side changed (then the python side must follow) or vf/ref/ebd_model.py is out of date")
                break
            validated += 1
            ctx.case({"kind": "conformance", "which": which, "op": op}, nontrivial=True,
                     classes=["conformance", "conformance:" + k], key=f"conf:{which}:{validated}:{core.jdump(op)}")
            if not model.alive:
                break
    finally:
        vebd.kill(ebp)
    ctx.note("traces_validated_against_impl", validated)
    ctx.count("conformance_daemons")


def _resume_with_signal(model):
    """the main loop is blocked in `read`; a trapped signal interrupts it and runs the handler"""
    def co():
        model._run_trap(model.idle_signals[model.main_cmds])
        yield  # pragma: no cover
    return co()


# ---------------------------------------------------------------------------- plan / tasks
def plan(tier, seed):
    # cheap and high-yield first (the wall-clock guard stops generation, not the conformance runs, which
    # spawn real daemons and are started last)
    tasks = [{"task": "literals"}]
    nsh = 10 if tier == "quick" else 8
    for i in range(nsh):
        tasks.append({"task": "schedules", "salt": i, "examples": 500 if tier == "quick" else 12000})
    if tier == "thorough":
        for i in range(12):
            tasks.append({"task": "exhaustive", "part": i, "parts": 12})
    for i in range(2 if tier == "quick" else 8):
        tasks.append({"task": "conformance", "which": (seed + i) % 8 if tier == "quick" else i})
    return tasks


def run_task(ctx, task, **kw):
    if task == "schedules":
        core.hyp_run(ctx, st_case(), lambda c: run_case(ctx, c), kw["examples"], chunk=100, seed_salt=kw["salt"])
    elif task == "exhaustive":
        n = 0
        for i, case in enumerate(ex_cases()):
            if i % kw["parts"] != kw["part"]:
                continue
            if (i // kw["parts"]) % 64 == 0 and ctx.out_of_time():
                break
            run_case(ctx, case)
            n += 1
        else:
            ctx.note("exhaustive_parts_completed", 1)
        ctx.count("exhaustive_cases", n)
    elif task == "literals":
        check_literals(ctx)
    elif task == "conformance":
        conformance(ctx, kw["which"])
    else:
        raise core.HarnessError(task)


def replay(ctx, case):
    if case.get("kind") == "literal":
        check_literals(ctx)
        return
    if case.get("kind") == "conformance":
        conformance(ctx, case.get("which", 0))  # spawns a real daemon and repeats that program
        return
    run_case(ctx, case)


def shrink_case(ctx, bucket, case):
    if case.get("kind") in ("literal", "conformance"):
        return None

    def pred(c):
        return any(b == bucket for b, _ in run_case(ctx, c, record=False))

    # greedy structural shrinking: drop operations, then events, then options
    cur = json.loads(core.jdump(case))
    if not pred(cur):
        return None
    changed = True
    while changed:
        changed = False
        for i in range(len(cur["ops"])):
            cand = dict(cur, ops=cur["ops"][:i] + cur["ops"][i + 1:])
            if cand["ops"] and pred(cand):
                cur, changed = cand, True
                break
        if changed:
            continue
        for cand in _smaller_variants(cur):
            if pred(cand):
                cur, changed = cand, True
                break
    return cur


def _smaller_variants(case):
    def with_op(i, op):
        ops = list(case["ops"])
        ops[i] = op
        return dict(case, ops=ops)

    if case.get("idle_signals"):
        yield dict(case, idle_signals={})
    if case.get("nonascii"):
        yield {k: v for k, v in case.items() if k != "nonascii"}
    if not case.get("eager"):
        yield dict(case, eager=True)
    for i, op in enumerate(case["ops"]):
        k = op[0]
        if k in ("keys", "env"):
            for j in range(len(op[1])):
                yield with_op(i, [k, op[1][:j] + op[1][j + 1:]])
        elif k == "phase":
            for j in range(len(op[3])):
                yield with_op(i, [k, op[1], op[2], op[3][:j] + op[3][j + 1:]])
            for key, v in sorted(op[2].items()):
                if v:
                    yield with_op(i, [k, op[1], dict(op[2], **{key: 0 if key == "nbashrc" else False}), op[3]])
        elif k == "regen":
            for j in range(len(op[2])):
                if len(op[2]) > 1:
                    yield with_op(i, [k, op[1], op[2][:j] + op[2][j + 1:]])
                for m in range(len(op[2][j])):
                    s2 = list(op[2])
                    s2[j] = op[2][j][:m] + op[2][j][m + 1:]
                    yield with_op(i, [k, op[1], s2])
            if op[1]:
                yield with_op(i, [k, False, op[2]])
        elif k == "txn":
            for j in range(len(op[1])):
                if len(op[1]) > 1:
                    yield with_op(i, [k, op[1][:j] + op[1][j + 1:]])
                c = op[1][j]
                if c[0] == "keys":
                    for m in range(len(c[1])):
                        calls = list(op[1])
                        calls[j] = ["keys", c[1][:m] + c[1][m + 1:]]
                        yield with_op(i, [k, calls])
                if c[0] == "preload" and len(c[1]) > 1:
                    for m in range(len(c[1])):
                        calls = list(op[1])
                        calls[j] = ["preload", c[1][:m] + c[1][m + 1:], c[2]]
                        yield with_op(i, [k, calls])
