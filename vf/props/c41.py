"""C41 Parallel map processes every item exactly once (pkgcore.util.thread_pool.map_async).

map_async is called the two ways pkgcore calls it: like operations/regen.py (generator functor that yields
results, `per_thread_args`) and like merge/triggers.py (plain functor returning None, fixed *args, sized work
list), plus functors that return one value per thread.  Items include falsy values (0, None, "") and duplicates.

Two scheduling regimes:

* ``gated``  harness-owned cooperative gates.  The worker functor stops at a gate before every `next()` on its
  per-thread iterator and the (generator / sized) input iterable stops before handing out each item.  A
  controller releases, step by step, the actors named by a schedule (list of [choice, mask] pairs interpreted
  against the sorted set of actors currently at a gate, so every list is a valid schedule).  A worker released
  while the queue is empty blocks inside the pool's queue - those interleavings (worker first / feeder first /
  several workers racing for one item / sentinels arriving while workers hold items) are what a free run rarely
  produces.  The controller knows when the system has settled from harness-side counters only (items handed
  out, items taken, workers at gates / finished); it never looks into the pool.
* ``free``   no gates; `sys.setswitchinterval(1e-6)`, workers and feeder `sleep(0)`/spin at points drawn from a
  per-case seed; up to 200 items x 16 threads.

* ``regen``  the real metadata-regeneration path: `operations.regen.regen_repository()` (which hands
  `regen_iter` to map_async) over harness packages whose metadata access succeeds, raises MetadataException or
  raises a generic exception at generated positions, with and without a repo `_regen_operation_helper`.  Expected
  result = exactly one `(pkg, its own exception)` per generic failure, nothing for the others; every package is
  visited exactly once.  Runs free (no gates) in the helper process with the same hang policy.

Oracle (all from harness-side records): multiset(items seen by workers) == multiset(input); the returned
deque, snapshotted the moment map_async returns, has exactly the results the functors produced (generator:
every yielded value; per-thread value: one per worker that returned non-None; None: nothing); no pool thread is
alive at return; functor received the fixed and per-thread arguments.

Hang policy: every case runs in a forked helper process.  A wait that does not finish is first classified with
`/proc/self/task/*/status`: if every thread other than the controller is in state S and none of them was
scheduled at all (context-switch counters unchanged) across the sampling interval while all harness gates are
open, nothing can ever wake them: that is reported as `no-return:deadlock` (map_async never returns its
results).  Anything else that exceeds the hard cap is a HarnessError (exit 2, inconclusive), never a violation.
Items are only called lost/duplicated after map_async has returned.  The helper process exits after a hang, so
no thread outlives a case; after a normal case the helper checks that only its main thread is left.

Dropped from DESIGN §3 C41: worker functors that raise (regen_iter and _run_job catch everything; what the
pool should do then is not part of the statement); exhaustive gate enumeration is done for <=3 workers x <=3
items (single-actor steps, capped per configuration) instead of <=4 items.
"""
import json
import os
import random
import re
import select
import signal
import sys
import threading
import time
from collections import Counter

from hypothesis import strategies as st

from .. import core

ID = "C41"
TITLE = "Parallel map processes every item exactly once"
LEVEL = "exploration"
TECHNIQUE = "harness-gated thread schedules (hypothesis-drawn + small-configuration DFS) and free-running stress; multiset oracle from harness-side records"
DESIGN_REF = "DESIGN.md §3 C41"
LEVEL_TEXT = (
    "Generated-schedule search: hypothesis draws inputs, thread counts, functor/iterable styles and gate schedules; thorough "
    "additionally enumerates all single-actor gate schedules for small configurations (DFS, capped) and runs many free-running "
    "cases with a 1 microsecond switch interval. Each run is judged by multiset equality of processed items and results."
)
LEVEL_NOTE = (
    "Gates only order harness-visible steps (take item / hand out item); interleavings inside queue.Queue and deque are left to "
    "the interpreter. Trusted: queue/threading of CPython, /proc thread states for deadlock classification."
)
RULE = (
    "case = (mode, items, threads, functor style, iterable style, per-thread args/kwds, fixed args, schedule or worker seed); "
    "non-trivial = >=2 items, >=2 pool threads started and at least two different workers processed an item; distinct = distinct case JSON"
)
ASSUMPTIONS = [
    "worker functors consume their iterator to the end and do not raise (as regen_iter / ThreadedTrigger._run_job)",
    "a set of threads that are all asleep and were not scheduled during the sampling interval cannot make progress (deadlock classification)",
    "free-running schedules are whatever the interpreter produces; only the gated schedules are reproducible",
]
BUDGET = {"quick": 50, "thorough": 900}

HARD_CAP = 150.0  # seconds a single wait may take before the run is declared inconclusive
QUIET_DT = 0.7


# =====================================================================================
# child side: execute one case, return observations (plain JSON)
# =====================================================================================

def _ikey(x):
    return json.dumps(x, sort_keys=True)


def results_for(item):
    """generator-style functor: results yielded for one item (0, 1 or 2 of them)"""
    if isinstance(item, int) and not isinstance(item, bool):
        out = []
        if item % 3 == 0:
            out.append(["r", item])
        if item % 7 == 0:
            out.append(["r7", item])
        return out
    return [["s", item]]


def ret_value(wid, mine):
    """per-thread return value of the 'ret' functor: None when nothing was processed"""
    if not mine:
        return None
    if wid % 2:
        return "w%d:" % wid + ",".join(_ikey(x) for x in mine)  # a string: must not be splatted into chars
    return ["w", wid, list(mine)]


class _Sized:
    def __init__(self, n, factory):
        self.n = n
        self.factory = factory

    def __len__(self):
        return self.n

    def __iter__(self):
        return self.factory()


def _task_snapshot(exclude):
    out = {}
    try:
        tids = os.listdir("/proc/self/task")
    except OSError:
        return None
    for t in tids:
        if int(t) in exclude:
            continue
        try:
            with open(f"/proc/self/task/{t}/status") as f:
                txt = f.read()
        except OSError:
            return None
        m1 = re.search(r"^State:\s+(\S)", txt, re.M)
        m2 = re.search(r"^voluntary_ctxt_switches:\s+(\d+)", txt, re.M)
        m3 = re.search(r"^nonvoluntary_ctxt_switches:\s+(\d+)", txt, re.M)
        if not (m1 and m2 and m3):
            return None
        out[t] = (m1.group(1), int(m2.group(1)), int(m3.group(1)))
    return out


def all_asleep(exclude, dt=QUIET_DT):
    """True iff every other thread of this process is sleeping and none ran during dt"""
    a = _task_snapshot(exclude)
    time.sleep(dt)
    b = _task_snapshot(exclude)
    if a is None or b is None or not a:
        return False
    return a == b and all(v[0] == "S" for v in a.values())


class Run:
    """state of one case inside the helper process"""

    def __init__(self, case):
        self.case = case
        self.cv = threading.Condition()
        self.gated = case["mode"] == "gated"
        self.free = not self.gated
        self.permits = Counter()
        self.at_gate = set()
        self.finished = set()
        self.registered = 0
        self.pta_calls = 0
        self.ptk_calls = 0
        self.fed = 0
        self.taken = 0
        self.feeder = "none"  # none | running | gate | done
        self.processed = []  # [wid, item]
        self.badargs = []
        self.caller_done = False
        self.result = None
        self.exc = None
        self.alive_at_return = None
        self.thread_exc = []  # exceptions that killed a thread during the case
        self.steps = []  # enabled-set sizes per step (for the DFS)
        self.trace = []
        self.items = case["items"]
        self.fixed_args = (("fixed", 1), "obs") if case.get("extra") else ()
        self.fixed_kw = {"kw1": "v1"} if case.get("extra") else {}

    # ---- gates (called from actor threads) ------------------------------------
    def _gate(self, actor):
        with self.cv:
            self.at_gate.add(actor)
            self.cv.notify_all()
            while not self.free and self.permits[actor] == 0:
                self.cv.wait()
            if self.permits[actor]:
                self.permits[actor] -= 1
            self.at_gate.discard(actor)

    def _pause(self, rnd):
        if rnd is None:
            return
        r = rnd.random()
        if r < 0.35:
            time.sleep(0)
        elif r < 0.45:
            time.sleep(1e-5)
        elif r < 0.6:
            for _ in range(rnd.randrange(1, 60)):
                pass

    # ---- input iterable -----------------------------------------------------------
    def feed_iter(self):
        rnd = random.Random(self.case.get("wseed", 0) * 131 + 7) if not self.gated else None
        with self.cv:
            self.feeder = "running"
        for item in self.items:
            if self.gated:
                with self.cv:
                    self.feeder = "gate"
                self._gate("F")
                with self.cv:
                    self.feeder = "running"
                    self.fed += 1  # counted when handed out; settled once the feeder is back at a gate / done
            else:
                self._pause(rnd)
            yield item
        with self.cv:
            self.feeder = "done"
            self.cv.notify_all()

    def make_iterable(self):
        kind = self.case["iterable"]
        if kind == "list":
            with self.cv:
                self.feeder = "done"  # nothing to gate: all items arrive without harness action
                self.fed = len(self.items)
            return list(self.items)
        if kind == "gen":
            return self.feed_iter()
        if kind == "sized":
            return _Sized(len(self.items), self.feed_iter)
        raise core.HarnessError(f"iterable kind {kind}")

    # ---- functor ----------------------------------------------------------------
    def per_thread_args(self):
        with self.cv:
            i = self.pta_calls
            self.pta_calls += 1
        return (("wid", i),)

    def per_thread_kwds(self):
        with self.cv:
            i = self.ptk_calls
            self.ptk_calls += 1
        return {"ptk": i}

    def _body(self, it, args, kwds):
        case = self.case
        nfix = len(self.fixed_args)
        bad = None
        if tuple(args[:nfix]) != self.fixed_args:
            bad = f"fixed args {args[:nfix]!r}"
        rest = tuple(args[nfix:])
        wid = None
        if case.get("pta"):
            if len(rest) == 1 and isinstance(rest[0], tuple) and len(rest[0]) == 2 and rest[0][0] == "wid":
                wid = rest[0][1]
            else:
                bad = f"per-thread args {rest!r}"
        elif rest:
            bad = f"unexpected extra args {rest!r}"
        kw = dict(kwds)
        if case.get("ptk"):
            if not isinstance(kw.pop("ptk", None), int):
                bad = f"per-thread kwds missing in {kwds!r}"
        if kw != self.fixed_kw:
            bad = f"kwds {kwds!r}"
        with self.cv:
            if wid is None:
                wid = 1000 + self.registered
            self.registered += 1
            if bad:
                self.badargs.append(bad)
        rnd = random.Random(case.get("wseed", 0) * 977 + wid) if not self.gated else None
        actor = "W%04d" % wid
        self._gate(actor)
        mine = []
        while True:
            self._pause(rnd)
            try:
                item = next(it)
            except StopIteration:
                break
            with self.cv:
                self.processed.append([wid, item])
                self.taken += 1
            mine.append(item)
            self._pause(rnd)
            yield wid, item, mine
            if self.gated:
                self._gate(actor)
        with self.cv:
            self.finished.add(actor)
            self.cv.notify_all()

    def make_functor(self):
        kind = self.case["functor"]
        run = self

        if kind == "gen":
            def functor(it, *args, **kwds):
                for _wid, item, _mine in run._body(it, args, kwds):
                    for r in results_for(item):
                        yield r
        elif kind == "none":
            def functor(it, *args, **kwds):
                for _ in run._body(it, args, kwds):
                    pass
        elif kind == "ret":
            def functor(it, *args, **kwds):
                wid = None
                mine = []
                for wid, _item, mine in run._body(it, args, kwds):
                    pass
                if wid is None:
                    return None
                return ret_value(wid, mine)
        else:
            raise core.HarnessError(f"functor kind {kind}")
        return functor

    # ---- caller -----------------------------------------------------------------
    def caller_regen(self, base_threads):
        """mode 'regen': drive operations.regen.regen_repository over harness packages"""
        from pkgcore.operations import regen
        from pkgcore.package.errors import MetadataException

        run = self
        case = self.case
        rnd_seed = case.get("wseed", 0)
        tids = {}

        class Pkg:
            def __init__(self, idx, spec):
                self.idx, self.spec = idx, spec
                self.cpvstr = f"cat/pkg-{idx}"
                self.rnd = random.Random(rnd_seed * 7919 + idx)

            def __str__(self):
                return self.cpvstr

            def _visit(self):
                run._pause(self.rnd)
                with run.cv:
                    wid = tids.setdefault(threading.get_ident(), len(tids))
                    run.processed.append([wid, self.idx])
                run._pause(self.rnd)
                if self.spec == "meta":
                    raise MetadataException(self, "keywords", f"bad metadata {self.idx}")
                if self.spec == "err":
                    raise ValueError(f"boom-{self.idx}")
                if self.spec == "err2":
                    raise KeyError(f"boom-{self.idx}")
                return ("amd64",)

            @property
            def keywords(self):
                return self._visit()

        class Repo:
            pass

        class HelperRepo:
            def _regen_operation_helper(self, **kwds):
                with run.cv:
                    run.pta_calls += 1
                    if kwds != {"force": True}:
                        run.badargs.append(f"helper kwds {kwds!r}")

                def helper(pkg):
                    return pkg._visit()

                return helper

        pkgs = [Pkg(i, sp) for i, sp in enumerate(case["items"])]
        repo = HelperRepo() if case.get("helper") else Repo()
        kwargs = {"force": True} if case.get("helper") else {}
        try:
            out = list(regen.regen_repository(repo, pkgs, None, threads=case["threads"], **kwargs))
            me = threading.current_thread()
            alive = [t.name for t in threading.enumerate() if t not in base_threads and t is not me and t.is_alive()]
            snap = []
            for r in out:
                if isinstance(r, tuple) and len(r) == 2 and isinstance(r[0], Pkg):
                    snap.append([r[0].idx, f"{type(r[1]).__name__}:{r[1].args[0] if getattr(r[1], 'args', None) else r[1]}"])
                else:
                    snap.append(["?", repr(r)])
            with self.cv:
                self.result = snap
                self.alive_at_return = len(alive)
                self.registered = len(tids)
        except Exception as e:  # noqa: BLE001
            b = core.pkg_frame_bucket(e)
            with self.cv:
                self.exc = [b, f"{type(e).__name__}: {e}"]
        finally:
            with self.cv:
                self.caller_done = True
                self.cv.notify_all()

    def caller(self, base_threads):
        if self.case["mode"] == "regen":
            return self.caller_regen(base_threads)
        from pkgcore.util.thread_pool import map_async

        kw = dict(self.fixed_kw)
        if self.case["threads"] is not None:
            kw["threads"] = self.case["threads"]
        if self.case.get("pta"):
            kw["per_thread_args"] = self.per_thread_args
        if self.case.get("ptk"):
            kw["per_thread_kwds"] = self.per_thread_kwds
        try:
            res = map_async(self.make_iterable(), self.make_functor(), *self.fixed_args, **kw)
            snap = list(res)
            me = threading.current_thread()
            alive = [t.name for t in threading.enumerate() if t not in base_threads and t is not me and t.is_alive()]
            with self.cv:
                self.result = snap
                self.alive_at_return = len(alive)
        except Exception as e:  # noqa: BLE001
            b = core.pkg_frame_bucket(e)
            with self.cv:
                self.exc = [b, f"{type(e).__name__}: {e}"]
        finally:
            with self.cv:
                self.caller_done = True
                self.cv.notify_all()

    # ---- controller -------------------------------------------------------------
    def _settled(self):
        """(cv held) no actor will reach a gate / finish without a further release"""
        if self.caller_done or self.thread_exc:
            return True
        if self.registered == 0 and self.feeder in ("none", "running"):
            return False
        if self.feeder == "running" or self.feeder == "none":
            return False
        nw = self.pta_calls if self.case.get("pta") else self.registered
        if self.registered < nw:
            return False
        workers_wait = sum(1 for a in self.at_gate if a != "F")
        inflight = nw - workers_wait - len(self.finished)
        if inflight <= 0:
            return True
        if self.feeder == "done":
            return False  # sentinels are on their way: every in-flight worker will arrive
        return self.fed - self.taken <= 0

    def wait_settled(self, me_tid):
        """-> 'ok' | 'stall' (threads provably idle although the model expects progress)"""
        t0 = time.time()
        while True:
            with self.cv:
                if self._settled():
                    return "ok"
                notified = self.cv.wait(0.5)
                if self._settled():
                    return "ok"
            if notified:
                continue
            # half a second without any harness-visible event: is anything still able to run?
            if all_asleep({me_tid}):
                with self.cv:
                    if self._settled():
                        return "ok"
                return "stall"
            if time.time() - t0 > HARD_CAP:
                return "timeout"

    def control(self):
        me_tid = threading.get_native_id()
        base = set(threading.enumerate())

        def hook(a):
            import traceback

            b = core.pkg_frame_bucket(a.exc_value) if a.exc_value is not None else None
            in_harness = any("/vf/" in fr.filename.replace("\\", "/") for fr in traceback.extract_tb(a.exc_traceback))
            with self.cv:
                self.thread_exc.append(
                    [b, f"{a.exc_type.__name__}: {a.exc_value}", a.thread.name if a.thread else "?", bool(in_harness and b is None)]
                )
                self.cv.notify_all()

        threading.excepthook = hook
        th = threading.Thread(target=self.caller, args=(base,), name="vf-caller", daemon=True)
        th.start()
        status = "ok"
        if self.gated:
            sched = list(self.case.get("schedule") or [])
            si = 0
            while True:
                status = self.wait_settled(me_tid)
                if status != "ok":
                    break
                with self.cv:
                    if self.caller_done or self.thread_exc:
                        break
                    enabled = sorted(self.at_gate)
                    if not enabled:
                        # everybody finished; the caller is about to return
                        pass
                    elif si < len(sched):
                        c, mask = sched[si]
                        si += 1
                        pick = {enabled[c % len(enabled)]}
                        for i, a in enumerate(enabled):
                            if mask >> i & 1:
                                pick.add(a)
                        self.steps.append(len(enabled))
                        self.trace.append(sorted(pick))
                        for a in pick:
                            self.permits[a] += 1
                            self.at_gate.discard(a)
                            if a == "F":
                                self.feeder = "running"
                        self.cv.notify_all()
                        continue
                    else:
                        self.steps.append(len(enabled))
                        break
                # nothing enabled: wait for the caller
                with self.cv:
                    if not self.caller_done:
                        self.cv.wait(0.05)
            with self.cv:
                self.free = True
                self.cv.notify_all()
        # run to completion
        hang = None
        t0 = time.time()
        while True:
            th.join(1.0)
            if not th.is_alive():
                break
            if all_asleep({me_tid}) and th.is_alive():
                with self.cv:
                    done = self.caller_done
                if not done and all_asleep({me_tid}, 1.5) and th.is_alive():
                    hang = "deadlock"
                    break
            if time.time() - t0 > HARD_CAP:
                hang = "timeout"
                break
        leftover = 0
        if hang is None:
            t1 = time.time()
            for t in list(threading.enumerate()):
                if t in base or t is th:
                    continue
                t.join(max(0.0, 20.0 - (time.time() - t1)))
                if t.is_alive():
                    leftover += 1
        with self.cv:
            obs = {
                "status": status,
                "hang": hang,
                "leftover": leftover,
                "processed": list(self.processed),
                "result": self.result,
                "exc": self.exc,
                "alive_at_return": self.alive_at_return,
                "badargs": list(self.badargs),
                "thread_exc": list(self.thread_exc),
                "workers": self.registered,
                "pta_calls": self.pta_calls,
                "fed": self.fed,
                "feeder": self.feeder,
                "finished": len(self.finished),
                "steps": list(self.steps),
                "trace": list(self.trace),
            }
        obs["child_exits"] = bool(hang or leftover)
        return obs


def _child_main(rfd, wfd):
    rf = os.fdopen(rfd, "r")
    wf = os.fdopen(wfd, "w")
    signal.signal(signal.SIGINT, signal.SIG_DFL)
    for line in rf:
        case = json.loads(line)
        sys.setswitchinterval(1e-6 if case["mode"] in ("free", "regen") else 0.005)
        try:
            obs = Run(case).control()
        except BaseException as e:  # noqa: BLE001
            import traceback

            obs = {"harness_error": traceback.format_exc(), "child_exits": True}
        if threading.active_count() != 1:
            obs["child_exits"] = True  # never carry a thread over into the next case
        wf.write(json.dumps(obs, default=repr) + "\n")
        wf.flush()
        if obs.get("child_exits"):
            break
    os._exit(0)


class Helper:
    """parent side handle of the forked helper process"""

    def __init__(self):
        self.pid = None

    def start(self):
        import pkgcore.operations.regen  # noqa: F401
        import pkgcore.util.thread_pool  # noqa: F401  (import before forking: the helper starts warm)

        c2p_r, c2p_w = os.pipe()
        p2c_r, p2c_w = os.pipe()
        pid = os.fork()
        if pid == 0:
            try:
                os.close(c2p_r)
                os.close(p2c_w)
                _child_main(p2c_r, c2p_w)
            finally:
                os._exit(0)
        os.close(c2p_w)
        os.close(p2c_r)
        self.pid = pid
        self.rf = os.fdopen(c2p_r, "r")
        self.wf = os.fdopen(p2c_w, "w")

    def stop(self, kill=False):
        if self.pid is None:
            return
        try:
            self.wf.close()
        except OSError:
            pass
        if kill:
            try:
                os.kill(self.pid, signal.SIGKILL)
            except ProcessLookupError:
                pass
        else:
            # the child leaves its loop on EOF; do not wait forever
            for _ in range(200):
                p, _s = os.waitpid(self.pid, os.WNOHANG)
                if p:
                    break
                time.sleep(0.01)
            else:
                try:
                    os.kill(self.pid, signal.SIGKILL)
                except ProcessLookupError:
                    pass
        try:
            os.waitpid(self.pid, 0)
        except ChildProcessError:
            pass
        try:
            self.rf.close()
        except OSError:
            pass
        self.pid = None

    def run(self, case):
        if self.pid is None:
            self.start()
        try:
            self.wf.write(json.dumps(case) + "\n")
            self.wf.flush()
        except (BrokenPipeError, OSError):
            self.stop(kill=True)
            self.start()
            self.wf.write(json.dumps(case) + "\n")
            self.wf.flush()
        r, _, _ = select.select([self.rf], [], [], 3 * HARD_CAP + 60)
        if not r:
            self.stop(kill=True)
            raise core.HarnessError(f"C41 helper process did not answer for case {case}")
        line = self.rf.readline()
        if not line:
            self.stop(kill=True)
            raise core.HarnessError(f"C41 helper process died on case {case}")
        obs = json.loads(line)
        if obs.get("child_exits"):
            self.stop(kill=False)
        if "harness_error" in obs:
            raise core.HarnessError("C41 helper: " + obs["harness_error"])
        return obs


# =====================================================================================
# parent side: oracle
# =====================================================================================

def judge_regen(ctx, case, obs):
    """oracle for mode 'regen' (regen_repository over harness packages)"""
    specs = case["items"]
    n = len(specs)
    cl = ["mode:regen", f"regen:threads:{case['threads']}", "regen:helper" if case.get("helper") else "regen:attr-access"]
    cl.append("items:0" if n == 0 else "items:1" if n == 1 else "items:2-9" if n < 10 else "items:10+")
    for k in ("meta", "err", "err2"):
        if k in specs:
            cl.append(f"regen:has_{k}")
    # did some worker go on to another package after one that failed generically?
    failed_workers = set()
    continued = False
    after_kinds = set()
    for wid, idx in obs["processed"]:
        if wid in failed_workers and isinstance(idx, int) and idx < n:
            continued = True
            after_kinds.add(specs[idx])
        if isinstance(idx, int) and idx < n and specs[idx] in ("err", "err2"):
            failed_workers.add(wid)
    if continued:
        cl.append("regen:worker_continued_after_generic_error")
        for k in sorted(after_kinds):
            cl.append(f"regen:after_error_{k}")
    if len({w for w, _ in obs["processed"]}) >= 2:
        cl.append("two_workers_busy")
    ctx.case(case, nontrivial=n >= 2 and continued, classes=cl)

    if obs.get("thread_exc"):
        b, msg, tname, harness_fault = obs["thread_exc"][0]
        if harness_fault:
            raise core.HarnessError(f"C41 harness code raised inside a pool thread: {msg}")
        ctx.violation(b or f"regen:pool-thread-died:{msg.split(':')[0]}", case, f"pool thread {tname} died during regen: {msg}")
        return
    if obs.get("exc"):
        b, msg = obs["exc"]
        if b is None:
            raise core.HarnessError(f"C41 harness exception in regen caller: {msg}")
        ctx.violation(b, case, msg)
        return
    if obs["hang"] == "deadlock":
        ctx.violation("no-return:deadlock:regen", case, f"regen_repository never returned: all threads asleep (visited {len(obs['processed'])}/{n})")
        return
    if obs["hang"] == "timeout":
        raise core.HarnessError(f"C41 inconclusive: regen wait exceeded {HARD_CAP}s without a provable deadlock, case {case}")
    if obs["result"] is None:
        raise core.HarnessError(f"C41 harness: no regen result and no exception for {case}: {obs}")
    visits = Counter(idx for _w, idx in obs["processed"])
    missing = [i for i in range(n) if visits[i] == 0]
    twice = [i for i in range(n) if visits[i] > 1]
    if missing:
        ctx.violation("regen:pkg-not-visited", case, f"packages never regenerated: {missing[:6]}")
    if twice:
        ctx.violation("regen:pkg-visited-twice", case, f"packages regenerated more than once: {twice[:6]}")
    exc_name = {"err": "ValueError", "err2": "KeyError"}
    exp = Counter(_ikey([i, f"{exc_name[sp]}:boom-{i}"]) for i, sp in enumerate(specs) if sp in exc_name)
    res = Counter(_ikey(r) for r in obs["result"])
    if res - exp:
        inv = sorted((res - exp).elements())
        kinds = sorted({specs[json.loads(x)[0]] if isinstance(json.loads(x)[0], int) and json.loads(x)[0] < n else "?" for x in inv})
        ctx.violation(
            "regen:invented-result:" + "+".join(kinds),
            case,
            f"returned (pkg, error) pairs that no package produced: {inv[:4]} ({len(inv)} in all; specs={''.join(s[0] for s in specs)})",
        )
    if exp - res:
        ctx.violation("regen:lost-result", case, f"generic failures missing from the result: {sorted((exp - res).elements())[:4]}")
    if obs["alive_at_return"]:
        ctx.violation("threads:alive-at-return:regen", case, f"{obs['alive_at_return']} pool thread(s) alive after regen_repository returned")
    if obs["badargs"]:
        ctx.violation("regen:helper-kwargs", case, f"{obs['badargs'][:2]}")
    if case.get("helper") and n and obs["pta_calls"] < 1:
        ctx.violation("regen:helper-not-used", case, "repo._regen_operation_helper was never called")
    if obs["leftover"]:
        raise core.HarnessError(f"C41 harness: {obs['leftover']} thread(s) could not be joined after regen, case {case}")


def judge(ctx, case, obs):
    if case["mode"] == "regen":
        return judge_regen(ctx, case, obs)
    items = case["items"]
    n = len(items)
    by_worker = {}
    for wid, item in obs["processed"]:
        by_worker.setdefault(wid, []).append(item)
    cl = [f"mode:{case['mode']}", f"functor:{case['functor']}", f"iterable:{case['iterable']}", f"threads:{case['threads']}"]
    cl.append("items:0" if n == 0 else "items:1" if n == 1 else "items:2-9" if n < 10 else "items:10+")
    if case["threads"] is not None and n and case["threads"] > n:
        cl.append("more_threads_than_items")
    if any(i is None or i == 0 or i == "" for i in items):
        cl.append("falsy_item")
    if len({_ikey(i) for i in items}) < n:
        cl.append("duplicate_items")
    busy = sum(1 for v in by_worker.values() if v)
    if busy >= 2:
        cl.append("two_workers_busy")
    if case["mode"] == "gated":
        tr = obs.get("trace") or []
        if any(len(s) > 1 for s in tr):
            cl.append("simultaneous_release")
        if tr and tr[0] != ["F"] and case["iterable"] != "list":
            cl.append("worker_released_before_first_item")
    nontriv = n >= 2 and obs.get("workers", 0) >= 2 and busy >= 2
    ctx.case(case, nontrivial=nontriv, classes=cl)
    nviol_before = sum(v["count"] for v in ctx.violations.values())

    if obs.get("exc"):
        b, msg = obs["exc"]
        if b is None:
            raise core.HarnessError(f"C41 harness exception in caller: {msg}")
        ctx.violation(b, case, msg)
        return
    if obs.get("thread_exc"):
        # a pool thread died with an exception the functor did not raise: whatever is lost afterwards is a consequence
        b, msg, tname, harness_fault = obs["thread_exc"][0]
        if harness_fault:
            raise core.HarnessError(f"C41 harness code raised inside a pool thread: {msg}")
        where = "kwds" if (case.get("ptk") or case.get("extra")) else "nokwds"
        ctx.violation(b or f"pool-thread-died:{msg.split(':')[0]}:{where}", case, f"pool thread {tname} died: {msg} ({len(obs['thread_exc'])} thread(s)); hang={obs['hang']}")
        return
    if obs["hang"] == "deadlock":
        got = Counter(_ikey(i) for _w, i in obs["processed"])
        want = Counter(_ikey(i) for i in items)
        ctx.violation(
            "no-return:deadlock",
            case,
            f"map_async never returned: all {obs['workers']} pool threads and the caller are asleep with every harness gate open "
            f"(processed {sum(got.values())}/{n} items, missing {sorted((want - got).elements())[:5]}, feeder={obs['feeder']}, finished workers={obs['finished']})",
        )
        return
    if obs["hang"] == "timeout" or obs["status"] == "timeout":
        raise core.HarnessError(f"C41 inconclusive: wait exceeded {HARD_CAP}s without a provable deadlock, case {case}")
    if obs["result"] is None:
        raise core.HarnessError(f"C41 harness: no result and no exception for {case}: {obs}")

    # map_async has returned: multiset checks are meaningful now
    got = Counter(_ikey(i) for _w, i in obs["processed"])
    want = Counter(_ikey(i) for i in items)
    lost = want - got
    dup = got - want
    if lost:
        ctx.violation("items:lost", case, f"never handed to a worker: {sorted(lost.elements())[:6]} ({sum(lost.values())} of {n})")
    if dup:
        ctx.violation("items:duplicated", case, f"handed out more often than present: {sorted(dup.elements())[:6]}")
    kind = case["functor"]
    if kind == "gen":
        exp = Counter(_ikey(r) for i in items for r in results_for(i))
    elif kind == "none":
        exp = Counter()
    else:
        exp = Counter(_ikey(ret_value(w, m)) for w, m in by_worker.items() if m)
    res = Counter(_ikey(r) for r in obs["result"])
    if exp - res:
        ctx.violation(f"results:lost:{kind}", case, f"missing from the returned results: {sorted((exp - res).elements())[:5]} ({sum((exp - res).values())} of {sum(exp.values())})")
    if res - exp:
        ctx.violation(f"results:unexpected:{kind}", case, f"returned but never produced: {sorted((res - exp).elements())[:5]}")
    if obs["alive_at_return"]:
        ctx.violation("threads:alive-at-return", case, f"{obs['alive_at_return']} pool thread(s) still alive when map_async returned")
    if obs["badargs"]:
        ctx.violation("functor-args", case, f"functor called with wrong arguments: {obs['badargs'][:2]}")
    if obs["leftover"]:
        raise core.HarnessError(f"C41 harness: {obs['leftover']} thread(s) could not be joined after map_async returned, case {case}")
    if obs["status"] == "stall":
        ctx.count("model_stall")
        if sum(v["count"] for v in ctx.violations.values()) == nviol_before:
            raise core.HarnessError(f"C41 inconclusive: gate model stalled but map_async completed consistently, case {case} obs={obs}")


# =====================================================================================
# generation
# =====================================================================================

ITEM = st.one_of(
    st.integers(0, 30),
    st.integers(0, 30),
    st.sampled_from([None, "", "s", 0, 21, 42]),
    st.lists(st.integers(0, 3), max_size=2),
)


@st.composite
def gated_case(draw):
    n = draw(st.sampled_from([0, 1, 2, 2, 3, 3, 4, 4, 5, 6, 8]))
    items = draw(st.lists(ITEM, min_size=n, max_size=n))
    threads = draw(st.sampled_from([1, 2, 2, 2, 3, 3, 3, 4, 4, 5]))
    steps = draw(st.lists(st.tuples(st.integers(0, 5), st.sampled_from([0, 0, 0, 1, 2, 3, 6, 7, 12, 31])), max_size=3 * len(items) + 2 * threads + 4))
    return {
        "mode": "gated",
        "items": items,
        "threads": threads,
        "functor": draw(st.sampled_from(["gen", "gen", "none", "ret"])),
        "iterable": draw(st.sampled_from(["gen", "sized", "sized", "list"])),
        "pta": True,
        "ptk": draw(st.booleans()),
        "extra": draw(st.booleans()),
        "schedule": [list(s) for s in steps],
    }


@st.composite
def free_case(draw):
    big = draw(st.booleans())
    if big:
        n = draw(st.integers(20, 200))
        base = draw(st.integers(0, 5))
        items = [base + i if i % 11 else draw(ITEM) for i in range(n)]
    else:
        n = draw(st.sampled_from([0, 1, 2, 3, 5, 8, 13, 24]))
        items = draw(st.lists(ITEM, min_size=n, max_size=n))
    return {
        "mode": "free",
        "items": items,
        "threads": draw(st.sampled_from([1, 2, 2, 3, 3, 4, 4, 5, 6, 8, 8, 12, 16, 16, None])),
        "functor": draw(st.sampled_from(["gen", "gen", "none", "ret"])),
        "iterable": draw(st.sampled_from(["gen", "sized", "list", "list"])),
        "pta": draw(st.booleans()),
        "ptk": draw(st.booleans()),
        "extra": draw(st.booleans()),
        "wseed": draw(st.integers(0, 10**6)),
    }


@st.composite
def regen_case(draw):
    n = draw(st.sampled_from([0, 1, 2, 3, 4, 6, 9, 14, 30]))
    specs = draw(st.lists(st.sampled_from(["ok", "ok", "ok", "meta", "err", "err", "err2"]), min_size=n, max_size=n))
    return {
        "mode": "regen",
        "items": specs,
        "threads": draw(st.sampled_from([1, 1, 2, 2, 3, 4, 8])),
        "helper": draw(st.booleans()),
        "wseed": draw(st.integers(0, 10**6)),
    }


def regen_grid():
    """every spec word up to length 4 over {ok, meta, err} with 1 and 2 threads (deterministic part)"""
    import itertools

    for n in range(0, 5):
        for w in itertools.product(["ok", "meta", "err"], repeat=n):
            for threads in (1, 2):
                yield {"mode": "regen", "items": list(w), "threads": threads, "helper": (n + threads) % 2 == 0, "wseed": n}


def plan(tier, seed):
    import pkgcore.operations.regen  # noqa: F401
    import pkgcore.util.thread_pool  # noqa: F401  (warm import: forked task workers inherit it)

    tasks = []
    # regen path first: small, deterministic grid + hypothesis; its first chunk ignores the wall-clock guard
    tasks.append({"task": "regen_grid", "slice": 0, "nslices": 2})
    tasks.append({"task": "regen_grid", "slice": 1, "nslices": 2})
    for _ in range(2 if tier == "quick" else 8):
        tasks.append({"task": "regen", "examples": 150 if tier == "quick" else 3000})
    if tier == "quick":
        tasks.append({"task": "dfs", "configs": [[2, 2, "sized", "gen"]], "cap": 150})
        for _ in range(6):
            tasks.append({"task": "gated", "examples": 200})
        for _ in range(4):
            tasks.append({"task": "free", "examples": 100})
    else:
        for cfg in ([2, 1, "gen", "gen"], [2, 2, "sized", "gen"], [2, 2, "gen", "ret"], [3, 2, "gen", "gen"], [2, 3, "sized", "gen"],
                    [2, 3, "gen", "none"], [3, 3, "gen", "gen"], [3, 1, "sized", "ret"]):
            tasks.append({"task": "dfs", "configs": [cfg], "cap": 6000})
        for _ in range(24):
            tasks.append({"task": "gated", "examples": 1500})
        for _ in range(16):
            tasks.append({"task": "free", "examples": 700})
    return tasks


def run_one(ctx, helper, case):
    obs = helper.run(case)
    judge(ctx, case, obs)
    return obs


def dfs(ctx, helper, threads, nitems, iterable, functor, cap):
    """all single-actor gate schedules of one small configuration (stateless search with re-execution)"""
    base = {
        "mode": "gated",
        "items": [0, 3, 7][:nitems] if nitems <= 3 else list(range(nitems)),
        "threads": threads,
        "functor": functor,
        "iterable": iterable,
        "pta": True,
        "ptk": False,
        "extra": False,
    }
    stack = [[]]
    runs = 0
    complete = True
    while stack:
        if runs >= cap or ctx.out_of_time():
            complete = False
            break
        prefix = stack.pop()
        case = dict(base, schedule=[[c, 0] for c in prefix])
        obs = run_one(ctx, helper, case)
        runs += 1
        steps = obs.get("steps") or []
        # the run followed `prefix`, then ran free. Branch on the first step after the prefix.
        if len(steps) > len(prefix):
            k = steps[len(prefix)]
            for c in range(k - 1, -1, -1):
                stack.append(prefix + [c])
    return runs, complete


def run_task(ctx, task, **kw):
    helper = Helper()
    try:
        if task == "gated":
            core.hyp_run(ctx, gated_case(), lambda c: run_one(ctx, helper, c), kw["examples"], chunk=15)
        elif task == "free":
            core.hyp_run(ctx, free_case(), lambda c: run_one(ctx, helper, c), kw["examples"], chunk=15, seed_salt=3)
        elif task == "regen_grid":
            deadline, ctx.deadline = ctx.deadline, None  # bounded by count, not by the guard
            try:
                k = 0
                for i, c in enumerate(regen_grid()):
                    if i % kw["nslices"] == kw["slice"]:
                        run_one(ctx, helper, c)
                        k += 1
                ctx.note("regen_grid_cases", k)
            finally:
                ctx.deadline = deadline
        elif task == "regen":
            deadline, ctx.deadline = ctx.deadline, None
            try:
                first = min(30, kw["examples"])
                core.hyp_run(ctx, regen_case(), lambda c: run_one(ctx, helper, c), first, chunk=first, seed_salt=5)
            finally:
                ctx.deadline = deadline
            core.hyp_run(ctx, regen_case(), lambda c: run_one(ctx, helper, c), kw["examples"] - first, chunk=15, seed_salt=6)
        elif task == "dfs":
            for threads, nitems, iterable, functor in kw["configs"]:
                runs, complete = dfs(ctx, helper, threads, nitems, iterable, functor, kw["cap"])
                ctx.note(f"dfs_{threads}w_{nitems}i_{iterable}_{functor}", {"runs": runs, "complete": complete})
        else:
            raise core.HarnessError(f"unknown task {task}")
    finally:
        helper.stop(kill=False)


def replay(ctx, case):
    helper = Helper()
    try:
        run_one(ctx, helper, case)
    finally:
        helper.stop(kill=False)
