"""C12 Incremental token expansion follows left-to-right incremental semantics.

What is checked (every comparison is against a reference that is *not* a fold over the stream
in pkgcore's style, but a "last mention wins" model, see `ref_member`):

* `incremental_expansion(tokens, orig=B)` (finalize=True) == reference applied to base B;
  `finalize=False` (the unfinalised form pkgcore keeps for USE): applying the returned marker set
  to any base (`-*` clears, `-x` removes, `x` adds) == reference.
* `optimize_incrementals(tokens)` (the condensed form stored for USE/FEATURES): read as a *set*
  (negations first, then positives: how `domain.use` feeds it to `add_bare_global`) and read as a
  sequence in reverse yield order, applied to base B == reference.
* `incremental_expansion_license(pkg, licenses, groups, tokens)` with groups loaded by
  `repo_objs.Licenses` from a temp `profiles/license_groups` (nested definitions): == reference where
  `*` = the package licenses, `@g` = recursive closure of g computed by the harness, unknown group =
  empty.
* `collapsed_restrict_to_data([(AlwaysTrue, t0)], [(atom, t1), ...]).pull_data(pkg)` (how keyword
  streams are stored): == reference of t0 ++ matching t_i, restricted to the shape callers build
  (global entries first, then atom-keyed entries).
* incomplete negations: `-` (and `-@`, `@` for licenses) => ValueError; for `optimize_incrementals` only
  when no later `-*` exists (the right-to-left walk legally stops there).

Dropped from DESIGN: nothing substantial; the thorough tier enumerates all streams of length <= 6 over
{a,-a,b,-b,-*,-} (design said <= 5), the quick tier length <= 4.
"""
import itertools
import os

from hypothesis import strategies as st

from .. import core

ID = "C12"
TITLE = "Incremental token expansion follows left-to-right incremental semantics"
LEVEL = "exploration"
TECHNIQUE = "differential vs. last-mention-wins reference; bounded-exhaustive short streams + hypothesis streams; real license_groups files"
DESIGN_REF = "DESIGN.md §3 C12"
LEVEL_TEXT = (
    "Generated-input search: all token streams up to a length bound over a 6-token alphabet plus hypothesis "
    "streams over flags, negations, -*, *, @groups (nested, missing) and incomplete negations; every stream is "
    "expanded by incremental_expansion (both finalize modes), optimize_incrementals (set and sequence reading), "
    "incremental_expansion_license and collapsed_restrict_to_data and compared with a per-element "
    "last-mention-wins reference over random base sets."
)
LEVEL_NOTE = "Trusted: the reference in this module (ref_member). No proof of absence beyond the enumerated bound."
RULE = (
    "token streams (len<=12) over flags {a,b,c,~a,**}, their negations, -*, *, @FREE/@L1../@ALL (nesting depth 0-3, any listing order)/@missing and "
    "-@g.., plus bare '-', '-@', '@'; random base sets; license worlds = generated license_groups files; "
    "non-trivial = stream has a negation after a positive of the same token (or vice versa), or -* not in first "
    "position, or a group token; distinct = distinct (kind, stream, base)"
)
ASSUMPTIONS = [
    "the condensed form of optimize_incrementals is consumed as a set with negations applied before positives (domain.use / split_negations / add_bare_global) or replayed in reverse yield order",
    "license group files contain acyclic definitions; unknown groups in a token stream expand to nothing",
    "collapsed_restrict_to_data is only asked for the caller shape of domain._make_keywords_filter: global entry first, then atom-keyed entries",
]
BUDGET = {"quick": 50, "thorough": 900}

FLAGS = ["a", "b", "c", "~a", "**"]


# ---------------------------------------------------------------- reference

def ref_member(x, tokens, base, expand=None, star=None):
    """Is element x in the result of applying `tokens` to `base`?  Decided by the LAST token that
    mentions x: a positive mention => in, a negative mention => out, none => x in base.
    expand(name) -> set for @name (license mode), star = set meant by '*' (license mode)."""
    for t in reversed(tokens):
        if t == "-*":
            return False
        if expand is not None:
            if t.startswith("-@"):
                if x in expand(t[2:]):
                    return False
                continue
            if t.startswith("@"):
                if x in expand(t[1:]):
                    return True
                continue
            if t == "*":
                if x in star:
                    return True
                continue
        if t.startswith("-"):
            if t[1:] == x:
                return False
        elif t == x:
            return True
    return x in base


def universe(tokens, base, extra=()):
    u = set(base) | set(extra)
    for t in tokens:
        u.add(t.lstrip("-") if t.startswith("-") else t)
        u.add(t)
    u.discard("")
    return u


def ref_set(tokens, base, expand=None, star=None, extra=()):
    return {x for x in universe(tokens, base, extra) if ref_member(x, tokens, base, expand, star)}


def apply_markers(markers, base):
    """apply an unordered marker set (negations first, then positives) to base"""
    s = set(base)
    if "-*" in markers:
        s.clear()
    for m in markers:
        if m.startswith("-") and m != "-*":
            s.discard(m[1:])
    for m in markers:
        if not m.startswith("-"):
            s.add(m)
    return s


def stream_classes(tokens):
    cl = []
    seen_pos, seen_neg = set(), set()
    flip = False
    for i, t in enumerate(tokens):
        if t == "-*":
            if i > 0:
                cl.append("star_not_first")
            continue
        if t.startswith("-"):
            n = t[1:]
            if n in seen_pos:
                flip = True
            seen_neg.add(n)
        else:
            if t in seen_neg:
                flip = True
            seen_pos.add(t)
    if flip:
        cl.append("sign_flip")
    if any(t.startswith("@") or t.startswith("-@") for t in tokens):
        cl.append("group")
    if any(t in ("-", "-@", "@") for t in tokens):
        cl.append("incomplete")
    if "*" in tokens:
        cl.append("plain_star")
    return sorted(set(cl))


# ---------------------------------------------------------------- checks

def _misc():
    from pkgcore.ebuild import misc

    return misc


def check_plain(ctx, tokens, base):
    """incremental_expansion (+unfinalized) and optimize_incrementals on a plain stream"""
    misc = _misc()
    tokens = list(tokens)
    base = sorted(base)
    case = {"kind": "plain", "tokens": tokens, "base": base}
    cl = stream_classes(tokens)
    nontrivial = bool(set(cl) & {"star_not_first", "sign_flip"})
    ctx.case(case, nontrivial=nontrivial, classes=cl, key="p|" + " ".join(tokens) + "|" + " ".join(base), n=4)

    bad_first = next((i for i, t in enumerate(tokens) if t == "-"), None)

    def body():
        # ---- incremental_expansion, finalize=True
        try:
            got = misc.incremental_expansion(iter(tokens), orig=set(base))
            raised = False
        except ValueError:
            raised = True
        if bad_first is not None:
            if not raised:
                ctx.violation("reject:incremental_expansion:bare-minus-accepted", case, f"no ValueError, returned {sorted(got)}")
        elif raised:
            ctx.violation("reject:incremental_expansion:spurious-ValueError", case, "ValueError on a complete stream")
        else:
            exp = ref_set(tokens, base)
            if set(got) != exp:
                ctx.violation(f"expansion:{_diffclass(tokens, got, exp)}", case, f"got {sorted(got)} expected {sorted(exp)}")
        # orig=None must start from the empty set
        if bad_first is None:
            got0 = misc.incremental_expansion(list(tokens))
            exp0 = ref_set(tokens, ())
            if set(got0) != exp0:
                ctx.violation(f"expansion-noorig:{_diffclass(tokens, got0, exp0)}", case, f"got {sorted(got0)} expected {sorted(exp0)}")
            # ---- finalize=False: marker set re-applied to the base gives the same result
            # (only for streams without a literal '*' token: the unfinalised form is kept for USE only,
            # where '*' is not a flag; '*' would collide with the '-*' marker)
            m = misc.incremental_expansion(list(tokens), finalize=False)
            re = apply_markers(m, base)
            exp = ref_set(tokens, base)
            if "*" not in tokens and any(not x.startswith("-") and ("-" + x) in m for x in m):
                ctx.violation("unfinalized:contradictory-markers", case, f"marker set {sorted(m)} holds a flag and its negation (result depends on set order)")
            if "*" not in tokens and re != exp:
                ctx.violation(f"unfinalized:{_diffclass(tokens, re, exp)}", case, f"markers {sorted(m)} applied to base give {sorted(re)} expected {sorted(exp)}")
        # ---- optimize_incrementals
        last_star = max((i for i, t in enumerate(tokens) if t == "-*"), default=-1)
        must_raise = any(t == "-" for t in tokens[last_star + 1:])
        may_raise = must_raise
        try:
            opt = list(misc.optimize_incrementals(list(tokens)))
            raised = False
        except ValueError:
            raised = True
        if raised and not may_raise:
            ctx.violation("reject:optimize_incrementals:spurious-ValueError", case, "ValueError without an unshadowed bare '-'")
        elif not raised and must_raise:
            ctx.violation("reject:optimize_incrementals:bare-minus-accepted", case, f"no ValueError, yielded {opt}")
        elif not raised:
            eff = [t for t in tokens[last_star + 1:]] if last_star >= 0 else tokens
            eff_tokens = (["-*"] if last_star >= 0 else []) + [t for t in eff if t != "-"]
            exp = ref_set(eff_tokens, base)
            as_set = apply_markers(set(opt), base)
            if as_set != exp:
                ctx.violation(f"optimize:set-reading:{_diffclass(tokens, as_set, exp)}", case, f"condensed {opt} as set gives {sorted(as_set)} expected {sorted(exp)}")
            as_seq = misc.incremental_expansion(list(reversed(opt)), orig=set(base))
            if set(as_seq) != exp:
                ctx.violation(f"optimize:seq-reading:{_diffclass(tokens, as_seq, exp)}", case, f"condensed {opt} replayed gives {sorted(as_seq)} expected {sorted(exp)}")
            if len(opt) > len(tokens):
                ctx.violation("optimize:longer-than-input", case, f"condensed {opt}")
            if len(set(opt)) != len(opt):
                ctx.violation("optimize:duplicate-token", case, f"condensed {opt}")

    core.guarded(ctx, case, body)


def _diffclass(tokens, got, exp):
    got, exp = set(got), set(exp)
    extra, missing = got - exp, exp - got
    parts = []
    if extra:
        parts.append("extra")
    if missing:
        parts.append("missing")
    if "-*" in tokens:
        parts.append("with-star")
    return "+".join(parts) or "same"


class LicWorld:
    """license_groups file on disk + the harness' own closure of the definitions"""

    def __init__(self, ctx, defs, tags=()):
        self.tags = list(tags)
        # defs: list of [name, [members...]] (members: license names or @group of an EARLIER entry)
        from types import SimpleNamespace

        from pkgcore.ebuild import repo_objs

        self.defs = defs
        d = ctx.fresh_dir("lic")
        os.makedirs(os.path.join(d, "profiles"))
        with open(os.path.join(d, "profiles", "license_groups"), "w") as f:
            f.write("# generated\n")
            for name, members in defs:
                f.write(name + " " + " ".join(members) + "\n")
        self.licenses = repo_objs.Licenses(SimpleNamespace(location=d))
        raw = dict((n, list(m)) for n, m in defs)

        def closure(n, seen=()):
            out = set()
            for m in raw.get(n, ()):
                if m.startswith("@"):
                    if m[1:] not in seen:
                        out |= closure(m[1:], seen + (n,))
                else:
                    out.add(m)
            return out

        self.closure = {n: closure(n) for n in raw}

    def expand(self, name):
        return self.closure.get(name, set())


def check_license(ctx, world, tokens, pkg_licenses):
    misc = _misc()
    tokens = list(tokens)
    pkg_licenses = sorted(pkg_licenses)
    case = {"kind": "license", "groups": world.defs, "tokens": tokens, "licenses": pkg_licenses}
    cl = stream_classes(tokens)
    nontrivial = bool(set(cl) & {"star_not_first", "sign_flip", "group"})
    ctx.case(case, nontrivial=nontrivial, classes=["license"] + cl + world.tags,
             key="l|" + repr(world.defs) + "|" + " ".join(tokens) + "|" + " ".join(pkg_licenses))
    incomplete = any(t in ("-", "-@", "@") for t in tokens)

    def body():
        groups = world.licenses.groups
        # the group mapping itself (nested expansion) must equal the harness closure
        for n, exp in world.closure.items():
            if set(groups.get(n, ())) != exp:
                ctx.violation("license:group-closure", case, f"group {n}: got {sorted(groups.get(n, ()))} expected {sorted(exp)}")
                return
        try:
            got = misc.incremental_expansion_license("cat/pkg-1", list(pkg_licenses), groups, iter(tokens))
            raised = False
        except ValueError:
            raised = True
        if incomplete:
            if not raised:
                bad = next(t for t in tokens if t in ("-", "-@", "@"))
                ctx.violation(f"reject:license:{bad}-accepted", case, f"no ValueError, returned {sorted(got)}")
            return
        if raised:
            ctx.violation("reject:license:spurious-ValueError", case, "ValueError on a complete stream")
            return
        extra = set(pkg_licenses)
        for s in world.closure.values():
            extra |= s
        exp = ref_set([t for t in tokens], (), expand=world.expand, star=set(pkg_licenses), extra=extra)
        # tokens like '@g', '*' are not elements
        exp = {x for x in exp if not x.startswith("@") and x != "*" and not x.startswith("-")}
        got = set(got)
        if got != exp:
            feat = []
            if any(t.startswith("-@") for t in tokens):
                feat.append("neg-group")
            elif any(t.startswith("@") for t in tokens):
                feat.append("group")
            if "*" in tokens:
                feat.append("star")
            if "-*" in tokens:
                feat.append("clear")
            ctx.violation("license:" + ("+".join(feat) or "names"), case, f"got {sorted(got)} expected {sorted(exp)}")

    core.guarded(ctx, case, body)


PKGS = ["cat/pa-1", "cat/pa-2", "cat/pb-1"]
ATOMS = {  # atom text -> probe packages it matches (hand-written table)
    "cat/pa": {"cat/pa-1", "cat/pa-2"},
    "=cat/pa-1": {"cat/pa-1"},
    ">=cat/pa-2": {"cat/pa-2"},
    "cat/pb": {"cat/pb-1"},
}


def check_collapsed(ctx, default_tokens, entries):
    """collapsed_restrict_to_data in the shape domain._make_keywords_filter builds"""
    from pkgcore.ebuild import atom
    from pkgcore.restrictions import packages
    from pkgcore.test.misc import FakePkg

    misc = _misc()
    case = {"kind": "collapsed", "defaults": list(default_tokens), "entries": [[a, list(t)] for a, t in entries]}
    alltok = list(default_tokens) + [x for _, t in entries for x in t]
    cl = stream_classes(alltok)
    ctx.case(case, nontrivial=bool(set(cl) & {"star_not_first", "sign_flip"}), classes=["collapsed"] + cl,
             key="c|" + core.jdump(case))

    def body():
        data = misc.collapsed_restrict_to_data(
            ((packages.AlwaysTrue, tuple(default_tokens)),),
            ((atom.atom(a), tuple(t)) for a, t in entries),
        )
        for cpv in PKGS:
            toks = list(default_tokens)
            for a, t in entries:
                if cpv in ATOMS[a]:
                    toks += list(t)
            exp = ref_set(toks, ())
            got = set(data.pull_data(FakePkg(cpv)))
            if got != exp:
                ctx.violation(f"collapsed:pull_data:{_diffclass(toks, got, exp)}", dict(case, pkg=cpv),
                              f"{cpv}: got {sorted(got)} expected {sorted(exp)}")
                return
            got_it = set(misc.incremental_expansion(list(data.iter_pull_data(FakePkg(cpv)))))
            if got_it != exp:
                ctx.violation(f"collapsed:iter_pull_data:{_diffclass(toks, got_it, exp)}", dict(case, pkg=cpv),
                              f"{cpv}: iter_pull_data expands to {sorted(got_it)} expected {sorted(exp)}")
                return

    core.guarded(ctx, case, body)


# ---------------------------------------------------------------- strategies

def plain_token():
    f = st.sampled_from(FLAGS)
    return st.one_of(
        f,
        f.map(lambda x: "-" + x),
        st.sampled_from(["-*", "-*", "*", "-"]),
    )


def plain_case():
    toks = st.lists(plain_token(), min_size=0, max_size=12)
    # a bare '-' in most streams would leave little else to compare: keep it rare
    toks = toks.flatmap(lambda l: st.just(l) if "-" not in l else st.sampled_from([l, [t for t in l if t != "-"], [t for t in l if t != "-"]]))
    base = st.sets(st.sampled_from(FLAGS + ["z"]), max_size=4)
    return st.tuples(toks, base)


LIC = ["GPL-2", "MIT", "BSD", "EULA", "CC0"]
GROUP_NAMES = ["FREE", "FREE", "L1", "L2", "L3", "EULAS", "ALL"]


def lic_world():
    """(defs in listing order, class tags): nesting depth 0-3, outer-first / inner-first / mixed listing, siblings"""
    from ..gen import domaincfg

    return domaincfg.tape_strategy(512).map(lambda t: domaincfg.gen_license_group_defs(t, LIC))


def lic_token():
    n = st.sampled_from(LIC)
    g = st.sampled_from(GROUP_NAMES + ["missing"])
    return st.one_of(
        n, n.map(lambda x: "-" + x), g.map(lambda x: "@" + x), g.map(lambda x: "@" + x), g.map(lambda x: "-@" + x),
        st.sampled_from(["*", "-*", "-*"]),
    )


def lic_case():
    toks = st.lists(lic_token(), min_size=0, max_size=10)
    inc = st.sampled_from(["-", "-@", "@"])
    # about one stream in eight carries an incomplete negation at a random position
    toks = st.tuples(toks, inc, st.integers(0, 10), st.sampled_from(range(8))).map(
        lambda t: t[0] if t[3] else t[0][: t[2]] + [t[1]] + t[0][t[2]:]
    )
    return st.tuples(toks, st.sets(st.sampled_from(LIC), min_size=0, max_size=3))


def collapsed_case():
    kw = ["x86", "~x86", "amd64", "**", "*", "~*"]
    tok = st.one_of(st.sampled_from(kw), st.sampled_from(kw).map(lambda x: "-" + x), st.just("-*"))
    ent = st.tuples(st.sampled_from(sorted(ATOMS)), st.lists(tok, min_size=1, max_size=4))
    return st.tuples(st.lists(tok, min_size=1, max_size=5), st.lists(ent, max_size=4))


# ---------------------------------------------------------------- plan / tasks

EXH_ALPHABET = ["a", "-a", "b", "-b", "-*", "-"]
EXH_BASES = [(), ("a",), ("a", "b", "z")]


def plan(tier, seed):
    t = []
    if tier == "quick":
        for i in range(4):
            t.append({"task": "license", "worlds": 12, "examples": 400})
            t.append({"task": "plain", "examples": 3000})
            t.append({"task": "exhaustive", "maxlen": 4, "slice": i, "nslices": 4})
            if i < 2:
                t.append({"task": "collapsed", "examples": 3000})
    else:
        for i in range(16):
            t.append({"task": "exhaustive", "maxlen": 6, "slice": i, "nslices": 16})
        for i in range(8):
            t.append({"task": "plain", "examples": 40000})
        for i in range(12):
            t.append({"task": "license", "worlds": 40, "examples": 1500})
        for i in range(4):
            t.append({"task": "collapsed", "examples": 30000})
    return t


def run_task(ctx, task, **kw):
    if task == "exhaustive":
        n = 0
        full = True
        for L in range(0, kw["maxlen"] + 1):
            for toks in itertools.product(EXH_ALPHABET, repeat=L):
                n += 1
                if n % kw["nslices"] != kw["slice"]:
                    continue
                if n % 512 == 0 and ctx.out_of_time():
                    full = False
                    break
                for b in EXH_BASES:
                    check_plain(ctx, toks, b)
        ctx.note("exhaustive", full)
        ctx.note("exhaustive_maxlen", kw["maxlen"])
    elif task == "plain":
        core.hyp_run(ctx, plain_case(), lambda v: check_plain(ctx, v[0], v[1]), kw["examples"], chunk=1000)
    elif task == "license":
        worlds = []

        def collect(w):
            worlds.append(w)

        core.hyp_run(ctx, lic_world(), collect, kw["worlds"], chunk=kw["worlds"], seed_salt=7)
        for i, (defs, tags) in enumerate(worlds):
            if ctx.out_of_time():
                break
            w = LicWorld(ctx, defs, tags)
            core.hyp_run(ctx, lic_case(), lambda v: check_license(ctx, w, v[0], v[1]), kw["examples"], chunk=kw["examples"], seed_salt=11 + i)
    elif task == "collapsed":
        core.hyp_run(ctx, collapsed_case(), lambda v: check_collapsed(ctx, v[0], v[1]), kw["examples"], chunk=1000, seed_salt=3)
    else:
        raise core.HarnessError(f"unknown task {task}")


def replay(ctx, case):
    k = case.get("kind")
    if k == "plain":
        check_plain(ctx, case["tokens"], case["base"])
    elif k == "license":
        check_license(ctx, LicWorld(ctx, case["groups"]), case["tokens"], case["licenses"])
    elif k == "collapsed":
        check_collapsed(ctx, case["defaults"], [(a, t) for a, t in case["entries"]])
    else:
        raise core.HarnessError(f"unknown case kind {k!r}")
