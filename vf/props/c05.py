"""C05 Atom intersection is symmetric, complete and witnessed.

Generated: ordered pairs of same-key atoms.
  versions     all ordered pairs over {unversioned} + op (7) x version pool (8 versions x revisions None/1/2/10;
               no revision for ~), 201 atoms, both tiers exhaustive
  constraints  all ordered pairs of atoms carrying slot / sub-slot / slot operator / repository / USE deps
               (flags f,g; plain and (+)/(-) default forms; every atom satisfiable on its own) and a blocker prefix
  hyp          random pairs of versioned atoms: one version and one-edit mutations of it (canonical spelling), own
               witness universe per pair

Oracle (three parts):
  symmetric  a.intersects(b) == b.intersects(a)
  complete   if a package of the witness universe W matches both atoms, intersects() must say True
  witnessed  if intersects() says True, some package of W must match both
"matches" = atom.match(pkg) of pkgcore AND the PMS reference (vf.ref.atom_match) agree that it matches; packages on
which the two disagree are *disputed* (that is a C04 violation, counted here as `disputed`, never reported by C05),
and a pair whose only common candidates are disputed is skipped for the witnessed/complete verdicts.

Witness universe and why absence from it is a counter-example.  Let E be the sorted set of all (version, revision)
written in the pool.  Version sets of <,<=,=,>=,>,~ atoms are intervals whose end points lie in E (for ~v: [v, v-rINF)).
PMS order is dense except between consecutive revisions of one version, and succ(v-rN) = v-r(N+1) is the least
element above v-rN.  W contains E, succ(e) for every e in E, one version below min(E); hence every non-empty
intersection of such intervals contains an element of W (any point lies on some e or in a gap (e_i, e_i+1), and a
non-empty gap contains succ(e_i)).  A glob =V* denotes V extended on a component boundary; glob/glob and glob/=,~
intersections are witnessed by the longer written version (in E).  For glob/range W additionally contains each pool
version extended by one perturbation (.0 .1 .99999 letter _alpha _alpha1 _alpha_alpha1 _p _p1 _p99999 _pre1 and an
appended digit) x revisions; a reported-True pair without witness in W is re-searched in an enlarged universe (two
stacked perturbations, reference matcher, candidates confirmed with atom.match) before it is reported.

Dropped: atoms with negate_vers, unevaluated conditional USE forms (f? f=) and self-contradictory USE lists ([f,-f]);
slot/USE parts are combined with a small version set only.
"""
import itertools

from hypothesis import strategies as st

from .. import core
from ..gen import versions as V
from ..ref import atom_match as M
from ..ref import pms_version as R
from . import c04 as A

ID = "C05"
TITLE = "Atom intersection is symmetric, complete and witnessed"
LEVEL = "exploration"
TECHNIQUE = "metamorphic (symmetry) + differential vs. brute-force witness search over a closed package universe"
DESIGN_REF = "DESIGN.md §3 C05"
LEVEL_TEXT = (
    "Generated-input search: every ordered pair of same-key atoms over op x version pool (exhaustive) and over a "
    "slot/sub-slot/repo/USE universe (exhaustive), plus random pairs; intersects() compared in both argument orders "
    "and against the existence of a package, in a universe closed under the relevant perturbations, that both atoms match."
)
LEVEL_NOTE = (
    "Trusted: the closure argument for the witness universe (module docstring), vf/ref/atom_match.py for agreeing on "
    "what 'matches' means; disputed packages (C04 territory) are excluded."
)
RULE = (
    "ordered pairs of same-key atoms; non-trivial = both versioned with different operators, or one is a glob, or "
    "both carry a slot/sub-slot/repo/USE constraint; distinct = distinct ordered pair of atom strings"
)
ASSUMPTIONS = [
    "the witness universe W is closed as argued in the module docstring (enlarged re-search before reporting 'witnessed')",
    "a package 'matches' when pkgcore's atom.match and the PMS reference agree; disagreements belong to C04",
    "atoms are individually satisfiable and carry no unevaluated conditional USE deps",
]
BUDGET = {"quick": 50, "thorough": 900}

OPS = A.OPS
VERS = ["1", "1.0", "1.1", "10", "2", "1_alpha1", "1_p1", "1a"]
REVS = [None, "1", "2", "10"]
PERT = [".0", ".1", ".99999", "a", "z", "_alpha", "_alpha1", "_alpha_alpha1", "_p", "_p1", "_p99999", "_pre1", "0", "1"]
WREVS = [None, "1", "2", "3", "9", "10", "11", "99999"]


def _succ(x):
    v, r = x
    return (v, str(R.rev_int(r) + 1))


def _valid(v):
    return R.valid(v)


def perturb(vers, depth):
    out = set(vers)
    frontier = set(vers)
    for _ in range(depth):
        nxt = set()
        for v in frontier:
            for p in PERT:
                w = v + p
                if _valid(w):
                    nxt.add(w)
        out |= nxt
        frontier = nxt
    return out


def witness_versions(pool, depth=1, revs=WREVS):
    """list of (ver, rev) -- see module docstring"""
    vers = sorted({v for v, _ in pool})
    W = set(pool)
    W |= {_succ(e) for e in pool}
    W |= {_succ(_succ(e)) for e in pool}
    W.add(("0_alpha_alpha", None))
    for v in perturb(vers, depth):
        for r in revs:
            W.add((v, r))
    return sorted(W, key=lambda x: (x[0], x[1] or ""))


def atom_pool():
    atoms = [A.mkatom()]
    for op in OPS:
        for v in VERS:
            for r in REVS:
                if op == "~" and r is not None:
                    continue
                atoms.append(A.mkatom(op=op, ver=v, rev=r))
    return atoms


# ---- the engine ----------------------------------------------------------------------------------

class Engine:
    """match matrices of atoms against a package list, as python-int bitsets"""

    def __init__(self, objs, pkgs):
        self.objs = objs
        self.pkgs = pkgs
        self.pobjs = [objs.pkg(p) for p in pkgs]
        self._cache = {}

    def bits(self, ctx, f):
        s = M.atom_str(f)
        got = self._cache.get(s)
        if got is None:
            a = self.objs.atom(s)
            impl = ref = 0
            for i, (p, po) in enumerate(zip(self.pkgs, self.pobjs)):
                if a.match(po):
                    impl |= 1 << i
                if M.atom_matches(f, p):
                    ref |= 1 << i
            got = self._cache[s] = (a, impl, ref)
        return got


def classify_pair(f, g):
    cl = []
    o1, o2 = f.get("op") or "none", g.get("op") or "none"

    def kind(o):
        return {"none": "none", "=": "eq", "~": "tilde", "=*": "glob"}.get(o, "range")

    cl.append("ops:" + "/".join(sorted((kind(o1), kind(o2)))))
    for name in ("slot", "subslot", "repo"):
        if f.get(name) is not None and g.get(name) is not None:
            cl.append("both:" + name)
    if f.get("use") and g.get("use"):
        cl.append("both:use")
    if f.get("blocks") or g.get("blocks"):
        cl.append("blocker")
    return cl


def nontrivial_pair(f, g):
    o1, o2 = f.get("op", ""), g.get("op", "")
    if o1 and o2 and (o1 != o2 or "=*" in (o1, o2)):
        return True
    for name in ("slot", "repo"):
        if f.get(name) is not None and g.get(name) is not None:
            return True
    return bool(f.get("use") and g.get("use"))


def pair_bucket(kind, f, g):
    def k(o):
        return {"": "none", "=": "eq", "~": "tilde", "=*": "glob"}.get(o, "range")

    parts = sorted((k(f.get("op", "")), k(g.get("op", ""))))
    extra = ""
    if parts == ["range", "range"]:
        same_ver = f["ver"] == g["ver"]
        extra = ":same-version" if same_ver else ""
    if kind != "symmetric":
        for name in ("slot", "subslot", "repo", "use"):
            if f.get(name) and g.get(name) and parts == ["none", "none"]:
                extra += ":" + name
    return f"{kind}:{parts[0]}-vs-{parts[1]}{extra}"


def enlarged_witness(objs, f, g, pool, pkg_template):
    """re-search in a larger universe with the reference; confirm candidates with atom.match"""
    vers = {v for v, _ in pool}
    for x in (f, g):
        if x.get("ver"):
            vers.add(x["ver"])
    cand = witness_versions([(v, None) for v in vers] + [(x["ver"], x.get("rev")) for x in (f, g) if x.get("ver")],
                            depth=2, revs=WREVS + ["0", "4", "12", "100"])
    a, b = objs.atom(M.atom_str(f)), objs.atom(M.atom_str(g))
    disputed = False
    for v, r in cand:
        p = dict(pkg_template, ver=v, rev=r)
        rf, rg = M.atom_matches(f, p), M.atom_matches(g, p)
        if rf and rg:
            po = objs.pkg(p)
            if a.match(po) and b.match(po):
                return "witness", p
            disputed = True
    return ("disputed" if disputed else "none"), None


def check_pair(ctx, objs, eng, f, g, pool, tmpl, extra_classes=()):
    sa, sb = M.atom_str(f), M.atom_str(g)
    case = {"a": sa, "b": sb, "fa": f, "fb": g}
    ctx.case(case, nontrivial=nontrivial_pair(f, g), classes=classify_pair(f, g) + list(extra_classes), key=sa + " | " + sb)

    def body():
        a, impl_a, ref_a = eng.bits(ctx, f)
        b, impl_b, ref_b = eng.bits(ctx, g)
        ab = bool(a.intersects(b))
        ba = bool(b.intersects(a))
        if ab != ba:
            ctx.violation(pair_bucket("symmetric", f, g), case, f"{sa}.intersects({sb})={ab} but reversed={ba}")
        agreed = impl_a & ref_a & impl_b & ref_b
        maybe = (impl_a | ref_a) & (impl_b | ref_b)
        if agreed:
            ctx.count("pairs_with_witness")
            if not ab:
                i = agreed.bit_length() - 1
                ctx.violation(pair_bucket("complete", f, g), dict(case, witness=eng.pkgs[i]),
                              f"{A.pkg_key(eng.pkgs[i])} matches both {sa} and {sb}, intersects() says False")
            return
        if maybe:
            # only disputed candidates: C04 decides those packages first
            ctx.count("disputed_pairs")
            return
        if ab:
            verdict, w = enlarged_witness(objs, f, g, pool, tmpl)
            if verdict == "none":
                ctx.violation(pair_bucket("witnessed", f, g), case,
                              f"{sa}.intersects({sb}) is True but no package of the (enlarged) witness universe matches both")
            elif verdict == "witness":
                ctx.count("witness_only_in_enlarged_universe")
                ctx.note("enlarged_samples", [f"{sa} | {sb} | {A.pkg_key(w)}"])
            else:
                ctx.count("disputed_pairs")
        else:
            ctx.count("pairs_disjoint")

    core.guarded(ctx, case, body)


# ---- universes -----------------------------------------------------------------------------------

def version_universe():
    pool = [(v, r) for v in VERS for r in REVS]
    wv = witness_versions(pool)
    tmpl = A.mkpkg()
    pkgs = [dict(tmpl, ver=v, rev=r) for v, r in wv]
    return pool, tmpl, pkgs


USE_LISTS = [[], ["f"], ["-f"], ["f(+)"], ["-f(+)"], ["f(-)"], ["-f(-)"], ["f", "g"], ["f", "-g"], ["-f", "-g"],
             ["-f(+)", "-g(-)"], ["f(-)", "g"]]


def constraint_atoms():
    atoms = []
    n = 0
    for slot, repo, use in itertools.product([None, "0", "1"], [None, "r1", "r2"], USE_LISTS):
        subs = [(None, None), (None, "="), (None, "*")] if slot is None else [(None, None), ("0", None), ("2", "=")]
        for sub, sop in subs:
            if slot is None and sop and (repo or use):
                continue
            n += 1
            op, ver = (("", None), (">=", "1"), ("=*", "1"), ("<", "2"))[n % 4]
            atoms.append(A.mkatom(op=op, ver=ver, slot=slot, subslot=sub, slotop=sop, repo=repo, use=use,
                                  blocks=("", "", "!", "!!")[(n // 4) % 4]))
    return atoms


def constraint_pkgs():
    pkgs = []
    for ver, slot, sub, repo in itertools.product(["1", "1.5", "2"], ["0", "1"], [None, "0", "2"], ["r1", "r2"]):
        for iuse, use in (((), ()), (("f",), ()), (("f",), ("f",)), (("g",), ("g",)), (("f", "g"), ()),
                          (("f", "g"), ("f",)), (("f", "g"), ("g",)), (("f", "g"), ("f", "g")), (("g",), ())):
            pkgs.append(A.mkpkg(ver=ver, slot=slot, subslot=sub, repo=repo, iuse=iuse, use=use))
    return pkgs


def task_versions(ctx, objs, slice_, nslices):
    pool, tmpl, pkgs = version_universe()
    eng = Engine(objs, pkgs)
    atoms = atom_pool()
    ctx.note("witness_universe_size", len(pkgs))
    ctx.note("atom_pool_size", len(atoms))
    for i, f in enumerate(atoms):
        if i % nslices != slice_:
            continue
        if ctx.out_of_time():
            ctx.note("exhaustive_versions", False)
            return
        for g in atoms:
            check_pair(ctx, objs, eng, f, g, pool, tmpl)
    ctx.note("exhaustive_versions", True)


def task_constraints(ctx, objs, slice_, nslices):
    pkgs = constraint_pkgs()
    eng = Engine(objs, pkgs)
    atoms = constraint_atoms()
    ctx.note("constraint_atoms", len(atoms))
    for i, f in enumerate(atoms):
        if i % nslices != slice_:
            continue
        if ctx.out_of_time():
            ctx.note("exhaustive_constraints", False)
            return
        for g in atoms:
            check_constraint_pair(ctx, objs, eng, f, g)
    ctx.note("exhaustive_constraints", True)


def check_constraint_pair(ctx, objs, eng, f, g, extra_classes=()):
    """constraint universe: versions are from {none, >=1, =1*, <2} whose pairwise intersections all contain 1 or 1.5,
    so the package grid (versions 1, 1.5, 2 x slots x sub-slots x repos x USE states) is closed for them."""
    sa, sb = M.atom_str(f), M.atom_str(g)
    case = {"a": sa, "b": sb, "fa": f, "fb": g}
    ctx.case(case, nontrivial=nontrivial_pair(f, g), classes=classify_pair(f, g) + list(extra_classes), key=sa + " | " + sb)

    def body():
        a, impl_a, ref_a = eng.bits(ctx, f)
        b, impl_b, ref_b = eng.bits(ctx, g)
        ab = bool(a.intersects(b))
        ba = bool(b.intersects(a))
        if ab != ba:
            ctx.violation(constraint_bucket("symmetric", f, g), case, f"{sa}.intersects({sb})={ab} but reversed={ba}")
        agreed = impl_a & ref_a & impl_b & ref_b
        maybe = (impl_a | ref_a) & (impl_b | ref_b)
        if agreed:
            ctx.count("pairs_with_witness")
            if not ab:
                i = agreed.bit_length() - 1
                ctx.violation(constraint_bucket("complete", f, g), dict(case, witness=eng.pkgs[i]),
                              f"{A.pkg_key(eng.pkgs[i])} matches both {sa} and {sb}, intersects() says False")
        elif maybe:
            ctx.count("disputed_pairs")
        elif ab:
            ctx.violation(constraint_bucket("witnessed", f, g), case,
                          f"{sa}.intersects({sb}) is True but no package (versions 1/1.5/2 x slots 0/1 x sub-slots x "
                          f"repos r1/r2 x every IUSE/USE state of f,g) matches both")
        else:
            ctx.count("pairs_disjoint")

    core.guarded(ctx, case, body)


def constraint_bucket(kind, f, g):
    """which constraint decides the pair"""
    parts = []
    for name in ("slot", "subslot", "repo"):
        if f.get(name) is not None and g.get(name) is not None and f[name] != g[name]:
            parts.append(name)
    if f.get("use") and g.get("use"):
        fu = {M.split_use_token(t)[1]: t for t in f["use"]}
        for t in g["use"]:
            neg, flag, d = M.split_use_token(t)
            o = fu.get(flag)
            if o is not None and M.split_use_token(o)[0] != neg:
                parts.append("use" if M.split_use_token(o)[2] == d else "use-defaults-differ")
    return f"{kind}:constraints:{'+'.join(sorted(set(parts))) or 'none'}"


# ---- hypothesis ----------------------------------------------------------------------------------

_op = st.sampled_from(OPS + ("", "=*"))
_ver = V.version()
_i3 = st.integers(0, 3)


def canon(ver, rev):
    """canonical spelling of a version value (no two spellings of one PMS value): `=V*` is textual while every
    other operator compares values, so =1.0 and =1.00* "intersect" on the package spelled 1.00 only -- that
    spelling corner is not what C05 is about"""
    nums, letter, sufs = R.parse(ver)
    out = [str(int(nums[0]))]
    for n in nums[1:]:
        if len(n) > 1 and n[0] == "0":
            n = n.rstrip("0") or "0"
        out.append(n)
    v = ".".join(out) + letter + "".join(f"_{t}{n if n else ''}" for t, n in sufs)
    r = R.rev_int(rev)
    return v, (str(r) if r else None)


@st.composite
def hyp_pair(draw):
    base = draw(_ver)
    out = []
    for _ in range(2):
        op = draw(_op)
        if not op:
            out.append(A.mkatom())
            continue
        how = draw(_i3)
        v, r = canon(*(base if how == 0 else draw(V.mutated(base))))
        if op == "~":
            r = None
        out.append(A.mkatom(op=op, ver=v, rev=r))
    return out[0], out[1]


def check_hyp_pair(ctx, objs, f, g):
    pool = [(x["ver"], x.get("rev")) for x in (f, g) if x.get("ver")]
    if not pool:
        pool = [("1", None)]
    wv = witness_versions(pool)
    tmpl = A.mkpkg()
    eng = Engine(objs, [dict(tmpl, ver=v, rev=r) for v, r in wv])
    check_pair(ctx, objs, eng, f, g, pool, tmpl, extra_classes=("hyp",))
    objs._pk.clear()


def plan(tier, seed):
    A.preload()
    tasks = []
    for i in range(4):  # every slice needs the full atom x package match matrix, so few, larger slices
        tasks.append({"task": "versions", "slice": i, "nslices": 4})
    for i in range(4):
        tasks.append({"task": "constraints", "slice": i, "nslices": 4})
    n, ex = (4, 120) if tier == "quick" else (16, 3000)
    for i in range(n):
        tasks.append({"task": "hyp", "examples": ex})
    return tasks


def run_task(ctx, task, **kw):
    objs = A.Objs()
    if task == "versions":
        task_versions(ctx, objs, kw["slice"], kw["nslices"])
    elif task == "constraints":
        task_constraints(ctx, objs, kw["slice"], kw["nslices"])
    elif task == "hyp":
        core.hyp_run(ctx, hyp_pair(), lambda fg: check_hyp_pair(ctx, objs, fg[0], fg[1]), kw["examples"], chunk=200)
    else:
        raise core.HarnessError(f"unknown task {task}")


def replay(ctx, case):
    objs = A.Objs()
    f, g = case["fa"], case["fb"]
    if any(x.get(n) for x in (f, g) for n in ("slot", "repo", "use", "slotop")):
        check_constraint_pair(ctx, objs, Engine(objs, constraint_pkgs()), f, g)
    else:
        check_hyp_pair(ctx, objs, f, g)
