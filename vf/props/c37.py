"""C37 Bugzilla searches keep their meaning when rendered, combined with & and batched.

A search is generated as a JSON description (tree of named-constructor calls, `any_of`, `&`, `paged`), built with
the real constructors and rendered with `BugQuery.params()`.  Two independent things are then compared on a
handful of synthetic bugs:

  * `meaning(desc, bug)`   -- what the description says, computed from the constructor docstrings only
  * `bz_eval(params, bug)` -- what Bugzilla would do with the rendered parameters (vf/ref/bz.py: repeated plain
                              parameters + boolean chart interpreter, which also rejects slot collisions, orphan
                              o/v/n/j and unbalanced OP/CP)

`&` of two searches must be the conjunction.  Same plain key on both sides follows the documented and unit-tested
union (`test_same_key_values_are_unioned`); those cases are counted in class `same_key_union` and evaluated with
union semantics -- demanding intersection there would contradict the documented contract.

Batching (`BugQuery.batches(base_length, max_length)`): some axis (the `id` parameter or the `v<N>` of a top level
cf_stabilisation_atoms condition) is partitioned in order into non-empty runs, everything else is repeated
unchanged and in the same order, every batch fits `max_length - base_length` whenever each single value would, and
the union of the batches selects what the whole search selects.

Dropped from DESIGN: nothing substantial; `paged` inside `any_of` and zero-argument constructors are not generated
(not a meaningful search).
"""

import copy
import urllib.parse

from hypothesis import strategies as st

from .. import core
from ..ref import bz as R

ID = "C37"
TITLE = "Bugzilla searches keep their meaning when rendered, combined and batched"
LEVEL = "exploration"
TECHNIQUE = "differential: constructor-level meaning vs. reference boolean-chart interpreter on rendered params; partition/budget oracle for batches"
DESIGN_REF = "DESIGN.md §3 C37"
LEVEL_TEXT = (
    "Generated-input search: random trees of named constructors, nested any_of, & chains and paging are rendered and "
    "interpreted by an independent Bugzilla parameter/boolean-chart evaluator over synthetic bugs; batches of long "
    "id/package lists under random budgets are checked for ordered partition, unchanged remainder, budget and "
    "union-equivalence."
)
LEVEL_NOTE = (
    "Trusted: vf/ref/bz.py (chart interpreter written from the Bugzilla search docs; several v<N> are joined with "
    "',' and word-split). No proof of absence."
)
RULE = (
    "render cases: query description trees (<=8 leaves) from ids/product/component/category/unresolved/resolution/"
    "status/cc/assigned_to/keywords/flag/without_tags/package_list_any, any_of (children may be & of chart queries), "
    "&, paged + 6 synthetic bugs over the same small vocabularies; non-trivial = >=2 leaves and the bugs split into "
    "matching and non-matching. batch cases: & of a long id list and/or long package list with other constraints, "
    "random base_length/max_length, plus slot-arithmetic cases: the split package list (40-400 atoms) behind 0-2 single conditions and 0-2 any_of groups of width 1..12/30/94..100 (rendered slot crosses 9->10, 99->100; class split_slot_digits_differ_from_position) with max_length tight over the fixed part; non-trivial = >=2 batches. distinct = canonical JSON of the description(+budget)"
)
ASSUMPTIONS = [
    "vf/ref/bz.py models Bugzilla: plain parameters OR within a key / AND across keys, chart slots walked in numeric "
    "order, OP/CP groups joined by j<N>, word operators split values on whitespace and commas",
    "same-key & follows the documented union merge",
    "values contain no whitespace or commas (one value = one word), as every caller in the tree passes",
]
BUDGET = {"quick": 50, "thorough": 900}

PRODUCTS = ["Gentoo Linux", "Gentoo Security", "Other"]
COMPONENTS = ["Stabilization", "Keywording", "Current packages", "Vulnerabilities"]
CATEGORIES = ["KEYWORDREQ", "STABLEREQ"]
RESOLUTIONS = ["", "FIXED", "INVALID", "OBSOLETE"]
STATUSES = ["UNCONFIRMED", "CONFIRMED", "IN_PROGRESS", "RESOLVED"]
EMAILS = ["amd64@gentoo.org", "x86@gentoo.org", "m@gentoo.org", "o+x@gentoo.org"]
KEYWORDS = ["ALLARCHES", "CC-ARCHES", "PMASKED", "SECURITY"]
FLAGNAMES = ["sanity-check", "review"]
FLAGSTATUS = ["+", "-", "?"]
TAGS = ["nattka:skip", "skip", "foo", "nattka"]
ATOMS = ["=dev-libs/a-1", "dev-libs/a", "=dev-libs/b-2.0_p1-r1", ">=app-misc/c-3", "~dev-python/d-1.2", "dev-libs/a-1"]
BUG_IDS = list(range(1, 13))

SIMPLE_LEAVES = ("ids", "product", "component", "category", "unresolved", "resolution", "status", "cc", "assigned_to")
CHART_LEAVES = ("keywords", "flag", "without_tags", "package_list_any")


# --------------------------------------------------------------------------- strategies

def _sub(pool, lo=1, hi=3):
    return st.lists(st.sampled_from(pool), min_size=lo, max_size=hi, unique=True)


def leaf_simple():
    return st.one_of(
        st.builds(lambda a: {"c": "ids", "a": a}, _sub(BUG_IDS, 1, 4)),
        st.builds(lambda a: {"c": "product", "a": a}, _sub(PRODUCTS, 1, 2)),
        st.builds(lambda a: {"c": "component", "a": a}, _sub(COMPONENTS, 1, 2)),
        st.builds(lambda a: {"c": "category", "a": a}, _sub(CATEGORIES, 1, 2)),
        st.just({"c": "unresolved"}),
        st.builds(lambda a: {"c": "resolution", "a": a}, _sub(["---", "FIXED", "INVALID", "OBSOLETE"], 1, 2)),
        st.builds(lambda a: {"c": "status", "a": a}, _sub(STATUSES, 1, 2)),
        st.builds(lambda a: {"c": "cc", "a": a}, _sub(EMAILS, 1, 2)),
        st.builds(lambda a: {"c": "assigned_to", "a": a}, _sub(EMAILS, 1, 2)),
    )


def leaf_chart():
    return st.one_of(
        st.builds(lambda a: {"c": "keywords", "a": a}, _sub(KEYWORDS, 1, 2)),
        st.builds(lambda n, a: {"c": "flag", "name": n, "a": a}, st.sampled_from(FLAGNAMES), _sub(FLAGSTATUS, 1, 2)),
        st.builds(lambda a: {"c": "without_tags", "a": a}, _sub(TAGS, 1, 2)),
        st.builds(lambda a: {"c": "package_list_any", "a": a}, _sub(ATOMS, 1, 3)),
    )


def chart_query():
    return st.recursive(
        leaf_chart(),
        lambda ch: st.one_of(
            st.builds(lambda q: {"c": "any_of", "q": q}, st.lists(ch, min_size=1, max_size=3)),
            st.builds(lambda a, b: {"c": "and", "q": [a, b]}, ch, ch),
        ),
        max_leaves=5,
    )


def query():
    return st.recursive(
        st.one_of(leaf_simple(), chart_query(), chart_query()),
        lambda ch: st.one_of(
            st.builds(lambda a, b: {"c": "and", "q": [a, b]}, ch, ch),
            st.builds(lambda a, b: {"c": "and", "q": [a, b]}, ch, ch),
            st.builds(lambda a, b: {"c": "and", "q": [a, b]}, ch, ch),
            st.builds(
                lambda q, l, o: {"c": "paged", "q": q, "limit": l, "offset": o},
                ch, st.integers(1, 500), st.sampled_from([0, 0, 1, 50]),
            ),
        ),
        max_leaves=8,
    )


def _rand_bug(rnd):
    def sub(pool, lo, hi):
        return rnd.sample(pool, rnd.randint(lo, hi))

    return {
        "id": rnd.choice(BUG_IDS),
        "product": rnd.choice(PRODUCTS),
        "component": rnd.choice(COMPONENTS),
        "resolution": rnd.choice(RESOLUTIONS),
        "bug_status": rnd.choice(STATUSES),
        "cc": sub(EMAILS, 0, 3),
        "assigned_to": rnd.choice(EMAILS),
        "keywords": sub(KEYWORDS, 0, 2),
        "flagtypes.name": sub([n + s for n in FLAGNAMES for s in FLAGSTATUS], 0, 2),
        "tag": sub(TAGS, 0, 2),
        "cf_stabilisation_atoms": "\n".join(f"{a} amd64 ~x86" for a in sub(ATOMS, 0, 3)),
    }


def bugs(n):
    """n synthetic bugs; drawn as one integer and expanded with a PRNG seeded by it (drawing 11 fields x n bugs
    through hypothesis dominated the run time); the expanded bugs are what the case/replay stores."""
    import random

    return st.integers(0, 2**32 - 1).map(lambda sd: [_rand_bug(r) for r in [random.Random(sd)] for _ in range(n)])


def render_case():
    return st.fixed_dictionaries({"kind": st.just("render"), "q": query(), "bugs": bugs(6)})


_PKG_CHARS = "abcdefghijklmnopqrstuvwxyz0123456789+_-"


def long_atom():
    name = st.text(alphabet=_PKG_CHARS, min_size=1, max_size=30).map(lambda s: "p" + s.strip("-+") + "x")
    return st.builds(
        lambda op, cat, n, v: f"{op}{cat}/{n}-{v}" if op else f"{cat}/{n}",
        st.sampled_from(["=", "=", ">=", "~", ""]),
        st.sampled_from(["dev-libs", "dev-python", "x11-misc"]),
        name,
        st.sampled_from(["1", "1.2.3_p20240101-r3", "0.10"]),
    )


def batch_case():
    ids = st.lists(st.integers(1, 2_000_000), min_size=1, max_size=220, unique=True)
    pkgs = st.lists(long_atom(), min_size=1, max_size=90, unique=True)

    def mk(ids, pkgs, shape, others, paged, maxlen, basefrac, picks, bugs):
        parts = []
        if shape in (0, 2):
            parts.append({"c": "ids", "a": ids})
        if shape in (1, 2):
            parts.append({"c": "package_list_any", "a": pkgs})
        # place the other constraints around the long axes
        for i, o in enumerate(others):
            if i % 2:
                parts.append(o)
            else:
                parts.insert(0, o)
        q = parts[0]
        for p in parts[1:]:
            q = {"c": "and", "q": [q, p]}
        if paged:
            q = {"c": "paged", "q": q, "limit": paged[0], "offset": paged[1]}
        return {"kind": "batch", "q": q, "max": maxlen, "base": int(maxlen * basefrac), "picks": picks, "bugs": bugs}

    return st.builds(
        mk, ids, pkgs, st.sampled_from([0, 0, 1, 1, 2, 2]),
        st.lists(st.one_of(leaf_simple().filter(lambda j: j["c"] != "ids"), chart_query()), max_size=3),
        st.one_of(st.none(), st.tuples(st.integers(1, 500), st.sampled_from([0, 25]))),
        st.one_of(st.integers(60, 600), st.integers(600, 6000), st.just(6000)),
        st.sampled_from([0.0, 0.0, 0.1, 0.5]),
        st.lists(st.integers(0, 10_000), min_size=4, max_size=4),
        bugs(4),
    )


def slot_batch_case():
    """batch cases aimed at slot arithmetic: the split package-list condition sits behind 0-2 single conditions and 0-2
    any_of groups of varying width, so that its rendered slot number crosses 9->10 and 99->100 while its position among
    the top level charts stays small; the value list is long (40-400 short atoms) and max_length is tight relative to
    the fixed part, so several batches are filled to the brim."""
    width = st.sampled_from([1, 2, 3, 4, 5, 6, 7, 7, 8, 8, 9, 10, 11, 12, 30, 94, 95, 96, 97, 97, 98, 99, 100])

    def kwleaf(i):
        return {"c": "keywords", "a": [KEYWORDS[i % len(KEYWORDS)]]}

    def mk(n, stem, ver, op, widths, nsingles, nest, after, ids, slack, basefrac, picks, bugs):
        pkgs = [f"{op}dev-libs/{stem}{i}-{ver}" for i in range(n)]
        parts = [kwleaf(i) for i in range(nsingles)]
        nconds = nsingles
        for w in widths:
            kids = [kwleaf(i) for i in range(w)]
            if nest and w >= 3:
                kids = [{"c": "any_of", "q": kids[:2]}] + kids[2:]
            parts.append({"c": "any_of", "q": kids})
            nconds += w
        if ids:
            parts.insert(0, {"c": "ids", "a": ids})
        parts.append({"c": "package_list_any", "a": pkgs})
        parts.extend(after)
        q = parts[0]
        for p in parts[1:]:
            q = {"c": "and", "q": [q, p]}
        fixed = 80 + 48 * nconds + 30 * len(widths) + 12 * len(ids)  # rough size of everything but the split values
        maxlen = fixed + slack
        return {"kind": "batch", "q": q, "max": maxlen, "base": int(slack * basefrac), "picks": picks, "bugs": bugs}

    return st.builds(
        mk, st.integers(40, 400), st.sampled_from(["p", "pkg", "libfoo-bar"]), st.sampled_from(["1", "1.2.3-r1"]),
        st.sampled_from(["=", "=", "~", ""]).map(lambda o: o), st.lists(width, max_size=2), st.integers(0, 2), st.booleans(),
        st.lists(leaf_chart(), max_size=1), st.one_of(st.just([]), st.just([]), _sub(BUG_IDS, 1, 3)),
        st.one_of(st.integers(200, 900), st.integers(900, 3500)), st.sampled_from([0.0, 0.0, 0.0, 0.2]),
        st.lists(st.integers(0, 10_000), min_size=4, max_size=4), bugs(4),
    )


# --------------------------------------------------------------------------- description -> real query

def _mods():
    from pkgcore.bugzilla import enums, errors, query as Q

    return Q, enums, errors


def build(j):
    Q, E, _ = _mods()
    BQ = Q.BugQuery
    c = j["c"]
    if c == "ids":
        return BQ.ids(j["a"])
    if c == "product":
        return BQ.product(*[E.Product(x) if x in ("Gentoo Linux", "Gentoo Security") else x for x in j["a"]])
    if c == "component":
        return BQ.component(*[E.Component(x) for x in j["a"]])
    if c == "category":
        return BQ.category(*[E.BugCategory[x] for x in j["a"]])
    if c == "unresolved":
        return BQ.unresolved()
    if c == "resolution":
        return BQ.resolution(*j["a"])
    if c == "status":
        return BQ.status(*[E.Status(x) for x in j["a"]])
    if c == "cc":
        return BQ.cc(*j["a"])
    if c == "assigned_to":
        return BQ.assigned_to(*j["a"])
    if c == "keywords":
        return BQ.keywords(*j["a"])
    if c == "flag":
        return BQ.flag(j["name"], *[E.FlagStatus(x) for x in j["a"]])
    if c == "without_tags":
        return BQ.without_tags(*j["a"])
    if c == "package_list_any":
        return BQ.package_list_any(j["a"])
    if c == "any_of":
        return BQ.any_of(*[build(x) for x in j["q"]])
    if c == "and":
        return build(j["q"][0]) & build(j["q"][1])
    if c == "paged":
        return build(j["q"]).paged(j["limit"], j["offset"])
    raise core.HarnessError(f"unknown constructor {c}")


# --------------------------------------------------------------------------- description -> meaning

_CATEGORY_COMPONENT = {"KEYWORDREQ": "Keywording", "STABLEREQ": "Stabilization"}


def gather(j):
    """-> (plain constraints: list of (key, [values]) in order of appearance, chart predicates: list of callables)"""
    c = j["c"]
    if c in ("ids", "product", "component", "resolution", "cc", "assigned_to"):
        key = {"ids": "id"}.get(c, c)
        return [(key, [str(x) for x in j["a"]])], []
    if c == "status":
        return [("bug_status", list(j["a"]))], []
    if c == "unresolved":
        return [("resolution", ["---"])], []
    if c == "category":
        return [("product", ["Gentoo Linux"]), ("component", [_CATEGORY_COMPONENT[x] for x in j["a"]])], []
    if c == "keywords":
        a = list(j["a"])
        return [], [lambda b: any(k in b["keywords"] for k in a)]
    if c == "flag":
        want = [j["name"] + s for s in j["a"]]
        return [], [lambda b: any(f in b["flagtypes.name"] for f in want)]
    if c == "without_tags":
        a = list(j["a"])
        # "exclude bugs carrying any of these tags": substring match on the tag field (nowordssubstr)
        return [], [lambda b: not any(t in have for t in a for have in b["tag"])]
    if c == "package_list_any":
        a = list(j["a"])
        return [], [lambda b: any(p in b["cf_stabilisation_atoms"].split() for p in a)]
    if c == "any_of":
        alts = []
        for child in j["q"]:
            s, ch = gather(child)
            if s:
                raise core.HarnessError("generator produced any_of over a plain constraint")
            alts.append(ch)
        return [], [lambda b: any(all(p(b) for p in alt) for alt in alts)]
    if c == "and":
        ls, lc = gather(j["q"][0])
        rs, rc = gather(j["q"][1])
        return ls + rs, lc + rc
    if c == "paged":
        return gather(j["q"])
    raise core.HarnessError(f"unknown constructor {c}")


def _plain_ok(bug, key, values):
    if key == "id":
        return str(bug["id"]) in values
    if key == "resolution":
        return bug["resolution"] in ["" if v == "---" else v for v in values]
    if key == "cc":
        return any(v in bug["cc"] for v in values)
    return bug[key] in values


def meaning(j):
    plain, charts = gather(j)
    merged = {}
    for key, values in plain:  # documented union for a repeated key
        cur = merged.setdefault(key, [])
        cur.extend(v for v in values if v not in cur)

    def pred(b):
        return all(_plain_ok(b, k, v) for k, v in merged.items()) and all(p(b) for p in charts)

    return pred


def expected_paging(j):
    c = j["c"]
    if c == "paged":
        return (j["limit"], j["offset"])
    if c == "and":
        r = expected_paging(j["q"][1])
        return r if r is not None else expected_paging(j["q"][0])
    return None


def leaves(j):
    if "q" not in j:
        return [j]
    kids = j["q"] if isinstance(j["q"], list) else [j["q"]]
    return [x for k in kids for x in leaves(k)]


def nodes(j):
    yield j
    if "q" in j:
        for k in j["q"] if isinstance(j["q"], list) else [j["q"]]:
            yield from nodes(k)


def nchart(j):
    """number of chart conditions a description contributes at its top level"""
    c = j["c"]
    if c in CHART_LEAVES or c == "any_of":
        return 1
    if c == "and":
        return nchart(j["q"][0]) + nchart(j["q"][1])
    if c == "paged":
        return nchart(j["q"])
    return 0


def classify(j):
    cl = set()
    for n in nodes(j):
        c = n["c"]
        if c == "any_of":
            cl.add("any_of")
            if any(k["c"] == "any_of" for k in n["q"]):
                cl.add("any_of_nested")
            if any(nchart(k) > 1 for k in n["q"]):
                cl.add("any_of_over_conjunction")
        elif c == "and":
            cl.add("and")
            lk = {k for k, _ in gather(n["q"][0])[0]}
            rk = {k for k, _ in gather(n["q"][1])[0]}
            if lk & rk:
                cl.add("same_key_union")
            if nchart(n["q"][0]) and nchart(n["q"][1]):
                cl.add("and_of_charts")
            if n["q"][1]["c"] == "any_of" and nchart(n["q"][0]):
                cl.add("group_after_condition")
            if n["q"][0]["c"] == "any_of" and nchart(n["q"][1]):
                cl.add("condition_after_group")
        elif c == "paged":
            cl.add("paged")
    return sorted(cl)


# --------------------------------------------------------------------------- oracles

def check_render(ctx, case, record=True):
    j = case["q"]
    bugs = case["bugs"]
    Q, E, ERR = _mods()
    q = core.guarded(ctx, case, lambda: build(j))
    if core.crashed(q):
        return
    params = core.guarded(ctx, case, lambda: [(str(k), str(v)) for k, v in q.params()])
    if core.crashed(params):
        return
    cl = classify(j)
    pred = meaning(j)
    want = [bool(pred(b)) for b in bugs]
    nl = len(leaves(j))
    if record:
        ctx.case(case, nontrivial=nl >= 2 and len(set(want)) == 2, classes=cl + [f"leaves_{min(nl, 6)}"],
                 key=core.jdump(j))
    try:
        parsed = R.bz_parse(params)
    except R.ChartError as e:
        ctx.violation(f"render:{e.kind}", case, f"{e}; params={params}")
        return
    got = [R.bz_eval(parsed, b) for b in bugs]
    if got != want:
        if "any_of_over_conjunction" in cl:
            bucket = "meaning:any_of-over-conjunction"
        elif "same_key_union" in cl:
            bucket = "meaning:same-key"
        elif "any_of" in cl:
            bucket = "meaning:any_of"
        elif "and" in cl:
            bucket = "meaning:and"
        else:
            bucket = "meaning:leaf"
        i = next(k for k in range(len(bugs)) if got[k] != want[k])
        ctx.violation(bucket, case, f"bug #{i}: description says {want[i]}, rendered parameters select {got[i]}; params={params}")
    # & as a metamorphic relation on the rendered halves (independent of `meaning`)
    if j["c"] == "and" and not _top_same_key(j):
        halves = []
        for side in j["q"]:
            ps = core.guarded(ctx, case, lambda s=side: [(str(k), str(v)) for k, v in build(s).params()])
            if core.crashed(ps):
                return
            try:
                halves.append(R.bz_parse(ps))
            except R.ChartError:
                halves = None
                break
        if halves:
            for k, b in enumerate(bugs):
                conj = R.bz_eval(halves[0], b) and R.bz_eval(halves[1], b)
                if conj != got[k]:
                    ctx.violation("and:not-conjunction", case,
                                  f"bug #{k}: q1&q2 selects {got[k]} but q1 selects {R.bz_eval(halves[0], b)} and q2 {R.bz_eval(halves[1], b)}")
                    break
    # paging
    exp = expected_paging(j)
    pg = parsed[2]
    gl = pg.get("limit")
    go = pg.get("offset", "0")
    if exp is None:
        if gl is not None or go != "0":
            ctx.violation("paging:unexpected", case, f"limit/offset rendered without paged(): {pg}")
    elif gl != str(exp[0]) or go != str(exp[1]):
        ctx.violation("paging:wrong", case, f"expected limit={exp[0]} offset={exp[1]}, rendered {pg}")


def _top_same_key(j):
    lk = {k for k, _ in gather(j["q"][0])[0]}
    rk = {k for k, _ in gather(j["q"][1])[0]}
    return ["same_key_union"] if lk & rk else []


def _enc(params):
    return urllib.parse.urlencode(params)


def check_batch(ctx, case, record=True):
    j = case["q"]
    base, maxlen = case["base"], case["max"]
    q = core.guarded(ctx, case, lambda: build(j))
    if core.crashed(q):
        return
    res = core.guarded(
        ctx, case, lambda: ([(str(k), str(v)) for k, v in q.params()],
                            [[(str(k), str(v)) for k, v in b.params()] for b in q.batches(base_length=base, max_length=maxlen)])
    )
    if core.crashed(res):
        return
    P, batches = res
    small = {"kind": "batch", "q": _abbrev(j), "max": maxlen, "base": base, "nbatches": len(batches)}
    axes = []
    if any(k == "id" for k, _ in P):
        axes.append("id")
    # top level package-list conditions: slots whose f is cf_stabilisation_atoms outside any group
    depth = 0
    slots = {}
    for k, v in P:
        if k[0] == "f" and k[1:].isdigit():
            slots[int(k[1:])] = v
    for s in sorted(slots):
        if slots[s] == "OP":
            depth += 1
        elif slots[s] == "CP":
            depth -= 1
        elif depth == 0 and slots[s] == "cf_stabilisation_atoms":
            axes.append(f"v{s}")
    cl = ["batch", f"axes_{len(axes)}"]
    # where does each splittable chart sit: rendered slot number vs. position among the top level charts
    digits_differ = set()
    pos = 0
    depth = 0
    for sl in sorted(slots):
        if depth == 0:
            pos += 1
        if slots[sl] == "OP":
            depth += 1
        elif slots[sl] == "CP":
            depth -= 1
        elif depth == 0 and slots[sl] == "cf_stabilisation_atoms" and len(str(sl)) != len(str(pos)):
            digits_differ.add(f"v{sl}")
    if digits_differ:
        cl.append("split_slot_digits_differ_from_position")
        if any(int(a[1:]) >= 100 for a in digits_differ):
            cl.append("split_slot_3_digits")
    if record:
        ctx.case(small, nontrivial=len(batches) >= 2, classes=cl + (["multi_batch"] if len(batches) >= 2 else []),
                 key=core.jdump([j, base, maxlen]))
    if not batches:
        ctx.violation("batch:none", case, "batches() yielded nothing")
        return
    if not axes:
        if batches != [P]:
            ctx.violation("batch:no-axis-changed", case, "no splittable axis but batches() != [query]")
        return
    ok_axis = None
    why = {}
    for ax in axes:
        rest = [(k, v) for k, v in P if k != ax]
        vals = [v for k, v in P if k == ax]
        cat = []
        bad = None
        for i, B in enumerate(batches):
            if [(k, v) for k, v in B if k != ax] != rest:
                bad = f"batch {i}: parameters other than {ax} differ from the query's"
                break
            mine = [v for k, v in B if k == ax]
            if not mine and vals:
                bad = f"batch {i} carries no {ax} value (would select on the other constraints only)"
                break
            cat.extend(mine)
        if bad is None and cat != vals:
            bad = f"concatenated {ax} values differ from the original list (len {len(cat)} vs {len(vals)})"
        if bad is None:
            ok_axis = ax
            break
        why[ax] = bad
    if ok_axis is None:
        kind = "partition"
        if any("other than" in w for w in why.values()) and not any("concatenated" in w or "carries no" in w for w in why.values()):
            kind = "rest-changed"
        elif any("carries no" in w for w in why.values()):
            kind = "empty-batch"
        ctx.violation(f"batch:{kind}", case, "; ".join(f"{a}: {w}" for a, w in why.items()))
        return
    ctx.count(f"axis_{'id' if ok_axis == 'id' else 'chart'}")
    rest = [(k, v) for k, v in P if k != ok_axis]
    vals = [v for k, v in P if k == ok_axis]
    budget = maxlen - base
    def singles_fit(ax):
        r2 = [(k, v) for k, v in P if k != ax]
        fixed = len(_enc(r2)) + (1 if r2 else 0)  # the rest, plus the "&" in front of the value
        return all(fixed + len(_enc([(ax, v)])) <= budget for v in {v for k, v in P if k == ax})

    every_single_fits = singles_fit(ok_axis)
    if len(batches) == 1 and len(axes) > 1:
        # one batch does not reveal which axis batches() chose (it divides only the widest one): demand the budget
        # only if a single value fits whichever axis was meant
        every_single_fits = every_single_fits and all(singles_fit(ax) for ax in axes)
    if ok_axis in digits_differ and len(batches) >= 2:
        ctx.count("split_axis_slot_digits_differ_multi_batch")
        if every_single_fits:
            ctx.count("split_axis_slot_digits_differ_budget_checked")
    if every_single_fits:
        ctx.count("budget_checked")
        for i, B in enumerate(batches):
            n = len(_enc(B))
            if n > budget:
                ctx.violation("batch:over-budget", case,
                              f"batch {i} encodes to {n} > max_length-base_length={budget} although every single value fits")
                break
    else:
        ctx.count("budget_single_value_too_long")
    # union of the batches selects what the whole query selects
    bugs = copy.deepcopy(case["bugs"])
    picks = case["picks"]
    idvals = [v for k, v in P if k == "id"]
    pk = [x for n in leaves(j) if n["c"] == "package_list_any" for x in n["a"]]
    for n, b in enumerate(bugs):
        if idvals and n % 2 == 0:
            b["id"] = int(idvals[picks[n] % len(idvals)])
        if pk and n < 3:
            b["cf_stabilisation_atoms"] = pk[picks[n] % len(pk)] + " amd64"
    try:
        whole = R.bz_parse(P)
        parts = [R.bz_parse(B) for B in batches]
    except R.ChartError as e:
        ctx.violation(f"render:{e.kind}", case, str(e))
        return
    for n, b in enumerate(bugs):
        w = R.bz_eval(whole, b)
        u = any(R.bz_eval(p, b) for p in parts)
        if w != u:
            ctx.violation("batch:union-differs", case, f"bug #{n} (id={b['id']}): whole query selects {w}, union of batches {u}")
            break


def _abbrev(j):
    """evidence-friendly copy of a description: long value lists shortened"""
    if "q" in j:
        out = dict(j)
        out["q"] = [_abbrev(x) for x in j["q"]] if isinstance(j["q"], list) else _abbrev(j["q"])
        return out
    if "a" in j and len(j["a"]) > 6:
        return dict(j, a=list(j["a"][:3]) + [f"... {len(j['a'])} values"])
    return j


def check(ctx, case, record=True):
    if case["kind"] == "render":
        check_render(ctx, case, record)
    elif case["kind"] == "batch":
        check_batch(ctx, case, record)
    else:
        raise core.HarnessError(f"unknown case kind {case.get('kind')}")


# --------------------------------------------------------------------------- runner glue

def plan(tier, seed):
    # the cheap, bounded batch families first (a budget guard hit on a loaded machine then cuts into the render
    # search, which degrades gracefully), few tasks (a worker's start-up costs seconds)
    if tier == "quick":
        b, sb, r, nb, nr = 150, 120, 1000, 4, 4
    else:
        b, sb, r, nb, nr = 2500, 2000, 15000, 16, 16
    tasks = [{"task": "batch", "examples": b, "slot_examples": sb} for _ in range(nb)]
    tasks += [{"task": "render", "examples": r} for _ in range(nr)]
    return tasks


def run_task(ctx, task, **kw):
    if task == "render":
        core.hyp_run(ctx, render_case(), lambda c: check(ctx, c), kw["examples"], chunk=500)
    elif task == "batch":
        core.hyp_run(ctx, slot_batch_case(), lambda c: check(ctx, c), kw.get("slot_examples", 0), chunk=60, seed_salt=7)
        core.hyp_run(ctx, batch_case(), lambda c: check(ctx, c), kw["examples"], chunk=100, seed_salt=3)
    else:
        raise core.HarnessError(f"unknown task {task}")


def replay(ctx, case):
    check(ctx, case)


def _buckets(case):
    c = core.Ctx(ID, "quick", 0)
    check(c, case, record=False)
    return set(c.violations)


def shrink_case(ctx, bucket, case):
    """greedy structural shrink: hoist children, drop list values, drop bugs"""
    cur = copy.deepcopy(case)

    def holds(c):
        try:
            return bucket in _buckets(c)
        except Exception:  # noqa: BLE001
            return False

    def variants(j):
        # replace j by one of its children
        if "q" in j:
            kids = j["q"] if isinstance(j["q"], list) else [j["q"]]
            for k in kids:
                yield k
            if isinstance(j["q"], list) and j["c"] == "any_of" and len(kids) > 1:
                for i in range(len(kids)):
                    yield dict(j, q=kids[:i] + kids[i + 1:])
            for i, k in enumerate(kids):
                for v in variants(k):
                    if isinstance(j["q"], list):
                        yield dict(j, q=kids[:i] + [v] + kids[i + 1:])
                    else:
                        yield dict(j, q=v)
        elif "a" in j and len(j["a"]) > 1:
            n = len(j["a"])
            if n > 4:
                yield dict(j, a=j["a"][: n // 2])
                yield dict(j, a=j["a"][n // 2:])
            else:
                for i in range(n):
                    yield dict(j, a=j["a"][:i] + j["a"][i + 1:])

    progress = True
    rounds = 0
    while progress and rounds < 60:
        progress = False
        rounds += 1
        for v in variants(cur["q"]):
            cand = dict(cur, q=v)
            try:
                if holds(cand):
                    cur = cand
                    progress = True
                    break
            except core.HarnessError:
                continue
        if not progress and cur["kind"] == "render" and len(cur["bugs"]) > 1:
            for i in range(len(cur["bugs"])):
                cand = dict(cur, bugs=cur["bugs"][:i] + cur["bugs"][i + 1:])
                if holds(cand):
                    cur = cand
                    progress = True
                    break
    return cur
