"""C01 Version comparison follows the PMS algorithm and is a total preorder.

Oracle: vf.ref.pms_version (transcribed from PMS Algorithms 3.1-3.7).
"""
import itertools

from hypothesis import strategies as st

from .. import core
from ..gen import versions as V
from ..ref import pms_version as R

ID = "C01"
TITLE = "Version comparison follows the PMS algorithm and is a total preorder"
LEVEL = "exploration"
TECHNIQUE = "differential vs. independent PMS reference; bounded-exhaustive pairs/triples + hypothesis mutation pairs"
DESIGN_REF = "DESIGN.md §3 C01"
LEVEL_TEXT = (
    "Generated-input search: every ordered pair of a bounded version universe (thorough: exhaustive, "
    "quick: seeded slice), all triples of a smaller universe for the order axioms, plus hypothesis "
    "pairs/triples built as one-edit mutations; each compared with a PMS reference for ver_cmp, the six "
    "rich comparisons of versioned CPVs and every version-operator restriction."
)
LEVEL_NOTE = "Trusted: vf/ref/pms_version.py (my transcription of PMS 3.1-3.7). No proof of absence."
RULE = (
    "pairs (v1,r1),(v2,r2) from universe U_k (first comps {0,1,01,10,..}, later comps with leading/trailing "
    "zeros, letters, suffix x number, revisions incl. None/0/01) and hypothesis mutation pairs; non-trivial = "
    "textually different pair that has a leading-zero component, or differing suffix stacks, or a letter, or "
    "revisions spelled differently; distinct = distinct (fullver1, fullver2)"
)
ASSUMPTIONS = [
    "reference model vf/ref/pms_version.py is a faithful transcription of PMS Algorithms 3.1-3.7",
    "versions are driven through VersionedCPV / atom / VersionMatch exactly as pkgcore callers build them",
]
BUDGET = {"quick": 50, "thorough": 900}

OPS = ("<", "<=", "=", ">=", ">", "~")


def _imports():
    from pkgcore.ebuild import atom, cpv, restricts

    return atom, cpv, restricts


def _sgn(x):
    return (x > 0) - (x < 0)


def classify(a, b):
    (v1, r1), (v2, r2) = a, b
    cl = []
    n1, l1, s1 = R.parse(v1)
    n2, l2, s2 = R.parse(v2)
    if (len(n1[0]) > 1 and n1[0][0] == "0") or (len(n2[0]) > 1 and n2[0][0] == "0"):
        cl.append("leading_zero_first")
    if any(len(x) > 1 and x[0] == "0" for x in n1[1:] + n2[1:]):
        cl.append("leading_zero_later")
    if any(x != "0" and x.endswith("0") for x in n1[1:] + n2[1:]):
        cl.append("trailing_zero_later")
    if l1 or l2:
        cl.append("letter")
    if s1 != s2:
        cl.append("suffix_differs")
    if len(s1) != len(s2):
        cl.append("suffix_len_differs")
    if (r1 or None) != (r2 or None) or r1 != r2:
        cl.append("revision_spelling")
    if len(n1) != len(n2):
        cl.append("component_count_differs")
    if any(len(x) > 17 for x in n1 + n2):
        cl.append("huge_number")
    return cl


def where_differs(a, b):
    (v1, r1), (v2, r2) = a, b
    n1, l1, s1 = R.parse(v1)
    n2, l2, s2 = R.parse(v2)
    if R._cmp(int(n1[0]), int(n2[0])) or n1[0] != n2[0]:
        if n1[0] != n2[0]:
            return "first_component"
    if n1 != n2:
        return "later_components"
    if l1 != l2:
        return "letter"
    if s1 != s2:
        return "suffix"
    return "revision"


class Objs:
    """cache of pkgcore objects per (ver, rev)"""

    def __init__(self):
        self.atom, self.cpv, self.restricts = _imports()
        self._c = {}
        self._vm = {}

    def cpvobj(self, x):
        o = self._c.get(x)
        if o is None:
            o = self._c[x] = self.cpv.VersionedCPV(f"cat/pkg-{V.fullver(*x)}")
        return o

    def matchers(self, x):
        m = self._vm.get(x)
        if m is None:
            c = self.cpvobj(x)
            m = {}
            for op in OPS:
                m[op] = self.restricts.VersionMatch(op, c.version, c.revision)
            # the way atoms are written by users / ebuilds
            m["atoms"] = {}
            for op in OPS:
                if op == "~" and x[1] is not None:
                    continue
                m["atoms"][op] = self.atom.atom(f"{op}cat/pkg-{V.fullver(*x)}")
            self._vm[x] = m
        return m


def check_pair(ctx, objs, a, b, record=True):
    """a, b = (ver, rev). All oracle evaluations for one ordered pair."""
    a = (a[0], a[1])
    b = (b[0], b[1])
    case = {"a": list(a), "b": list(b)}
    ref = R.vcmp(a[0], a[1], b[0], b[1])
    if record:
        cl = classify(a, b)
        nontriv = (a != b) and bool(cl)
        ctx.case(case, nontrivial=nontriv, classes=cl, key=f"{V.fullver(*a)}|{V.fullver(*b)}")

    def body():
        A, B = objs.cpvobj(a), objs.cpvobj(b)
        got = _sgn(objs.cpv.ver_cmp(A.version, A.revision, B.version, B.revision))
        if got != ref:
            ctx.violation(f"ver_cmp-vs-pms:{where_differs(a, b)}", case, f"ver_cmp={got} PMS={ref}")
        back = _sgn(objs.cpv.ver_cmp(B.version, B.revision, A.version, A.revision))
        if back != -got:
            ctx.violation("order:antisymmetry", case, f"cmp(a,b)={got} cmp(b,a)={back}")
        rich = {"<": A < B, "<=": A <= B, "==": A == B, "!=": A != B, ">=": A >= B, ">": A > B}
        want = {"<": ref < 0, "<=": ref <= 0, "==": ref == 0, "!=": ref != 0, ">=": ref >= 0, ">": ref > 0}
        for k in rich:
            if bool(rich[k]) != want[k]:
                ctx.violation(f"richcmp:{k}:{where_differs(a, b)}", case, f"A{k}B is {rich[k]}, PMS says {want[k]}")
        m = objs.matchers(b)
        for op in OPS:
            exp = R.op_holds(op, a[0], a[1], b[0], b[1])
            got_m = bool(m[op].match(A))
            if got_m != exp:
                ctx.violation(f"versionmatch:{op}:{where_differs(a, b)}", case, f"VersionMatch({op!r},b).match(a)={got_m} PMS={exp}")
            at = m["atoms"].get(op)
            if at is not None:
                got_a = bool(at.match(A))
                if got_a != exp:
                    ctx.violation(f"atommatch:{op}:{where_differs(a, b)}", case, f"atom({str(at)!r}).match(a)={got_a} PMS={exp}")

    core.guarded(ctx, case, body)


def check_triple(ctx, objs, a, b, c):
    case = {"a": list(a), "b": list(b), "c": list(c)}
    cl = classify(a, b) + classify(b, c)
    ctx.case(case, nontrivial=len({tuple(a), tuple(b), tuple(c)}) == 3 and bool(cl), classes=["triple"],
             key="|".join(V.fullver(*x) for x in (a, b, c)))

    def body():
        A, B, C = (objs.cpvobj(tuple(x)) for x in (a, b, c))
        vc = objs.cpv.ver_cmp
        ab = _sgn(vc(A.version, A.revision, B.version, B.revision))
        bc = _sgn(vc(B.version, B.revision, C.version, C.revision))
        ac = _sgn(vc(A.version, A.revision, C.version, C.revision))
        aa = vc(A.version, A.revision, A.version, A.revision)
        if aa != 0:
            ctx.violation("order:reflexive", case, f"cmp(a,a)={aa}")
        if ab <= 0 and bc <= 0 and not ac <= 0:
            ctx.violation("order:transitivity", case, f"a<=b, b<=c but cmp(a,c)={ac}")
        if ab >= 0 and bc >= 0 and not ac >= 0:
            ctx.violation("order:transitivity", case, f"a>=b, b>=c but cmp(a,c)={ac}")
        if ab == 0 and bc == 0 and ac != 0:
            ctx.violation("order:transitivity-eq", case, f"a==b==c but cmp(a,c)={ac}")
        if (ab == 0) and (ac != bc):
            ctx.violation("order:congruence", case, f"a==b but cmp(a,c)={ac} cmp(b,c)={bc}")
        # sorting agrees with the reference order
        lst = sorted([A, B, C])
        for x, y in zip(lst, lst[1:]):
            if R.vcmp(x.version, str(x.revision or ""), y.version, str(y.revision or "")) > 0:
                ctx.violation("order:sorted", case, f"sorted() put {x} before {y}")

    core.guarded(ctx, case, body)


TRIPLE_UNIVERSE = None


def triple_universe():
    nums = ["1", "01", "10", "1.0", "1.01", "1.1", "1.10", "01.1", "1.1.0", "1.010", "2", "09"]
    out = []
    for n, s, r in itertools.product(nums, ["", "_p", "_alpha1"], [None, "1"]):
        out.append((n + s, r))
    return out


def plan(tier, seed):
    tasks = []
    if tier == "quick":
        nsl = 12
        for i in range(nsl):
            tasks.append({"task": "pairs", "k": 1, "slice": i, "nslices": nsl, "sample": 0.04})
        tasks.append({"task": "triples", "slice": 0, "nslices": 1, "sample": 0.15})
        for i in range(3):
            tasks.append({"task": "hyp", "examples": 4000})
    else:
        nsl = 64
        for i in range(nsl):
            tasks.append({"task": "pairs", "k": 1, "slice": i, "nslices": nsl, "sample": 1.0})
        for i in range(8):
            tasks.append({"task": "triples", "slice": i, "nslices": 8, "sample": 1.0})
        for i in range(16):
            tasks.append({"task": "hyp", "examples": 60000})
    return tasks


def run_task(ctx, task, **kw):
    objs = Objs()
    if task == "pairs":
        import random

        U = V.universe(kw["k"])
        rnd = random.Random(ctx.seed * 7919 + kw["slice"])  # only selects WHICH slice of the finite space a quick run visits
        sample = kw["sample"]
        full = sample >= 1.0
        n = 0
        for i, a in enumerate(U):
            if i % kw["nslices"] != kw["slice"]:
                continue
            if ctx.out_of_time():
                full = False
                break
            for b in U:
                if not full and rnd.random() >= sample:
                    continue
                check_pair(ctx, objs, a, b)
                n += 1
        ctx.note("exhaustive_pairs", bool(full))
        ctx.note("pair_universe_size", len(U))
    elif task == "triples":
        import random

        U = triple_universe()
        rnd = random.Random(ctx.seed * 104729 + kw["slice"])
        sample = kw["sample"]
        full = sample >= 1.0
        for i, a in enumerate(U):
            if i % kw["nslices"] != kw["slice"]:
                continue
            if ctx.out_of_time():
                full = False
                break
            for b in U:
                for c in U:
                    if not full and rnd.random() >= sample:
                        continue
                    check_triple(ctx, objs, a, b, c)
        ctx.note("exhaustive_triples", bool(full))
        ctx.note("triple_universe_size", len(U))
    elif task == "hyp":
        n = kw["examples"]

        def f_pair(p):
            check_pair(ctx, objs, p[0], p[1])
            objs._c.clear(); objs._vm.clear()

        def f_triple(t):
            check_triple(ctx, objs, *t)
            objs._c.clear(); objs._vm.clear()

        core.hyp_run(ctx, V.version_pair(), f_pair, int(n * 0.7), chunk=1000)
        core.hyp_run(ctx, V.version_triple(), f_triple, int(n * 0.3), chunk=1000, seed_salt=1)
    else:
        raise core.HarnessError(f"unknown task {task}")


def replay(ctx, case):
    objs = Objs()
    if "c" in case:
        check_triple(ctx, objs, tuple(case["a"]), tuple(case["b"]), tuple(case["c"]))
    else:
        check_pair(ctx, objs, tuple(case["a"]), tuple(case["b"]))
