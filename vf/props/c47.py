"""C47 Tarball sync replaces a repository atomically and recovers from interruption.

What is generated: scenarios (hypothesis, JSON) = previous state of the repository path (absent =
first sync, a plain tree, or a tree left by an earlier pkgcore sync with .etag/.modified that do
or do not match the server) x new tree (files with nested directories, modes, a symlink, an empty
directory) x compression (gz/bz2/xz) x server behaviour (good; body truncated at a fraction; a
byte range overwritten with garbage; not a tarball at all; empty body; HTTP 404/500/503) x headers
(ETag and/or Last-Modified or none) x `force`.  A real `http.server` thread bound to 127.0.0.1:0
serves the blobs (behaviour is encoded in the URL path, the server is stateless); the real
`tar_syncer(basedir, "tar+http://127.0.0.1:port/...")` runs `.sync()` in a forked child with
TMPDIR inside the crash root, atexit handlers emulated (cleared at start, run at normal/exceptional
end, *not* run at a crash), and the real `tar` binary.

Fault enumeration: for every scenario the event log of the sync is taken (vf.crash.dry_run) and
every point of vf.crash.points is injected (before / after / eio; the tar subprocess is one
event).  One more crash point lies *inside* the tar subprocess: a `tar` shim first in PATH runs
the real tar, removes half of what was extracted and SIGKILLs the syncing process.  The same shim also
makes the unpacker alone fail while the syncer lives on: {error text on stderr, killed by a signal with empty
stderr} x {before writing anything, after a partial extraction} (fixed family in every tier + sampled).

Oracle (independent): the expected new tree is computed from the scenario (path -> type, mode,
content hash / link target), never from what the syncer produced.
  * after every injection the repository path must hold exactly the old tree or exactly the new
    tree (ignoring top-level .etag/.modified); for a first sync "old" = path absent or empty;
  * a run that ends with a failed download/unpack (server fault, EIO) must leave the old tree
    untouched (same names, types, modes, contents, file mtimes, and .etag/.modified);
  * a second sync in a fresh process against the good server must complete without exception and
    leave exactly the new tree; a second sync that itself *fails* (truncated tarball / HTTP 404) must
    leave a complete old or new tree - the one present after the syncer's recovery - and must not touch
    an intact tree.  A fixed family (kill before/after each of the two swap renames, EIO on the second,
    first step of the exit cleanup) x {good, truncated, 404} follow-up runs first in every tier;
  * the uninterrupted good run must complete and install exactly the new tree (or, when the stored
    ETag/Last-Modified equals the server's and force is not set, leave the old tree untouched).

Simplifications vs DESIGN.md: "killed mid-extraction" is emulated by the shim (extraction is
rolled back to a prefix and the parent is killed) instead of a timing-based kill, to stay
deterministic.  Non-SyncError exception *types* of failed runs are not judged (the statement is
about the tree).

Bucket keys: `<first|resync>:<state of the repository path>@<event>:<role>[-><role>]:<mode>` for a bad
intermediate state (roles: base = repository path, update / old = the staging directories, dl = download
temp file), `<phase>:second-sync-failed:stale-<leftovers>:path-<state>` and
`<phase>:second-sync-wrong-tree:<state>:stale-<leftovers>` for the follow-up sync.
Development aid: VF_C47_ONLY=good|bad limits the plan.
"""
import hashlib
import http.server
import io
import os
import shutil
import stat
import tarfile
import threading

from hypothesis import strategies as st

from .. import core, crash, fsx

ID = "C47"
TITLE = "Tarball sync replaces a repository atomically and recovers from interruption"
LEVEL = "fault_enumeration"
TECHNIQUE = (
    "audit-hook crash/fault point enumeration of tar_syncer.sync() against a loopback http.server serving good/"
    "truncated/corrupt tarballs; tree hash must equal scenario-derived old or new tree; follow-up sync must complete"
)
DESIGN_REF = "DESIGN.md §3 C47"
LEVEL_TEXT = (
    "Every mutating filesystem event of a tarball sync (download temp file, staging dirs, tar subprocess, the two "
    "renames, .etag/.modified, exit-time cleanup) is a crash point (die before / right after / fail with EIO), plus one "
    "crash inside the tar extraction; after each the repository path must be the complete old or complete new tree and "
    "a second sync in a fresh process must complete and yield the new tree. Server faults (truncated, corrupt, "
    "non-tar, empty, HTTP errors) must leave the old tree untouched. Exhaustive per scenario; scenarios sampled."
)
LEVEL_NOTE = (
    "Trusted: vf/crash.py event model (tar subprocess = one event, no torn writes), GNU tar, python tarfile used to "
    "build the served blobs, atexit emulation via atexit._clear/_run_exitfuncs in the child."
)
RULE = (
    "case = (scenario, event index k, mode, kind of the next sync) or (scenario, 'complete') or (scenario, 'midtar'); all points of the dry-run "
    "log are run (quick tier: all rename/mkdir/tar points, a seeded sample of the others). non-trivial = the injection fired after at least one mutating event, or the run is a full faulty/"
    "good run whose scenario has a previous tree or a faulty server; distinct = (previous-state kind, server kind, "
    "headers, compression, force, event signature, occurrence, mode)"
)
ASSUMPTIONS = [
    "a crash loses user-space buffered data but never reorders or tears completed syscalls (vf.crash model)",
    "interpreter exit (normal or by exception) runs atexit handlers, a crash does not",
    "the follow-up sync uses the same repository path and a server that now serves the good tarball",
]
BUDGET = {"quick": 50, "thorough": 900}

REAL_TAR = shutil.which("tar") or "/usr/bin/tar"
MTIME0 = 1_650_000_000
POOL = [
    ("profiles/repo_name", 0o644), ("metadata/layout.conf", 0o644), ("profiles/categories", 0o644),
    ("app-misc/foo/foo-1.ebuild", 0o644), ("app-misc/foo/Manifest", 0o644), ("app-misc/foo/files/fix.patch", 0o644),
    ("eclass/util.eclass", 0o644), ("scripts/run.sh", 0o755), ("metadata/md5-cache/app-misc/foo-1", 0o644),
    ("licenses/GPL-2", 0o444), ("profiles/default/linux/make.defaults", 0o640),
]
EXTRAS = ["symlink", "emptydir", "bigfile", "dotfile"]


# ---------------------------------------------------------------------------------------------
# scenario strategy
# ---------------------------------------------------------------------------------------------

def _tree():
    return st.fixed_dictionaries({
        "files": st.lists(st.integers(0, len(POOL) - 1), unique=True, min_size=1, max_size=7).map(sorted),
        "extras": st.lists(st.sampled_from(EXTRAS), unique=True, max_size=3).map(sorted),
        "salt": st.integers(0, 99),
    })


def _server(kinds):
    return st.fixed_dictionaries({
        "kind": st.sampled_from(kinds),
        "frac": st.sampled_from([1, 10, 50, 90, 99]),  # percent: truncation point / corruption start
        "status": st.sampled_from([404, 500, 503]),
        "etag": st.booleans(),
        "lastmod": st.booleans(),
    })


GOOD = ["good"]
BAD = ["truncated", "corrupt", "garbage", "empty", "status"]


def scenario_strategy(kinds):
    return st.fixed_dictionaries({
        "comp": st.sampled_from(["gz", "bz2", "xz"]),
        "prev": st.sampled_from(["absent", "plain", "synced-stale", "synced-stale", "synced-current"]),
        "old": _tree(),
        "new": _tree(),
        "server": _server(kinds),
        "force": st.booleans(),
    })


# ---------------------------------------------------------------------------------------------
# trees, blobs, fingerprints
# ---------------------------------------------------------------------------------------------

def tree_entries(spec, tag):
    """scenario tree -> list of (relpath, type, mode, data|target) - the model of a repository tree"""
    out = {}

    def add_dirs(p):
        d = os.path.dirname(p)
        while d:
            out.setdefault(d, ("dir", 0o755, None))
            d = os.path.dirname(d)

    for i in spec["files"]:
        p, mode = POOL[i]
        data = (f"{tag} {spec['salt']} {p}\n" * (1 + i % 3)).encode()
        out[p] = ("file", mode, data)
        add_dirs(p)
    out["metadata/timestamp.chk"] = ("file", 0o644, f"{tag}-{spec['salt']}\n".encode())
    add_dirs("metadata/timestamp.chk")
    if "symlink" in spec["extras"]:
        out["profiles/current"] = ("sym", 0o777, "default/linux")
        add_dirs("profiles/current")
    if "emptydir" in spec["extras"]:
        out["distfiles"] = ("dir", 0o775, None)
    if "bigfile" in spec["extras"]:
        blk = hashlib.sha256(f"{tag}{spec['salt']}".encode()).digest()
        out["metadata/pkg_desc_index"] = ("file", 0o644, b"".join(hashlib.sha256(blk + bytes([j])).digest() for j in range(255)) * 8)
    if "dotfile" in spec["extras"]:
        out[".gitignore"] = ("file", 0o644, b"*.swp\n")
    return out


def model_fingerprint(entries):
    fp = {}
    for p, (t, mode, x) in entries.items():
        if t == "file":
            fp[p] = ["file", mode, hashlib.sha256(x).hexdigest()]
        elif t == "sym":
            fp[p] = ["sym", None, x]
        else:
            fp[p] = ["dir", mode, None]
    return fp


def disk_fingerprint(path, keep_meta=False):
    """None if absent; else {rel: [type, mode, sha|target]} (top-level .etag/.modified left out unless keep_meta)"""
    if not os.path.lexists(path):
        return None
    if not os.path.isdir(path) or os.path.islink(path):
        return {"<not-a-directory>": ["?", None, None]}
    fp = {}
    for dp, dns, fns in os.walk(path):
        for n in dns + fns:
            full = os.path.join(dp, n)
            rel = os.path.relpath(full, path)
            if not keep_meta and rel in (".etag", ".modified"):
                continue
            s = os.lstat(full)
            if stat.S_ISLNK(s.st_mode):
                fp[rel] = ["sym", None, os.readlink(full)]
            elif stat.S_ISDIR(s.st_mode):
                fp[rel] = ["dir", stat.S_IMODE(s.st_mode), None]
            elif stat.S_ISREG(s.st_mode):
                with open(full, "rb") as f:
                    fp[rel] = ["file", stat.S_IMODE(s.st_mode), hashlib.sha256(f.read()).hexdigest()]
            else:
                fp[rel] = ["other", stat.S_IMODE(s.st_mode), None]
    return fp


def build_blob(entries, comp, topdir="gentoo-snapshot"):
    buf = io.BytesIO()
    with tarfile.open(fileobj=buf, mode=f"w:{comp}", format=tarfile.GNU_FORMAT) as tf:
        ti = tarfile.TarInfo(topdir)
        ti.type, ti.mode, ti.mtime = tarfile.DIRTYPE, 0o755, MTIME0
        tf.addfile(ti)
        for p in sorted(entries):
            t, mode, x = entries[p]
            ti = tarfile.TarInfo(f"{topdir}/{p}")
            ti.mtime, ti.mode, ti.uid, ti.gid = MTIME0, mode, 0, 0
            if t == "dir":
                ti.type = tarfile.DIRTYPE
                tf.addfile(ti)
            elif t == "sym":
                ti.type, ti.linkname = tarfile.SYMTYPE, x
                tf.addfile(ti)
            else:
                ti.size = len(x)
                tf.addfile(ti, io.BytesIO(x))
    return buf.getvalue()


def write_tree(path, entries):
    os.makedirs(path)
    for p in sorted(entries):
        t, mode, x = entries[p]
        full = os.path.join(path, p)
        if t == "dir":
            os.makedirs(full, exist_ok=True)
        elif t == "sym":
            os.symlink(x, full)
        else:
            os.makedirs(os.path.dirname(full), exist_ok=True)
            with open(full, "wb") as f:
                f.write(x)
            os.chmod(full, mode)
            os.utime(full, (MTIME0 - 1000, MTIME0 - 1000))
    for p in sorted(entries, reverse=True):
        if entries[p][0] == "dir":
            os.chmod(os.path.join(path, p), entries[p][1])


# ---------------------------------------------------------------------------------------------
# loopback server (stateless; behaviour is in the URL: /<behaviour>/<blob id>/name.tar.<comp>)
# ---------------------------------------------------------------------------------------------

ETAG_NEW, LM_NEW = '"v2-new"', "Tue, 02 Jan 2024 10:00:00 GMT"
ETAG_OLD, LM_OLD = '"v1-old"', "Mon, 01 Jan 2024 10:00:00 GMT"


class _Handler(http.server.BaseHTTPRequestHandler):
    timeout = 10
    protocol_version = "HTTP/1.0"

    def log_message(self, *a):  # silence
        pass

    def do_GET(self):
        try:
            _, beh, bid, _name = self.path.split("/", 3)
            blob = self.server.blobs[bid]
            kind, frac, status, hdr = beh.split("-")
            frac, status = int(frac), int(status)
            if kind == "status":
                self.send_error(status)
                return
            # conditional request handling like a real server
            if "e" in hdr and self.headers.get("If-None-Match") == ETAG_NEW:
                self.send_response(304)
                self.end_headers()
                return
            body = blob
            declared = len(blob)
            if kind == "truncated":
                body = blob[: max(0, len(blob) * frac // 100)]
            elif kind == "corrupt":
                a = min(len(blob) - 1, max(12, len(blob) * frac // 100))
                junk = hashlib.sha256(blob[:a]).digest() * 4
                body = blob[:a] + junk[: max(1, min(len(junk), len(blob) - a))] + blob[a + len(junk):]
                body = body[: len(blob)]
            elif kind == "garbage":
                body = (b"<html><body>It works!</body></html>\n" * 40)[: max(64, len(blob))]
                declared = len(body)
            elif kind == "empty":
                body = b""
                declared = 0
            self.send_response(200)
            self.send_header("Content-Type", "application/octet-stream")
            self.send_header("Content-Length", str(declared))
            if "e" in hdr:
                self.send_header("ETag", ETAG_NEW)
            if "m" in hdr:
                self.send_header("Last-Modified", LM_NEW)
            self.end_headers()
            self.wfile.write(body)
        except (BrokenPipeError, ConnectionResetError, TimeoutError):
            pass


class _Server(http.server.HTTPServer):
    allow_reuse_address = True
    request_queue_size = 16

    def handle_error(self, request, client_address):  # a killed client is expected
        pass


class Loopback:
    def __init__(self):
        self.srv = _Server(("127.0.0.1", 0), _Handler)
        self.srv.blobs = {}
        self.port = self.srv.server_address[1]
        self.thread = threading.Thread(target=self.srv.serve_forever, kwargs={"poll_interval": 0.05}, daemon=True)
        self.thread.start()

    def close(self):
        try:
            self.srv.shutdown()
        finally:
            self.srv.server_close()
            self.thread.join(timeout=5)

    def url(self, server, bid, comp, good=False):
        hdr = ("e" if server["etag"] else "") + ("m" if server["lastmod"] else "") + "x"
        kind = "good" if good else server["kind"]
        return f"tar+http://127.0.0.1:{self.port}/{kind}-{server['frac']}-{server['status']}-{hdr}/{bid}/snapshot.tar.{comp}"


# ---------------------------------------------------------------------------------------------
# world
# ---------------------------------------------------------------------------------------------

class World:
    def __init__(self, top, sc, lb, bid):
        self.sc = sc
        self.top = top
        self.lb = lb
        self.live = os.path.join(top, "live")  # crash root: repos/ and tmp/
        self.template = os.path.join(top, "template")
        self.basedir = os.path.join(self.live, "repos", "gentoo")
        self.new_entries = tree_entries(sc["new"], "NEW")
        self.new_fp = model_fingerprint(self.new_entries)
        self.old_entries = None
        os.makedirs(os.path.join(self.template, "repos"))
        os.makedirs(os.path.join(self.template, "tmp"))
        if sc["prev"] != "absent":
            self.old_entries = tree_entries(sc["old"], "OLD")
            tb = os.path.join(self.template, "repos", "gentoo")
            write_tree(tb, self.old_entries)
            if sc["prev"].startswith("synced"):
                cur = sc["prev"] == "synced-current"
                with open(os.path.join(tb, ".etag"), "w") as f:
                    f.write(ETAG_NEW if cur else ETAG_OLD)
                with open(os.path.join(tb, ".modified"), "w") as f:
                    f.write(LM_NEW if cur else LM_OLD)
        self.old_fp = model_fingerprint(self.old_entries) if self.old_entries is not None else None
        lb.srv.blobs[bid] = build_blob(self.new_entries, sc["comp"])
        self.uri = lb.url(sc["server"], bid, sc["comp"])
        self.uri_good = lb.url(sc["server"], bid, sc["comp"], good=True)
        # what the *next* sync meets: the good tarball, a truncated one (unpack fails) or HTTP 404 (download fails)
        self.uri_follow = {
            "good": self.uri_good,
            "truncated": lb.url(dict(sc["server"], kind="truncated", frac=50), bid, sc["comp"]),
            "status": lb.url(dict(sc["server"], kind="status", status=404), bid, sc["comp"]),
        }
        # shim used for the crash inside the tar subprocess
        self.shim = os.path.join(top, "shim")
        os.makedirs(self.shim)
        with open(os.path.join(self.shim, "tar"), "w") as f:
            f.write(
                "#!/bin/bash\n"
                "# VF_TAR_SHIM: killparent | fail-{early,partial}-{stderr,silent}\n"
                "mode=\"${VF_TAR_SHIM:-killparent}\"\n"
                "die() { case \"$mode\" in *-stderr) echo 'tar: Unexpected EOF in archive' >&2; "
                "echo 'tar: Error is not recoverable: exiting now' >&2; exit 2;; *) kill -9 $$;; esac; }\n"
                "case \"$mode\" in fail-early-*) die;; esac\n"
                f"{REAL_TAR} \"$@\" || exit $?\n"
                "dest=\"${@: -1}\"\n"
                "n=0\n"
                "while IFS= read -r -d '' p; do n=$((n+1)); if (( n % 2 == 0 )); then rm -f -- \"$p\"; fi; done "
                "< <(find \"$dest\" -mindepth 1 \\( -type f -o -type l \\) -print0 | sort -z)\n"
                "case \"$mode\" in fail-partial-*) die;; esac\n"
                "kill -9 $PPID\n"
            )
        os.chmod(os.path.join(self.shim, "tar"), 0o755)
        self.reset()
        self.old_snapshot = self._snapshot()

    def reset(self):
        shutil.rmtree(self.live, ignore_errors=True)
        shutil.copytree(self.template, self.live, symlinks=True)

    def _snapshot(self):
        if not os.path.lexists(self.basedir):
            return None
        return fsx.snapshot(self.basedir)

    def noop_expected(self):
        """the sync legitimately does nothing: stored ETag / Last-Modified equals the server's, not forced"""
        sc = self.sc
        return (sc["prev"] == "synced-current" and not sc["force"] and (sc["server"]["etag"] or sc["server"]["lastmod"])
                and sc["server"]["kind"] != "status")

    def sync_op(self, uri, force, shim=False):
        live, basedir, shimdir = self.live, self.basedir, self.shim

        def op():
            import atexit
            import logging
            import sys
            import tempfile

            logging.getLogger("pkgcore").setLevel(logging.CRITICAL)
            sys.unraisablehook = lambda *a: None  # exit handlers hit by an injected fault are reported by CPython on stderr
            atexit._clear()
            for v in ("http_proxy", "HTTP_PROXY", "https_proxy", "HTTPS_PROXY", "all_proxy", "ALL_PROXY"):
                os.environ.pop(v, None)
            os.environ["no_proxy"] = "127.0.0.1"
            if shim:
                os.environ["PATH"] = shimdir + os.pathsep + os.environ.get("PATH", "")
                os.environ["VF_TAR_SHIM"] = "killparent" if shim is True else shim
            tempfile.tempdir = os.path.join(live, "tmp")
            sys.stdout = open(os.devnull, "w")  # the syncer prints a progress bar
            from pkgcore.sync.tar import tar_syncer

            try:
                syncer = tar_syncer(basedir, uri)
                ret = syncer.sync(force=force)
                if not ret:
                    raise RuntimeError(f"sync() returned {ret!r}")
            finally:
                atexit._run_exitfuncs()

        return op

    def state(self):
        """classification of what is at the repository path"""
        fp = disk_fingerprint(self.basedir)
        if fp == self.new_fp:
            return "new"
        if self.old_fp is None:
            if fp is None:
                return "old"  # first sync: nothing there yet
            if fp == {}:
                return "old"  # created-but-empty directory before anything was installed
        elif fp == self.old_fp:
            return "old"
        if fp is None:
            return "path-missing"
        if fp == {}:
            return "path-empty"
        return "mixed-tree"

    def old_untouched(self):
        snap = self._snapshot()
        if snap is None or self.old_snapshot is None:
            return snap is None and self.old_snapshot is None, "presence differs"
        d = fsx.diff(self.old_snapshot, snap, fields=("type", "mode", "sha", "target", "uid", "gid"))
        d += [x for x in fsx.diff(self.old_snapshot, snap, fields=("mtime",)) if x[2] and x[2]["type"] != "dir" and x[0] != "."]
        return not d, "; ".join(f"{p} {k}" for p, k, _a, _b in d[:5])

    def stale(self):
        rd = os.path.join(self.live, "repos")
        s = [n for n, d in (("update", ".gentoo.update"), ("old", ".gentoo.old")) if os.path.lexists(os.path.join(rd, d))]
        return "+".join(s) or "clean"


# ---------------------------------------------------------------------------------------------
# signatures
# ---------------------------------------------------------------------------------------------

def _role(rel):
    if rel is None:
        return "none"
    parts = rel.split("/")
    if parts[0] == "tmp":
        if len(parts) == 1:
            return "tmpdir"
        return "dl.tmp" if parts[1].startswith(".update.") else "dl"
    if parts[0] != "repos":
        return "outside"
    if len(parts) == 1:
        return "reposdir"
    top = {"gentoo": "base", ".gentoo.update": "update", ".gentoo.old": "old"}.get(parts[1], "stray")
    if len(parts) == 2:
        return top
    if top == "base" and len(parts) == 3 and parts[2] in (".etag", ".modified"):
        return "base/" + parts[2]
    return top + "/ENTRY"


def signature(ev):
    if ev["ev"] in ("subprocess.Popen", "os.system", "os.posix_spawn", "os.exec"):
        return ev["ev"] + ":tar"
    s = ev["ev"] + ":" + _role(ev.get("path"))
    if "path2" in ev:
        s += "->" + _role(ev.get("path2"))
    return s


# ---------------------------------------------------------------------------------------------
# checks
# ---------------------------------------------------------------------------------------------

def _phase(sc):
    return "first" if sc["prev"] == "absent" else "resync"


def _classes(sc):
    return [f"prev:{sc['prev']}", f"server:{sc['server']['kind']}", f"comp:{sc['comp']}",
            f"hdr:{'e' if sc['server']['etag'] else ''}{'m' if sc['server']['lastmod'] else ''}", f"force:{int(sc['force'])}"]


def _key(sc):
    s = sc["server"]
    return f"{sc['prev']}|{s['kind']}|{s['frac'] if s['kind'] in ('truncated', 'corrupt') else ''}|{int(s['etag'])}{int(s['lastmod'])}|{sc['comp']}|{int(sc['force'])}"


def follow_up(ctx, world, case, where, kind="good"):
    """the next sync, in a fresh process.  kind "good": it must complete and give the new tree.
    kind "truncated"/"status": it fails (unpack / download); the tree that is there after the syncer's own
    recovery must then be a complete old or new tree, and an intact tree must not have been touched."""
    if kind == "none":  # tiny task: only the state right after the injection is judged
        return
    sc = world.sc
    stale = world.stale()
    before = world.state()
    ph = _phase(sc)
    if kind != "good":
        res = crash.dry_run(world.sync_op(world.uri_follow[kind], False), [world.live])
        if res.status == "died":
            raise core.HarnessError(f"follow-up sync child died (code {res.code})")
        st2 = world.state()
        if st2 not in ("old", "new") or (before in ("old", "new") and st2 != before):
            ctx.violation(f"{ph}:failed-second-sync-left:{st2}:stale-{stale}:path-{before}", case,
                          f"{where}: the next sync failed ({kind}: {res.exc}); repository path was '{before}' "
                          f"(leftovers: {stale}) and is '{st2}' afterwards")
        return
    # HTTP caching semantics: a tree whose stored validators are current is legitimately left alone
    expect = "new"
    # ("path-missing": the old tree is parked in .gentoo.old; a syncer that puts it back finds it current)
    if sc["prev"] == "synced-current" and before in ("old", "path-missing") and (sc["server"]["etag"] or sc["server"]["lastmod"]):
        expect = "old"
    res = crash.dry_run(world.sync_op(world.uri_good, False), [world.live])
    if res.status == "died":
        raise core.HarnessError(f"follow-up sync child died (code {res.code})")
    if res.status != "completed":
        ctx.violation(f"{ph}:second-sync-failed:stale-{stale}:path-{before}", case,
                      f"{where}: follow-up sync did not complete ({res.exc}); leftovers: {stale}; repository path before it: {before}")
        return
    st2 = world.state()
    if st2 != expect:
        ctx.violation(f"{ph}:second-sync-wrong-tree:{st2}:stale-{stale}", case,
                      f"{where}: follow-up sync completed but the repository path holds '{st2}', not the {expect} tree")


def run_complete(ctx, world):
    """uninjected run; returns the event log (or None)"""
    sc = world.sc
    case = {"scenario": sc, "point": "complete"}
    good = sc["server"]["kind"] == "good"
    world.reset()
    res = crash.dry_run(world.sync_op(world.uri, sc["force"]), [world.live])
    if res.status == "died":
        raise core.HarnessError(f"sync child died (code {res.code})")
    state = world.state()
    ctx.case(case, nontrivial=(sc["prev"] != "absent" or not good), classes=_classes(sc) + ["point:complete", f"state:{state}",
             f"status:{res.status}"], key=_key(sc) + "|complete")
    ph = _phase(sc)
    if world.noop_expected():
        # the stored validators are current: nothing is downloaded, whatever the body would have been
        if res.status != "completed":
            ctx.violation(f"{ph}:noop-sync-failed", case, f"sync with current ETag/Last-Modified did not complete: {res.exc}")
            return None
        ok, why = world.old_untouched()
        if state != "old" or not ok:
            ctx.violation(f"{ph}:noop-sync-changed-tree", case, f"stored ETag/Last-Modified is current, yet tree is '{state}' {why}")
    elif good:
        if res.status != "completed":
            ctx.violation(f"{ph}:good-sync-failed", case, f"sync from a good tarball did not complete: {res.exc}")
            return None
        if state != "new":
            ctx.violation(f"{ph}:good-sync-wrong-tree:{state}", case, f"after a completed sync the repository path holds '{state}'")
    else:
        if res.status == "completed":
            # a fault the client cannot notice would be a harness problem, all of ours are noticeable
            ctx.violation(f"{ph}:faulty-download-accepted:{sc['server']['kind']}", case,
                          f"sync reported success for a {sc['server']['kind']} download; tree is '{state}'")
        ok, why = world.old_untouched()
        if not ok and not (sc["prev"] == "absent" and state == "old"):
            ctx.violation(f"{ph}:failed-download-touched-tree:{sc['server']['kind']}:{state}", case,
                          f"{sc['server']['kind']} download ({res.exc}) changed the previous tree: {why}")
    follow_up(ctx, world, case, "after the uninterrupted run")
    return res.events


def run_point(ctx, world, events, k, mode, follow="good"):
    sc = world.sc
    ev = events[k - 1]
    sig = signature(ev)
    occ = sum(1 for e in events[:k] if signature(e) == sig)
    case = {"scenario": sc, "point": {"sig": sig, "occurrence": occ}, "mode": mode, "follow": follow}
    world.reset()
    res = crash.inject(world.sync_op(world.uri, sc["force"]), [world.live], k, mode)
    if res.status == "died":
        raise core.HarnessError(f"sync child died (code {res.code}) at {sig} {mode}")
    if res.status == "not-reached" or len(res.events) < k or signature(res.events[k - 1]) != sig:
        ctx.count("point_not_reached_or_diverged")
        return
    state = world.state()
    performed = k if mode == "after" else k - 1
    ctx.case(case, nontrivial=performed >= 1, classes=_classes(sc) + [f"mode:{mode}", f"state:{state}", f"status:{res.status}",
             f"ev:{ev['ev']}", f"follow:{follow}"], key=_key(sc) + f"|{sig}|{occ}|{mode}|{follow}")
    ph = _phase(sc)
    where = f"{mode} at event {k}/{len(events)} [{sig}] (child {res.status}{': ' + res.exc if res.exc else ''})"
    good = sc["server"]["kind"] == "good" and not world.noop_expected()
    if state not in ("old", "new"):
        bsig, bmode = sig, mode
        if mode == "after" and ev["ev"] == "os.rename" and k < len(events):
            # dying right after rename k returned is the window "before event k+1": one root cause, one bucket
            bsig, bmode = signature(events[k]), "before"
        ctx.violation(f"{ph}:{state}@{bsig}:{bmode}", case, f"{where}: repository path is '{state}'; leftovers: {world.stale()}")
    elif state == "new" and not good:
        ctx.violation(f"{ph}:new-tree-from-faulty-download@{sig}:{mode}", case, f"{where}: new tree installed")
    elif state == "old" and res.status == "raised" and sc["prev"] != "absent":
        ok, why = world.old_untouched()
        if not ok:
            ctx.violation(f"{ph}:failed-sync-touched-tree@{sig}:{mode}", case, f"{where}: previous tree modified: {why}")
    _persist(ctx)
    follow_up(ctx, world, case, where, follow)
    _persist(ctx)


def _persist(ctx):
    """every judged injection point is worth keeping if the runner has to abandon this task (a point costs seconds under load)"""
    if getattr(ctx, "_ckpt_path", None):
        ctx.checkpoint()


def run_midtar(ctx, world):
    sc = world.sc
    case = {"scenario": sc, "point": "midtar"}
    world.reset()
    res = crash.dry_run(world.sync_op(world.uri, sc["force"], shim=True), [world.live])
    if not (res.status == "died" and res.code == -9):
        # tar was not spawned, or the extraction itself failed (the shim passes tar's failure through)
        ctx.count("midtar_not_reached")
        return
    state = world.state()
    ctx.case(case, nontrivial=True, classes=_classes(sc) + ["point:midtar", f"state:{state}"], key=_key(sc) + "|midtar")
    if state != "old":
        ctx.violation(f"{_phase(sc)}:{state}@midtar", case, f"killed inside the tar extraction: repository path is '{state}'")
    follow_up(ctx, world, case, "killed inside the tar extraction")


TARFAIL = ("fail-early-stderr", "fail-early-silent", "fail-partial-stderr", "fail-partial-silent")


def run_tarfail(ctx, world, mode):
    """the unpacker fails while the syncing process lives on: before writing anything / after a partial extraction,
    with an error text on stderr / silently (killed by a signal: non-zero status, empty stderr).  Whatever exception the
    syncer raises, the sync must not succeed, the previous tree stays untouched and the next sync installs the new tree."""
    sc = world.sc
    case = {"scenario": sc, "point": "tarfail", "mode": mode}
    world.reset()
    res = crash.dry_run(world.sync_op(world.uri, sc["force"], shim=mode), [world.live])
    if res.status == "died":
        raise core.HarnessError(f"sync child died (code {res.code}) with tar shim {mode}")
    if not any(signature(e) == "subprocess.Popen:tar" for e in res.events):
        ctx.count("tarfail_not_reached")
        return
    state = world.state()
    ctx.case(case, nontrivial=True, classes=_classes(sc) + ["point:tarfail", f"tarfail:{mode}", f"state:{state}", f"status:{res.status}"],
             key=_key(sc) + "|tarfail|" + mode)
    ph = _phase(sc)
    where = f"tar {mode} (sync {res.status}{': ' + res.exc if res.exc else ''})"
    if res.status == "completed":
        ctx.violation(f"{ph}:unpack-failure-accepted:{mode}", case, f"{where}: sync reported success; repository path is '{state}'")
    ok, why = world.old_untouched()
    if state != "old" or (not ok and sc["prev"] != "absent"):
        ctx.violation(f"{ph}:failed-unpack-touched-tree:{state}:{mode}", case, f"{where}: repository path is '{state}' {why}")
    _persist(ctx)
    follow_up(ctx, world, case, where)
    _persist(ctx)


def run_scenario(ctx, lb, sc, idx, limit=None, pick=None):
    if ctx.out_of_time():
        return
    world = World(ctx.fresh_dir("w"), sc, lb, f"b{idx}")
    try:
        events = run_complete(ctx, world)
        ctx.count("scenarios")
        if events:
            ctx.count("events", len(events))
            pts = crash.points(events)
            if limit is not None and len(pts) > limit:
                # deterministic slice of a finite space: every rename / mkdir / tar event, a sample of the bulk ones
                # (download temp file, per-entry unlinks of the exit-time cleanup)
                crit = ("os.rename", "os.mkdir", "subprocess.Popen")
                keep = [p for p in pts if events[p[0] - 1]["ev"] in crit]
                rest = [p for p in pts if events[p[0] - 1]["ev"] not in crit]
                pick.shuffle(rest)
                pts = sorted(keep + rest[: max(0, limit - len(keep))])
            for k, mode in pts:
                if ctx.out_of_time():
                    break
                swap = events[k - 1]["ev"] == "os.rename" and _role(events[k - 1].get("path")) in ("base", "update")
                if limit is None and swap:
                    follows = FOLLOW  # thorough: the swap points meet every kind of next sync
                else:
                    r = pick.random() if pick is not None else 1.0
                    follows = ("truncated",) if r < 0.15 else ("status",) if r < 0.3 else ("good",)
                for f in follows:
                    run_point(ctx, world, events, k, mode, f)
            if sc["server"]["kind"] == "good" and any(signature(e) == "subprocess.Popen:tar" for e in events):
                if not ctx.out_of_time():
                    run_midtar(ctx, world)
                for m in (TARFAIL if limit is None else (TARFAIL[pick.randrange(len(TARFAIL))],)):
                    if not ctx.out_of_time():
                        run_tarfail(ctx, world, m)
    finally:
        lb.srv.blobs.pop(f"b{idx}", None)
        shutil.rmtree(world.top, ignore_errors=True)


FOLLOW = ("good", "truncated", "status")
_T1 = {"files": [0, 3, 5], "extras": ["symlink"], "salt": 1}
_T2 = {"files": [1, 3, 7], "extras": ["emptydir"], "salt": 2}
CORE = {  # follow-up kind -> fixed scenario (an updating sync over a non-empty previous tree)
    "good": {"comp": "gz", "prev": "plain", "old": _T1, "new": _T2, "force": False,
             "server": {"kind": "good", "frac": 50, "status": 404, "etag": True, "lastmod": True}},
    "truncated": {"comp": "bz2", "prev": "synced-stale", "old": _T1, "new": _T2, "force": False,
                  "server": {"kind": "good", "frac": 50, "status": 404, "etag": True, "lastmod": False}},
    "status": {"comp": "xz", "prev": "plain", "old": _T2, "new": _T1, "force": True,
               "server": {"kind": "good", "frac": 50, "status": 404, "etag": False, "lastmod": False}},
}


def core_points(events):
    """the small deterministic family every run visits first: dying around the two renames of the tree swap, after
    the last rename (new tree in place, old one still parked, exit handlers never run) and at the first step of
    the exit-time cleanup"""
    pts = []
    first_cleanup = None
    for ev in events:
        sig = signature(ev)
        if sig in ("os.rename:base->old", "os.rename:update->base"):
            pts += [(ev["k"], "before"), (ev["k"], "after")]
            if sig == "os.rename:update->base":
                pts.append((ev["k"], "eio"))
        elif first_cleanup is None and ev["ev"] in ("os.remove", "os.rmdir") and _role(ev.get("path")).startswith("old"):
            first_cleanup = ev["k"]
            pts.append((ev["k"], "before"))
    return pts


TINY = {"comp": "gz", "prev": "plain", "old": {"files": [0], "extras": [], "salt": 3}, "new": {"files": [1], "extras": [], "salt": 4},
        "force": False, "server": {"kind": "status", "frac": 50, "status": 404, "etag": False, "lastmod": False}}


def run_tiny(ctx, lb):
    """cheapest scenario there is (HTTP 404: three events, no tar, no follow-up sync): something is judged within the
    first seconds of a run whatever the load; the first points are judged even past the generation guard"""
    world = World(ctx.fresh_dir("w"), TINY, lb, "tiny")
    try:
        res = crash.dry_run(world.sync_op(world.uri, False), [world.live])
        if res.status == "died":
            raise core.HarnessError(f"sync child died (code {res.code})")
        ok, why = world.old_untouched()
        if res.status == "completed" or not ok:
            ctx.violation("resync:failed-download-touched-tree:status:" + world.state(), {"scenario": TINY, "point": "complete"},
                          f"HTTP 404: sync {res.status}, previous tree: {why}")
        pts = sorted(crash.points(res.events), key=lambda p: (p[0] == 1 and p[1] != "after", p))
        for i, (k, mode) in enumerate(pts):
            if i >= 3 and ctx.out_of_time():
                break
            run_point(ctx, world, res.events, k, mode, "none")
    finally:
        lb.srv.blobs.pop("tiny", None)
        shutil.rmtree(world.top, ignore_errors=True)


def run_core(ctx, lb, follow):
    # the fixed families are small and bounded (<= 7 points each): they are not cut short by the generation guard, so
    # that a busy machine does not silently drop them (the runner's hard cap still applies)
    if follow == "tarfail":
        # the unpacker dies {with, without} stderr text x {before writing, after a partial extraction}
        for i, mode in enumerate(TARFAIL):
            sc = CORE[FOLLOW[i % len(FOLLOW)]]
            world = World(ctx.fresh_dir("w"), sc, lb, f"tf{i}")
            try:
                run_tarfail(ctx, world, mode)
            finally:
                lb.srv.blobs.pop(f"tf{i}", None)
                shutil.rmtree(world.top, ignore_errors=True)
        return
    sc = CORE[follow]
    world = World(ctx.fresh_dir("w"), sc, lb, "core")
    try:
        world.reset()
        res = crash.dry_run(world.sync_op(world.uri, sc["force"]), [world.live])
        if res.status == "died":
            raise core.HarnessError(f"sync child died (code {res.code})")
        if res.status != "completed" or world.state() != "new":
            ctx.violation(f"{_phase(sc)}:good-sync-failed", {"scenario": sc, "point": "complete"},
                          f"sync from a good tarball: {res.status} {res.exc}, tree '{world.state()}'")
            return
        ctx.count("scenarios")
        for k, mode in core_points(res.events):
            run_point(ctx, world, res.events, k, mode, follow)
    finally:
        lb.srv.blobs.pop("core", None)
        shutil.rmtree(world.top, ignore_errors=True)


N_SCEN = {"quick": {"good": (8, 1), "bad": (5, 1)}, "thorough": {"good": (16, 12), "bad": (8, 12)}}  # (tasks, scenarios per task)


def plan(tier, seed):
    tasks = []
    only = os.environ.get("VF_C47_ONLY", "")  # development aid: "good", "bad" or "core"
    if not only:
        tasks.append({"task": "tiny"})
    if not only or only == "core":
        for f in FOLLOW:  # first: kill points around the tree swap x what the next sync does
            tasks.append({"task": "core", "follow": f})
        tasks.append({"task": "core", "follow": "tarfail"})
    for grp in ("bad", "good"):  # the faulty-server scenarios have the shortest event logs: cheap cases first
        if only and grp != only:
            continue
        nt, n = N_SCEN[tier][grp]
        for i in range(nt):
            tasks.append({"task": "scen", "grp": grp, "n": n, "part": i})
    return tasks


def warm_up(ctx, lb):
    """import in this process what the forked children need (no sync is run here: every fork is expensive under load)"""
    import http.client  # noqa: F401
    import ssl  # noqa: F401
    import subprocess  # noqa: F401
    import tempfile  # noqa: F401
    import urllib.request  # noqa: F401

    import pkgcore.sync.tar  # noqa: F401


def run_task(ctx, task, grp=None, n=0, part=0, follow=None):
    if task not in ("tiny", "core") and ctx.out_of_time():
        return
    lb = Loopback()
    try:
        warm_up(ctx, lb)
        if task == "tiny":
            run_tiny(ctx, lb)
            return
        if task == "core":
            run_core(ctx, lb, follow)
            return
        counter = [0]

        import random

        pick = random.Random(ctx.seed * 7919 + part * 101 + (0 if grp == "good" else 50))
        limit = 12 if ctx.tier == "quick" else None

        def one(sc):
            counter[0] += 1
            run_scenario(ctx, lb, sc, counter[0], limit, pick)

        if grp == "good":
            core.hyp_run(ctx, scenario_strategy(GOOD), one, n, chunk=n, seed_salt=part * 13)
        else:
            # every faulty-server kind is visited in turn, so that a quick run covers all of them
            for i in range(n):
                kind = BAD[(part * n + i) % len(BAD)]
                core.hyp_run(ctx, scenario_strategy([kind]), one, 1, chunk=1, seed_salt=part * 13 + 7 + i * 131)
    finally:
        lb.close()


def replay(ctx, case):
    lb = Loopback()
    try:
        sc = case["scenario"]
        world = World(ctx.fresh_dir("w"), sc, lb, "r0")
        pt = case.get("point")
        if pt == "complete" or pt is None:
            run_complete(ctx, world)
        elif pt == "midtar":
            run_midtar(ctx, world)
        elif pt == "tarfail":
            run_tarfail(ctx, world, case["mode"])
        else:
            world.reset()
            res = crash.dry_run(world.sync_op(world.uri, sc["force"]), [world.live])
            n = 0
            for ev in res.events:
                if signature(ev) == pt["sig"]:
                    n += 1
                    if n == pt["occurrence"]:
                        run_point(ctx, world, res.events, ev["k"], case["mode"], case.get("follow", "good"))
                        break
            else:
                ctx.count("replay_event_absent")
    finally:
        lb.close()
