"""C11 Stacked USE configuration applies entries in order, including -* resets.

Two layers, one oracle.

Layer "cdd": random *histories* over `misc.ChunkedDataDict` -- add_bare_global / add / update_from_stream /
merge(other history) / freeze / clone / optimize(cache or not) -- over chunks with flags, `-flag`, `-*` and
`-foo_*`, keyed by `*/*`, category/package globs, unversioned and versioned/slotted atoms of two packages.
After EVERY step `pull_data(pkg, pre_defaults)` is compared for four probe packages (matching / not matching
each key) and two pre-default sets with the model.  Objects left behind by clone/merge are re-checked at the
end of the history (no aliasing).

Layer "dom": a real `domain` over a temp profile stack (1-2 nodes: make.defaults USE, package.use, use.mask,
use.force, package.use.mask/force, use.stable.mask/force, package.use.stable.mask/force), a temp config dir
(package.use file or directory, incl. `*/* FOO: -* x` and `x -* y` lines) and make.conf-style USE; the three
sets of `domain.get_package_use_unconfigured(pkg)` (for_metadata True and False) are compared with the model.

Model (oracle): an ordered list of entries (key, neg, pos); the expected set is decided per flag by the LAST
applicable entry that mentions it (pos => on; neg / `-*` / `-PFX_*` => off; none => pre-default), which is the
statement's "apply every applicable entry in the order given".  Which probe package a key matches is a
hand-written table, not pkgcore's matcher.  Text lines are parsed by the harness' own reading of the
package.use syntax.

Kept out of the domain on purpose (the statement does not fix their meaning): the same flag with both signs
inside one chunk/line, positive `foo_*` globs, literal `foo_` flags next to a `FOO: -*` section on the same
line, `-*` inside profile files, use.stable / package.use.stable (EAPI 9 only; disabled on this host).

PayloadDict (no caller anywhere in pkgcore) gets a small sub-check of its own ("payloaddict:*" buckets).
"""
import shutil

from .. import core
from ..gen import domaincfg

ID = "C11"
TITLE = "Stacked USE configuration applies entries in order, including -* resets"
LEVEL = "exploration"
TECHNIQUE = "stateful history vs. last-mention-wins model on ChunkedDataDict; generated profile/config trees through a real domain"
DESIGN_REF = "DESIGN.md §3 C11"
LEVEL_TEXT = (
    "Generated-input search: random histories of ChunkedDataDict operations checked after every step against an "
    "ordered-entry model for four probe packages, plus random profile stacks / package.use trees rendered through "
    "domain.get_package_use_unconfigured and compared with the same model."
)
LEVEL_NOTE = "Trusted: the model in this module and its reading of package.use syntax (domain.package_use_splitter docstring, tests/ebuild/test_domain.py). No proof of absence."
RULE = (
    "cdd: op lists (len<=10) over bare/stream/merge/freeze/clone/optimize with chunks over flags "
    "{a,b,c,foo_x,foo_y,bar_z,foobar} + {-*,-foo_*,-bar_*}, 10 key shapes, 4 probe packages; dom: generated profile and "
    "config files; non-trivial = a -* or -PFX_* occurs after an earlier positive entry applying to the same probe "
    "package, or an optimize/merge/clone happens between entries, or (dom) >=2 layers carry entries for a probe "
    "package; distinct = distinct history / spec"
)
ASSUMPTIONS = [
    "a chunk (neg, pos) means: apply negations (incl. wildcards) first, then positives (split_negations semantics of one line)",
    "merge(other) stacks other's entries after self's entries",
    "profile node order: parent before child; inside a node use.mask, use.stable.mask, package.use.mask, package.use.stable.mask (same for force)",
    "-PREFIX_* clears flags starting with 'PREFIX_' (USE_EXPAND values), not every flag starting with 'PREFIX'",
]
BUDGET = {"quick": 50, "thorough": 900}

FLAGS = ["a", "b", "c", "foo_x", "foo_y", "bar_z", "foobar"]
WILD = ["*", "foo_*", "bar_*"]
PKGS = [("cat/pa-1", "0"), ("cat/pa-2", "1"), ("cat/pb-1", "0"), ("oth/pc-1", "0")]
# key spec -> (kind, indexes of probe packages it matches)   [hand-written]
KEYS = {
    "*/*": ("global", {0, 1, 2, 3}),
    "cat/*": ("glob", {0, 1, 2}),
    "*/pa": ("glob", {0, 1}),
    "cat/pa": ("simple", {0, 1}),
    "=cat/pa-1": ("specific", {0}),
    ">=cat/pa-2": ("specific", {1}),
    "cat/pa:1": ("specific", {1}),
    "<cat/pa-3": ("specific", {0, 1}),
    "cat/pb": ("simple", {2}),
    "=cat/pb-1*": ("specific", {2}),
}
ATOM_KEYS = [k for k, v in KEYS.items() if v[0] in ("simple", "specific")]


# ---------------------------------------------------------------- model

def flag_state(entries, idx, flag, pre):
    """(on?, decider) for `flag` on probe package idx; entries = [(key, neg, pos)] in order"""
    for key, neg, pos in reversed(entries):
        kind, matches = KEYS[key]
        if idx not in matches:
            continue
        if flag in pos:
            return True, f"{kind}-pos"
        if flag in neg:
            return False, f"{kind}-neg"
        if "*" in neg:
            return False, f"{kind}-star"
        for n in neg:
            if n.endswith("_*") and flag.startswith(n[:-1]):
                return False, f"{kind}-prefix"
    return (flag in pre), ("predefault" if flag in pre else "unset")


def expected(entries, idx, pre):
    return {f for f in FLAGS if flag_state(entries, idx, f, pre)[0]}


def boundary_suspect(entries, idx, flag):
    """a wildcard whose prefix WITHOUT the underscore is a prefix of `flag` applies to the package"""
    for key, neg, pos in entries:
        if idx in KEYS[key][1]:
            for n in neg:
                if n.endswith("_*") and not flag.startswith(n[:-1]) and flag.startswith(n[:-2]):
                    return True
    return False


def diff_bucket(entries, idx, pre, got):
    exp = expected(entries, idx, pre)
    got = set(got)
    junk = sorted(got - set(FLAGS))
    if junk:
        return f"unknown-flag:{junk[0]}", exp
    wrong = sorted((got ^ exp))
    f = wrong[0]
    on, decider = flag_state(entries, idx, f, pre)
    if on and f not in got and boundary_suspect(entries, idx, f):
        return "prefix-boundary", exp
    return decider, exp


def _coarse(why):
    """bucket suffix: which kind of entry decided the flag the implementation got wrong"""
    if why.endswith(("-star", "-prefix")):
        return "wildcard-decides"
    if why.endswith(("-pos", "-neg")):
        return "literal-decides"
    return why


# ---------------------------------------------------------------- layer cdd

def _env():
    from pkgcore.ebuild import misc
    from pkgcore.test.misc import FakePkg
    from pkgcore.util.parserestrict import parse_match

    return misc, FakePkg, parse_match


class Objs:
    def __init__(self):
        self.misc, FakePkg, self.parse_match = _env()
        self.pkgs = [FakePkg(cpv, slot=slot) for cpv, slot in PKGS]
        self._keys = {}

    def key(self, spec):
        k = self._keys.get(spec)
        if k is None:
            k = self._keys[spec] = self.parse_match(spec)
        return k

    def chunk(self, ent):
        key, neg, pos = ent
        return self.misc.chunked_data(self.key(key), tuple(neg), tuple(pos))


class Machine:
    def __init__(self, objs, cache):
        self.o = objs
        self.d = objs.misc.ChunkedDataDict()
        self.model = []
        self.cache = cache
        self.left_behind = []  # (object, model at that time, label)
        self.touched = False  # an optimize/merge/clone happened between entries

    def _writable(self):
        if self.d.frozen:
            self.d = self.d.clone(unfreeze=True)

    def apply(self, op):
        kind = op[0]
        if kind == "bare":
            self._writable()
            self.d.add_bare_global(tuple(op[1]), tuple(op[2]))
            if op[1] or op[2]:
                self.model.append(("*/*", tuple(op[1]), tuple(op[2])))
        elif kind == "stream":
            self._writable()
            ents = [tuple(e) for e in op[1]]
            if len(ents) == 1:
                self.d.add(self.o.chunk(ents[0]))
            else:
                self.d.update_from_stream(self.o.chunk(e) for e in ents)
            for key, neg, pos in ents:
                if neg or pos:
                    self.model.append((key, tuple(neg), tuple(pos)))
        elif kind == "merge":
            sub = Machine(self.o, self.cache)
            for sop in op[1]:
                sub.apply(sop)
            self._writable()
            self.d.merge(sub.d)
            self.model.extend(sub.model)
            self.left_behind.append((sub.d, list(sub.model), "merged-in"))
            self.left_behind.extend(sub.left_behind)
            self.touched = True
        elif kind == "freeze":
            self.d.freeze()
        elif kind == "clone":
            old = self.d
            self.d = old.clone(unfreeze=bool(op[1]))
            self.left_behind.append((old, list(self.model), "clone-source"))
            self.touched = True
        elif kind == "optimize":
            self.d.optimize(cache=self.cache if op[1] else None)
            self.touched = True
        else:
            raise core.HarnessError(f"unknown op {op!r}")


def _positions_nontrivial(entries):
    """a -* / -PFX_* after an earlier positive entry that applies to the same probe package"""
    for idx in range(len(PKGS)):
        seen_pos = False
        for key, neg, pos in entries:
            if idx not in KEYS[key][1]:
                continue
            if seen_pos and any(n.endswith("*") for n in neg):
                return True
            if pos:
                seen_pos = True
    return False


def run_history(ctx, objs, case, record=True):
    ops, pre = case["ops"], tuple(case.get("pre", ()))
    cache = {}
    m = Machine(objs, cache)
    state = {"step": None}
    classes = set()

    def compare(d, model, label, opkind):
        for idx, pkg in enumerate(objs.pkgs):
            for p in ((), pre) if pre else ((),):
                got = d.pull_data(pkg, pre_defaults=p)
                exp = expected(model, idx, p)
                if set(got) != exp:
                    why, exp = diff_bucket(model, idx, p, got)
                    ctx.violation(
                        f"cdd:{label or opkind}:{_coarse(why)}", case,
                        f"after op #{state['step']} ({opkind}) pkg {PKGS[idx][0]} pre={list(p)}: got {sorted(got)} expected {sorted(exp)}",
                    )
                    return False
        return True

    def body():
        for i, op in enumerate(ops):
            state["step"] = i
            m.apply(op)
            classes.add(op[0])
            if not compare(m.d, m.model, None, op[0]):
                return
        state["step"] = len(ops)
        for d, model, label in m.left_behind:
            if not compare(d, model, "aliasing-" + label, "end"):
                return

    if record:
        ents = _flatten_entries(ops)
        nt = _positions_nontrivial(ents) or (len(ents) >= 2 and bool({"merge", "optimize", "clone"} & {o[0] for o in ops}))
        cl = sorted({o[0] for o in ops} | ({"wild_after_pos"} if _positions_nontrivial(ents) else set())
                    | ({"star"} if any("*" in e[1] for e in ents) else set())
                    | ({"prefix_wild"} if any(n.endswith("_*") for e in ents for n in e[1]) else set()))
        ctx.case(case, nontrivial=nt, classes=["cdd"] + cl, key="h|" + core.jdump(case), n=max(1, len(ops)))
    core.guarded(ctx, case, body)


def _flatten_entries(ops):
    out = []
    for op in ops:
        if op[0] == "bare":
            out.append(("*/*", tuple(op[1]), tuple(op[2])))
        elif op[0] == "stream":
            out.extend((e[0], tuple(e[1]), tuple(e[2])) for e in op[1])
        elif op[0] == "merge":
            out.extend(_flatten_entries(op[1]))
    return out


# generators (plain python over a hypothesis-drawn choice tape, see domaincfg.Tape) ----------------

KEY_POOL = sorted(KEYS) + ["*/*", "cat/pa", "cat/pa", "=cat/pa-1"]


def gen_chunk(t, allow_wild=True, pool=FLAGS, mx=3):
    flags = t.subset(pool, 1, mx)
    neg, pos = [], []
    for f in flags:
        (pos if t.take(2) else neg).append(f)
    if allow_wild and t.take(4) == 0:
        neg.insert(0, t.pick(WILD))
    return neg, pos


def gen_basic_op(t):
    k = t.take(10)
    if k <= 1:
        neg, pos = gen_chunk(t)
        return ["bare", neg, pos]
    if k <= 6:
        ents = []
        for _ in range(t.pick([1, 1, 1, 2, 3])):
            neg, pos = gen_chunk(t)
            ents.append([t.pick(KEY_POOL), neg, pos])
        return ["stream", ents]
    if k == 7:
        return ["freeze"]
    if k == 8:
        return ["clone", bool(t.take(2))]
    return ["optimize", bool(t.take(2))]


def gen_history(t):
    ops = []
    for _ in range(1 + t.take(10)):
        if t.take(6) == 0:
            ops.append(["merge", [gen_basic_op(t) for _ in range(1 + t.take(5))]])
        else:
            ops.append(gen_basic_op(t))
    pre = t.subset(FLAGS, 0, 3)
    return {"kind": "cdd", "ops": ops, "pre": sorted(pre)}


def history():
    return domaincfg.tape_strategy(1536).map(gen_history)


# ---------------------------------------------------------------- PayloadDict sub-check

def run_payload(ctx, objs, case):
    """PayloadDict fed the same kind of stream (payload tuples '-x'/'x')."""
    misc = objs.misc
    ents = [tuple(e) for e in case["entries"]]
    ctx.case(case, nontrivial=len(ents) >= 2, classes=["payloaddict"], key="pd|" + core.jdump(case))
    try:
        d = misc.PayloadDict()
        model = []
        for key, neg, pos in ents:
            payload = tuple("-" + n for n in neg) + tuple(pos)
            if key == "*/*" and case.get("bare"):
                d.add_bare_global(payload)
            else:
                d.update_from_stream([misc.restrict_payload(objs.key(key), payload)])
            model.append((key, tuple(neg), tuple(pos)))
        for idx, pkg in enumerate(objs.pkgs):
            got = set(d.pull_data(pkg))
            exp = expected(model, idx, ())
            if got != exp:
                ctx.violation("payloaddict:entries-not-applied", case, f"pkg {PKGS[idx][0]}: got {sorted(got)} expected {sorted(exp)}")
                return
    except Exception as e:  # noqa: BLE001
        b = core.pkg_frame_bucket(e)
        if b is None:
            raise
        ctx.violation("payloaddict:" + b, case, f"{type(e).__name__}: {e}")


def gen_payload_case(t):
    ents = []
    for _ in range(1 + t.take(4)):
        neg, pos = gen_chunk(t, allow_wild=False)
        ents.append([t.pick(["*/*", "cat/pa", "=cat/pa-1", "cat/pb"]), neg, pos])
    return {"kind": "payload", "entries": ents, "bare": bool(t.take(2))}


def payload_case():
    return domaincfg.tape_strategy(256).map(gen_payload_case)


# ---------------------------------------------------------------- layer dom

USE_EXPANDS = {"FOO": ["x", "y"], "BAR": ["z"]}
PLAIN = ["a", "b", "c", "foobar"]
EXPANDED = ["foo_x", "foo_y", "bar_z"]
MASKABLE = ["a", "b", "c", "foo_x", "bar_z"]


def parse_use_line(tokens):
    """harness reading of one user package.use payload: returns (neg, pos) with wildcards in neg.
    Left to right: a plain `-*` forgets everything before it; `NAME:` starts a USE_EXPAND section whose values are
    prefixed with `name_`; `-*` inside a section forgets the section's earlier values and clears `name_*`."""
    state = {}  # flag -> bool (later mention wins); wildcards recorded separately
    wild = []
    section = None
    for t in tokens:
        if t.endswith(":"):
            section = t[:-1].lower()
            continue
        if section is None:
            if t == "-*":
                state.clear()
                wild = ["*"]
            elif t.startswith("-"):
                state[t[1:]] = False
            else:
                state[t] = True
        else:
            if t == "-*":
                for f in [f for f in state if f.startswith(section + "_")]:
                    del state[f]
                wild.append(section + "_*")
            elif t.startswith("-"):
                state[f"{section}_{t[1:]}"] = False
            else:
                state[f"{section}_{t}"] = True
    neg = tuple(wild) + tuple(sorted(f for f, v in state.items() if not v))
    pos = tuple(sorted(f for f, v in state.items() if v))
    return neg, pos


def condense_global(tokens):
    """global USE stream -> one (neg, pos) entry (negations incl. '*' first, then positives)"""
    state = {}
    star = False
    for t in tokens:
        if t == "-*":
            state.clear()
            star = True
        elif t.startswith("-"):
            state[t[1:]] = False
        else:
            state[t] = True
    neg = (("*",) if star else ()) + tuple(sorted(f for f, v in state.items() if not v))
    return neg, tuple(sorted(f for f, v in state.items() if v))


def _lines(text):
    return [l.split() for l in text.splitlines() if l.strip() and not l.strip().startswith("#")]


def dom_model(spec):
    """entries lists for enabled / forced / masked, for stable and unstable package views"""
    nodes = spec["profiles"]
    use_tokens = []
    for n in nodes:
        use_tokens += n.get("_USE", [])
    use_tokens += (spec.get("settings") or {}).get("USE", "").split()
    enabled = []
    g = condense_global(use_tokens)
    if g[0] or g[1]:
        enabled.append(("*/*",) + g)
    for n in nodes:
        for l in _lines(n.get("package.use", "")):
            enabled.append((l[0],) + _split(l[1:]))
    pu = (spec.get("conf") or {}).get("package.use", "")
    texts = [pu[k] for k in sorted(pu)] if isinstance(pu, dict) else [pu]
    for text in texts:
        for l in _lines(text):
            enabled.append((l[0],) + parse_use_line(l[1:]))

    def layer(base, stable):
        out = []
        for n in nodes:
            names = [f"use.{base}"] + ([f"use.stable.{base}"] if stable else [])
            for name in names:
                toks = [l[0] for l in _lines(n.get(name, ""))]
                if toks:
                    out.append(("*/*",) + _split(toks))
            names = [f"package.use.{base}"] + ([f"package.use.stable.{base}"] if stable else [])
            for name in names:
                for l in _lines(n.get(name, "")):
                    out.append((l[0],) + _split(l[1:]))
        return out

    return {
        "enabled": enabled,
        "mask": {False: layer("mask", False), True: layer("mask", True)},
        "force": {False: layer("force", False), True: layer("force", True)},
    }


def _split(tokens):
    return tuple(t[1:] for t in tokens if t.startswith("-")), tuple(t for t in tokens if not t.startswith("-"))


ALLF = FLAGS + ["x86"]


def _exp_all(entries, idx, pre, universe):
    return {f for f in universe if flag_state(entries, idx, f, pre)[0]}


def run_dom(ctx, case, record=True):
    spec = case["spec"]
    model = dom_model(spec)
    accept_unstable = "~x86" in spec["profiles"][0].get("_ACCEPT_KEYWORDS", "x86").split()
    if record:
        layers = 0
        for idx in range(len(PKGS)):
            n = len({("g" if e[0] == "*/*" else "p") + str(i > 0) for i, e in enumerate(model["enabled"]) if idx in KEYS[e[0]][1]})
            layers = max(layers, sum(1 for e in model["enabled"] if idx in KEYS[e[0]][1]))
        cl = ["dom"]
        if _positions_nontrivial(model["enabled"]):
            cl.append("wild_after_pos")
        if any("*" in e[1] for e in model["enabled"]):
            cl.append("star")
        if any(n.endswith("_*") for e in model["enabled"] for n in e[1]):
            cl.append("prefix_wild")
        if any(model["mask"][True]) or any(model["force"][True]):
            cl.append("mask_force")
        if len(spec["profiles"]) > 1:
            cl.append("two_nodes")
        ctx.case(case, nontrivial=layers >= 2, classes=cl, key="d|" + core.jdump(case), n=len(spec["pkgs"]) * 2)

    def body():
        d = ctx.fresh_dir("dom")
        try:
            return evaluate(domaincfg.build(d, _strip_private(spec)))
        finally:
            shutil.rmtree(d, ignore_errors=True)  # keep the scratch area small (thousands of cases per task)

    def evaluate(b):
        dom = b.domain
        for idx, (pkg, pspec) in enumerate(zip(b.pkgs, spec["pkgs"])):
            iuse = pspec["iuse"]
            pre = sorted(x[1:] for x in iuse if x.startswith("+"))
            stripped = {x.lstrip("+") for x in iuse}
            stable = ("x86" in pspec["keywords"].split()) and not accept_unstable
            exp_forced = _exp_all(model["force"][stable], idx, (), ALLF) | {"x86"}
            exp_masked = _exp_all(model["mask"][stable], idx, (), ALLF)
            exp_raw = _exp_all(model["enabled"], idx, pre, ALLF)
            for for_metadata in (False, True):
                imm, en, dis = dom.get_package_use_unconfigured(pkg, for_metadata=for_metadata)
                imm, en, dis = set(imm), set(en), set(dis)
                if imm != exp_forced:
                    why, _ = _dom_why(model["force"][stable], idx, (), imm, exp_forced)
                    ctx.violation(f"dom:forced:{_coarse(why)}", case, f"{pkg.cpvstr} stable={stable}: immutable {sorted(imm)} expected {sorted(exp_forced)}")
                    return
                if dis != exp_masked:
                    why, _ = _dom_why(model["mask"][stable], idx, (), dis, exp_masked)
                    ctx.violation(f"dom:masked:{_coarse(why)}", case, f"{pkg.cpvstr} stable={stable}: disabled {sorted(dis)} expected {sorted(exp_masked)}")
                    return
                exp_en = exp_raw if not for_metadata else ((exp_raw & stripped) | exp_forced) - exp_masked
                if en != exp_en:
                    raw = dom.get_package_use_unconfigured(pkg, for_metadata=False)[1]
                    why, _ = _dom_why(model["enabled"], idx, pre, set(raw), exp_raw)
                    ctx.violation(
                        f"dom:enabled:{_coarse(why)}", case,
                        f"{pkg.cpvstr} stable={stable} for_metadata={for_metadata} pre={pre}: enabled {sorted(en)} expected {sorted(exp_en)}",
                    )
                    return

    core.guarded(ctx, case, body)


def _dom_why(entries, idx, pre, got, exp):
    wrong = sorted(set(got) ^ set(exp))
    if not wrong:
        return "post-processing", exp
    f = wrong[0]
    if f not in ALLF:
        return f"unknown-flag:{f}", exp
    on, decider = flag_state(entries, idx, f, pre)
    if on and f not in got and boundary_suspect(entries, idx, f):
        return "prefix-boundary", exp
    return decider, exp


def _strip_private(spec):
    s = dict(spec)
    s["profiles"] = [{k: v for k, v in n.items() if not k.startswith("_")} for n in spec["profiles"]]
    return s


# dom generators -----------------------------------------------------------------

def gen_signed(t, pool, mx=3):
    return [f if t.take(2) else "-" + f for f in t.subset(pool, 1, mx)]


def gen_global_use(t, allow_star=True):
    toks = gen_signed(t, FLAGS, 4)
    if allow_star and t.take(5) == 0:
        toks.insert(t.take(len(toks) + 1), "-*")
    return toks


def gen_user_use_line(t):
    key = t.pick(KEY_POOL)
    if t.take(6) <= 2:
        toks = gen_signed(t, FLAGS, 3)
        if t.take(4) == 0:
            toks.insert(t.take(len(toks) + 1), "-*")
    else:
        # plain part (no literal foo_/bar_ flags) + USE_EXPAND sections
        toks = gen_signed(t, PLAIN, 2) if t.take(2) else []
        if toks and t.take(5) == 0:
            toks.insert(t.take(len(toks) + 1), "-*")
        for nme in t.subset(sorted(USE_EXPANDS), 1, 2):
            toks.append(nme + ":")
            vals = gen_signed(t, USE_EXPANDS[nme], 2)
            if t.take(2) == 0:
                vals.insert(t.take(len(vals) + 1), "-*")
            toks.extend(vals)
    return key + " " + " ".join(toks)


ATOM_POOL = ATOM_KEYS + ["cat/pa", "cat/pa"]


def gen_atom_use_line(t, pool=FLAGS):
    return t.pick(ATOM_POOL) + " " + " ".join(gen_signed(t, pool, 3))


def gen_file(t, line_gen, mx):
    return "\n".join(line_gen(t) for _ in range(1 + t.take(mx))) + "\n"


def gen_profile_node(t, first):
    n = {}
    md = []
    if first:
        ak = t.pick(["x86", "x86", "x86 ~x86"])
        n["_ACCEPT_KEYWORDS"] = ak
        md += ['ARCH="x86"', f'ACCEPT_KEYWORDS="{ak}"', 'USE_EXPAND="FOO BAR"']
    if t.take(3) > 0:
        toks = gen_global_use(t)
        n["_USE"] = toks
        md.append('USE="' + " ".join(toks) + '"')
    if md:
        n["make.defaults"] = "\n".join(md) + "\n"
    if t.take(3) > 0:
        n["package.use"] = gen_file(t, gen_atom_use_line, 4)
    for base in ("mask", "force"):
        if t.take(4) == 0:
            n[f"use.{base}"] = "\n".join(gen_signed(t, MASKABLE, 3)) + "\n"
        if t.take(4) == 0:
            n[f"package.use.{base}"] = gen_file(t, lambda tt: gen_atom_use_line(tt, MASKABLE), 3)
        if t.take(6) == 0:
            n[f"use.stable.{base}"] = "\n".join(gen_signed(t, MASKABLE, 2)) + "\n"
        if t.take(6) == 0:
            n[f"package.use.stable.{base}"] = gen_file(t, lambda tt: gen_atom_use_line(tt, MASKABLE), 2)
    return n


def gen_dom_case(t):
    nodes = [gen_profile_node(t, True)]
    if t.take(2):
        nodes.append(gen_profile_node(t, False))
    conf = {}
    k = t.take(6)
    if k <= 2:
        conf["package.use"] = gen_file(t, gen_user_use_line, 6)
    elif k <= 4:
        conf["package.use"] = {"00-a": gen_file(t, gen_user_use_line, 3), "10-b": gen_file(t, gen_user_use_line, 3)}
    settings = {}
    if t.take(3) == 0:
        settings["USE"] = " ".join(gen_global_use(t))
    pkgs = []
    for cpv, slot in PKGS:
        iuse = []
        for f in FLAGS + ["x86"]:
            r = t.take(8)
            if r == 0:
                continue
            iuse.append(("+" + f) if r == 1 and f != "x86" else f)
        pkgs.append({"cpv": cpv, "slot": slot, "keywords": t.pick(["x86", "~x86", "x86 ~amd64"]), "iuse": iuse})
    return {"kind": "dom", "spec": {"profiles": nodes, "conf": conf, "settings": settings, "pkgs": pkgs}}


def dom_case():
    return domaincfg.tape_strategy(3072).map(gen_dom_case)


# ---------------------------------------------------------------- plan / tasks / replay / shrink

def plan(tier, seed):
    t = []
    if tier == "quick":
        for i in range(8):
            t.append({"task": "cdd", "examples": 1500})
        for i in range(6):
            t.append({"task": "dom", "examples": 250})
        t.append({"task": "payload", "examples": 300})
    else:
        for i in range(16):
            t.append({"task": "cdd", "examples": 30000})
        for i in range(15):
            t.append({"task": "dom", "examples": 5000})
        t.append({"task": "payload", "examples": 2000})
    return t


def run_task(ctx, task, **kw):
    if task == "cdd":
        objs = Objs()
        core.hyp_run(ctx, history(), lambda c: run_history(ctx, objs, c), kw["examples"], chunk=500)
    elif task == "dom":
        core.hyp_run(ctx, dom_case(), lambda c: run_dom(ctx, c), kw["examples"], chunk=125, seed_salt=5)
    elif task == "payload":
        objs = Objs()
        core.hyp_run(ctx, payload_case(), lambda c: run_payload(ctx, objs, c), kw["examples"], chunk=500, seed_salt=9)
    else:
        raise core.HarnessError(f"unknown task {task}")


def _run_case(ctx, case, record=True):
    k = case.get("kind")
    if k == "cdd":
        run_history(ctx, Objs(), case, record=record)
    elif k == "dom":
        run_dom(ctx, case, record=record)
    elif k == "payload":
        run_payload(ctx, Objs(), case)
    else:
        raise core.HarnessError(f"unknown case kind {k!r}")


def replay(ctx, case):
    _run_case(ctx, case)


def _variants(x):
    """structurally smaller variants of a JSON value (drop one list element / dict key / shorten text by a line)"""
    if isinstance(x, list):
        for i in range(len(x)):
            yield x[:i] + x[i + 1:]
        for i in range(len(x)):
            for v in _variants(x[i]):
                yield x[:i] + [v] + x[i + 1:]
    elif isinstance(x, dict):
        for k in sorted(x):
            if k in ("kind", "spec", "ops", "pkgs", "profiles", "cpv", "slot", "keywords", "iuse", "entries"):
                continue
            d = dict(x)
            del d[k]
            yield d
        for k in sorted(x):
            for v in _variants(x[k]):
                d = dict(x)
                d[k] = v
                yield d
    elif isinstance(x, str) and "\n" in x:
        lines = x.splitlines()
        for i in range(len(lines)):
            rest = lines[:i] + lines[i + 1:]
            if rest:
                yield "\n".join(rest) + "\n"
        for i, l in enumerate(lines):
            toks = l.split()
            if len(toks) > 2 and "=" not in l:
                for j in range(1, len(toks)):
                    yield "\n".join(lines[:i] + [" ".join(toks[:j] + toks[j + 1:])] + lines[i + 1:]) + "\n"


def _valid(case):
    try:
        if case["kind"] == "cdd":
            for op in case["ops"]:
                _check_op(op)
        elif case["kind"] == "dom":
            spec = case["spec"]
            if len(spec["profiles"]) < 1 or len(spec["pkgs"]) != len(PKGS):
                return False
            n0 = spec["profiles"][0]
            if "make.defaults" not in n0 or "ARCH" not in n0["make.defaults"] or "ACCEPT_KEYWORDS" not in n0["make.defaults"]:
                return False
            for n in spec["profiles"]:
                # the private _USE mirror must agree with make.defaults
                md = n.get("make.defaults", "")
                has = [l for l in md.splitlines() if l.startswith("USE=")]
                if bool(has) != ("_USE" in n):
                    return False
                if has and has[0] != 'USE="' + " ".join(n["_USE"]) + '"':
                    return False
                for fname, text in n.items():
                    if fname.startswith(("package.use", "use.")):
                        for l in _lines(text):
                            if fname.startswith("package.") and (len(l) < 2 or l[0] not in KEYS):
                                return False
            pu = spec.get("conf", {}).get("package.use", "")
            for text in (pu.values() if isinstance(pu, dict) else [pu]):
                for l in _lines(text):
                    if len(l) < 2 or l[0] not in KEYS or l[-1].endswith(":"):
                        return False
        return True
    except (KeyError, IndexError, TypeError, ValueError):
        return False


def _check_op(op):
    k = op[0]
    if k == "bare":
        assert len(op) == 3 and all(isinstance(x, list) for x in op[1:])
    elif k == "stream":
        assert len(op) == 2 and op[1]
        for e in op[1]:
            assert len(e) == 3 and e[0] in KEYS and isinstance(e[1], list) and isinstance(e[2], list)
    elif k == "merge":
        assert len(op) == 2 and isinstance(op[1], list)
        for s in op[1]:
            _check_op(s)
            assert s[0] != "merge"
    elif k in ("clone", "optimize"):
        assert len(op) == 2 and isinstance(op[1], bool)
    elif k == "freeze":
        assert len(op) == 1
    else:
        raise ValueError(k)


def _check_op_safe(op):
    try:
        _check_op(op)
        return True
    except (AssertionError, ValueError, IndexError, TypeError):
        return False


def shrink_case(ctx, bucket, case):
    def hits(c):
        if c.get("kind") == "cdd":
            if not all(_check_op_safe(op) for op in c["ops"]):
                return False
        elif not _valid(c):
            return False
        sub = core.Ctx(ctx.pid, ctx.tier, ctx.seed)
        try:
            _run_case(sub, c, record=False)
            return bucket in sub.violations
        except Exception:  # noqa: BLE001
            return False
        finally:
            sub.cleanup()

    cur = case
    budget = 400
    progress = True
    while progress and budget > 0:
        progress = False
        for v in _variants(cur):
            budget -= 1
            if budget <= 0:
                break
            if hits(v):
                cur = v
                progress = True
                break
    return cur
