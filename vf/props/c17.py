"""C17 Planner rollback restores the exact earlier state (pkgcore.resolver.state.plan_state + PigeonHoledSlots).

Generated: histories (JSON op lists) over 8 packages (2 names x slots 0/1, plus two "twins": the same cpv from an
installed repository, equal to but not identical with a source package - the re-install case), 8 choice points, 5 blockers:
    ["add", p, force] ["replace", p] ["remove", p] ["block", c, b] ["unblock", c] ["hardref", b] ["backref", p]
    ["bt", j]   rollback to the plan position recorded before surviving operation number j mod (n+1)
driven against a real plan_state the way merge_plan drives it (state.add_op(...).apply(plan), plan.add_blocker,
plan._remove_pkg_blockers, plan.backtrack).  Operations whose precondition does not hold in the current state are
skipped (they are outside the domain merge_plan produces): a forced add needs a free slot, replace needs the slot
occupied by another package, remove needs the package present (and is issued with the package's own choice point).

Oracle: snapshot = (slot occupancy, limiters, package->choice bindings, choice->blockers, blocker reference counts,
vdb exclusions, forced restrictions, plan length), all as multisets of small integers.
  * after every rollback the snapshot must equal (a) the snapshot taken when that plan position was first reached and
    (b) the snapshot of a fresh plan_state onto which only the surviving operations are replayed (the statement);
  * an operation that reports a conflict (non-forced add, replace) must leave the snapshot unchanged (replace undoes
    its partial work with an internal rollback);
  * no operation inside the domain may raise.
Quick: bounded-exhaustive histories of length <=3 (plus a seeded sixteenth of length 4) over a reduced alphabet + random
histories; thorough: every history of length <=5.

Dropped w.r.t. DESIGN.md: RuleBasedStateMachine (plain op lists replay without hypothesis and shrink structurally).
"""

import itertools
import random

from .. import core
from ..gen import resolverworld as RW

RW.preload()

ID = "C17"
TITLE = "Planner rollback restores the exact earlier state"
LEVEL = "exploration"
TECHNIQUE = "stateful op histories with rollbacks vs saved snapshots and fresh replay of surviving ops; bounded-exhaustive short histories"
DESIGN_REF = "DESIGN.md §3 C17"
LEVEL_TEXT = (
    "Generated-history search: random operation histories (length 3-16) with rollbacks to earlier plan positions, plus "
    "every history of length <=3 + a seeded sixteenth of length 4 (quick) / <=5 (thorough) over a reduced alphabet (3-4 packages incl. an equal twin, 2 blockers, 23-30 ops) followed by every rollback; after each "
    "rollback the complete planner state is compared with the state recorded at that position and with a fresh replay "
    "of the surviving operations."
)
LEVEL_NOTE = (
    "Trusted: the snapshot function reads plan_state's public attributes; the forward semantics of apply() are taken "
    "from the implementation (the property is about undo, not about apply). No proof beyond the enumerated bound."
)
RULE = (
    "histories of add/forced add/replace/remove/block/unblock/hardref/backref ops with rollback points; non-trivial = "
    "some rollback undoes a replace or remove, or a blocker whose reference count was >=2; distinct = JSON of the history"
)
ASSUMPTIONS = [
    "operation preconditions are those merge_plan maintains (forced add into a free slot only, replace only of an occupied slot, remove with the package's own choice point)",
    "rollback targets are operation boundaries (plan lengths observed between user-level operations)",
]
BUDGET = {"quick": 50, "thorough": 900}

PKGS = [("a/x-1", "0"), ("a/x-2", "0"), ("a/x-3", "1"), ("a/y-1", "0"), ("a/y-2", "0"), ("a/y-3", "1"),
        # twins: the same cpv from another (installed) repository - equal to, but not identical with, #0 and #4
        ("a/x-1", "0"), ("a/y-2", "0")]
TWINS = {6: 0, 0: 6, 7: 4, 4: 7}
BLOCKERS = ["!a/x", "!<a/x-2", "!a/x:1", "!a/y", "!=a/y-1"]
SMALL_PKGS = (0, 1, 6)  # exhaustive alphabet: two versions of one slot + the installed twin of the first
SMALL_PKGS_4 = (0, 1, 6, 3)  # lengths <= 4 also get a package of a second name
SMALL_BLOCKERS = (0, 1)


class Universe:
    def __init__(self):
        from pkgcore.ebuild.atom import atom
        from pkgcore.resolver import state
        from pkgcore.resolver.choice_point import choice_point
        from pkgcore.test.misc import FakePkg

        self.state = state
        from pkgcore.test.misc import FakeRepo

        vdb = FakeRepo(repo_id="vdb", livefs=True)
        self.pkgs = [FakePkg(cpv, slot=slot, **({"repo": vdb} if i >= 6 else {})) for i, (cpv, slot) in enumerate(PKGS)]
        self.blockers = [atom(b) for b in BLOCKERS]
        self.choices = [choice_point(atom(p.key), [p]) for p in self.pkgs]
        self.pidx = {id(p): i for i, p in enumerate(self.pkgs)}
        self.bidx = {id(b): i for i, b in enumerate(self.blockers)}
        self.cidx = {id(c): i for i, c in enumerate(self.choices)}

    def snapshot(self, ps):
        pi, bi, ci = self.pidx, self.bidx, self.cidx
        return {
            "slot_dict": {k: sorted(pi[id(p)] for p in v) for k, v in sorted(ps.state.slot_dict.items())},
            "limiters": {k: sorted(bi[id(b)] for b in v) for k, v in sorted(ps.state.limiters.items())},
            # pkg_choices / vdb_filter are keyed by package EQUALITY (cpv): compare key -> choice identity by cpv
            "pkg_choices": sorted([p.cpvstr, ci[id(c)]] for p, c in ps.pkg_choices.items()),
            # every package sitting in a slot must be bound to a choice point
            "unbound": sorted(pi[id(p)] for v in ps.state.slot_dict.values() for p in v if p not in ps.pkg_choices),
            "rev_blockers": sorted([ci[id(c)], sorted([bi[id(b)], k] for b, k in l)] for c, l in ps.rev_blockers.items()),
            "blockers_refcnt": sorted([bi[id(b)], n] for b, n in ps.blockers_refcnt.items()),
            # a set on the original tree; counts are kept if it is a counting container
            "vdb_filter": sorted(
                [p.cpvstr, n] for p, n in (ps.vdb_filter.items() if hasattr(ps.vdb_filter, "items") else ((p, 1) for p in ps.vdb_filter))
            ),
            "forced_restrictions": sorted([bi[id(b)], n] for b, n in ps.forced_restrictions.items()),
            "plan_len": len(ps.plan),
        }


def _present(ps, pkg):
    return any(x is pkg for x in ps.state.slot_dict.get(pkg.key, ()))


def _slot_holder(ps, pkg):
    for x in ps.state.slot_dict.get(pkg.key, ()):
        if x.slot == pkg.slot:
            return x
    return None


def applicable(u, ps, op):
    """precondition of a user-level operation in the current state (see module docstring)"""
    kind = op[0]
    if kind == "add":
        p = u.pkgs[op[1]]
        if _present(ps, p):
            return False
        if op[2]:
            return _slot_holder(ps, p) is None
        return True
    if kind == "replace":
        p = u.pkgs[op[1]]
        return (not _present(ps, p)) and _slot_holder(ps, p) is not None
    if kind == "remove":
        return _present(ps, u.pkgs[op[1]])
    return True


def apply_op(u, ps, op):
    """-> conflicts (truthy = the operation reported failure)"""
    S = u.state
    kind = op[0]
    if kind == "add":
        return S.add_op(u.choices[op[1]], u.pkgs[op[1]], force=bool(op[2])).apply(ps)
    if kind == "replace":
        return S.replace_op(u.choices[op[1]], u.pkgs[op[1]]).apply(ps)
    if kind == "remove":
        p = u.pkgs[op[1]]
        return S.remove_op(ps.pkg_choices[p], p).apply(ps)
    if kind == "block":
        b = u.blockers[op[2]]
        ps.add_blocker(u.choices[op[1]], b, key=b.key)
        return None
    if kind == "unblock":
        ps._remove_pkg_blockers(u.choices[op[1]])
        return None
    if kind == "hardref":
        return S.add_hardref_op(u.blockers[op[1]]).apply(ps)
    if kind == "backref":
        return S.add_backref_op(u.choices[op[1]], u.pkgs[op[1]]).apply(ps)
    raise core.HarnessError(f"unknown op {op!r}")


def _diff_field(a, b):
    for k in ("slot_dict", "limiters", "pkg_choices", "unbound", "rev_blockers", "blockers_refcnt", "vdb_filter", "forced_restrictions", "plan_len"):
        if a[k] != b[k]:
            return k
    return None


def run_history(ctx, u, history, record=True, check_replay=True):
    """interpret one history; records at most one violation (the first) and stops there"""
    ps = u.state.plan_state()
    surviving = []  # (op, plan position before it, snapshot before it, failed?)
    classes = set()
    nontrivial = False
    executed = 0
    case = {"history": history}

    def finish():
        if record:
            ctx.case(case, nontrivial=nontrivial, classes=sorted(classes), key=core.jdump(history))

    for step, op in enumerate(history):
        if op[0] == "bt":
            n = op[1] % (len(surviving) + 1)
            if n == len(surviving):
                pos, want = len(ps.plan), u.snapshot(ps)
            else:
                pos, want = surviving[n][1], surviving[n][2]
            undone = surviving[n:]
            kinds = {o[4] for o in undone if not o[3]}
            # refcount >= 2 crossed?
            multi = any(c >= 2 for _, c in u.snapshot(ps)["blockers_refcnt"]) and any(k in kinds for k in ("block", "unblock", "replace", "replace-equal-twin", "remove"))
            r = core.guarded(ctx, case, lambda pos=pos: ps.backtrack(pos))
            if core.crashed(r):
                finish()
                return False
            del surviving[n:]
            if undone:
                classes.add("rollback")
                for k in kinds:
                    classes.add("rollback-crosses:" + k)
                if multi:
                    classes.add("rollback-crosses:refcount>=2")
                if kinds & {"replace", "replace-equal-twin", "remove"} or multi:
                    nontrivial = True
            got = u.snapshot(ps)
            f = _diff_field(got, want)
            if f is not None:
                ctx.violation(
                    f"rollback:{f}", case,
                    f"step {step} {op}: after backtrack({pos}) {f}={got[f]} but it was {want[f]} when that position was first reached",
                )
                finish()
                return False
            if check_replay:
                fresh = u.state.plan_state()
                for o, _, _, failed, _ in surviving:
                    res = apply_op(u, fresh, o)
                    if bool(res) != failed:
                        ctx.violation("rollback:replay-diverged", case, f"step {step}: replaying {o} on a fresh state gives {res!r}")
                        finish()
                        return False
                fs = u.snapshot(fresh)
                f = _diff_field(got, fs)
                if f is not None:
                    ctx.violation(
                        f"rollback:{f}", case,
                        f"step {step} {op}: after backtrack({pos}) {f}={got[f]}, replay of the surviving operations gives {fs[f]}",
                    )
                    finish()
                    return False
            continue
        if not applicable(u, ps, op):
            classes.add("skipped-op")
            continue
        before = u.snapshot(ps)
        pos = len(ps.plan)
        kindname = op[0]
        if op[0] == "replace" and op[1] in TWINS and _slot_holder(ps, u.pkgs[op[1]]) is u.pkgs[TWINS[op[1]]]:
            kindname = "replace-equal-twin"  # re-install: old and new compare equal but are different objects
        res = core.guarded(ctx, case, lambda op=op: apply_op(u, ps, op))
        if core.crashed(res):
            finish()
            return False
        executed += 1
        failed = bool(res)
        classes.add("op:" + kindname + (":forced" if op[0] == "add" and op[2] else "") + (":conflict" if failed else ""))
        if failed:
            after = u.snapshot(ps)
            f = _diff_field(after, before)
            if f is not None:
                ctx.violation(
                    f"failed-op-dirty:{op[0]}:{f}", case,
                    f"step {step} {op} reported conflicts {res!r} but changed {f}: {before[f]} -> {after[f]}",
                )
                finish()
                return False
        surviving.append((op, pos, before, failed, kindname))
    finish()
    return True


# ---- generation -----------------------------------------------------------------------------------------------

def gen_history(rnd):
    n = rnd.randint(3, 16)
    h = []
    npk, nb = len(PKGS), len(BLOCKERS)
    nonbt = 0
    for _ in range(n):
        k = rnd.randrange(100)
        if k < 22:
            h.append(["add", rnd.randrange(npk), False])
        elif k < 30:
            h.append(["add", rnd.randrange(npk), True])
        elif k < 45:
            h.append(["replace", rnd.randrange(npk)])
        elif k < 53:
            h.append(["remove", rnd.randrange(npk)])
        elif k < 73:
            h.append(["block", rnd.randrange(npk), rnd.randrange(nb)])
        elif k < 77:
            h.append(["unblock", rnd.randrange(npk)])
        elif k < 80:
            h.append(["hardref", rnd.randrange(nb)])
        elif k < 83:
            h.append(["backref", rnd.randrange(npk)])
        else:
            h.append(["bt", rnd.randrange(0, nonbt + 1)])
            continue
        nonbt += 1
    h.append(["bt", rnd.randrange(0, nonbt + 1)])
    return h


def small_alphabet(pkgs=SMALL_PKGS):
    A = []
    for p in pkgs:
        A += [["add", p, False], ["add", p, True], ["replace", p], ["remove", p], ["unblock", p]]
        for b in SMALL_BLOCKERS:
            A.append(["block", p, b])
    A += [["hardref", 0], ["backref", 0]]
    return A


def run_exhaustive(ctx, u, length, shard, nshards):
    """every history of exactly `length` applicable ops over the small alphabet (first op index selects the shard);
    then (1) rollbacks one op at a time down to 0, (2) direct rollbacks to every earlier boundary"""
    A = small_alphabet(SMALL_PKGS_4 if length <= 4 else SMALL_PKGS)
    full = True
    for idx, first in enumerate(A):
        if idx % nshards != shard:
            continue
        for rest in itertools.product(A, repeat=length - 1):
            if ctx.out_of_time():
                return False
            seq = [first, *rest]
            # skip sequences with a non-applicable op: they equal a shorter history
            ps = u.state.plan_state()
            ok = True
            try:
                for op in seq:
                    if not applicable(u, ps, op):
                        ok = False
                        break
                    apply_op(u, ps, op)
            except Exception:  # noqa: BLE001  (reported properly by run_history below)
                ok = True
            if not ok:
                continue
            chain = seq + [["bt", k] for k in range(length - 1, -1, -1)]
            if not run_history(ctx, u, chain, check_replay=False):
                continue
            for k in range(0, length - 1):
                run_history(ctx, u, seq + [["bt", k]], check_replay=False)
    return full


def plan(tier, seed):
    tasks = []
    if tier == "quick":
        for i in range(1):  # quick: a seeded sixteenth of the length-4 space; thorough enumerates all of it
            tasks.append({"task": "exhaustive", "length": 4, "slice": (seed + 3 * i) % 16, "nslices": 16, "partial": True})
        tasks.append({"task": "exhaustive", "length": 3, "slice": 0, "nslices": 1})
        tasks.append({"task": "exhaustive", "length": 2, "slice": 0, "nslices": 1})
        for i in range(6):
            tasks.append({"task": "random", "examples": 6000})
    else:
        tasks.append({"task": "exhaustive", "length": 2, "slice": 0, "nslices": 1})
        tasks.append({"task": "exhaustive", "length": 3, "slice": 0, "nslices": 1})
        for i in range(4):
            tasks.append({"task": "exhaustive", "length": 4, "slice": i, "nslices": 4})
        for i in range(23):
            tasks.append({"task": "exhaustive", "length": 5, "slice": i, "nslices": 23})
        for i in range(16):
            tasks.append({"task": "random", "examples": 50000})
    return tasks


def run_task(ctx, task, **kw):
    u = Universe()
    if task == "random":
        rnd = random.Random(f"c17:{ctx.seed}:{ctx.shard}")  # selects which slice of the history space this run visits
        for i in range(kw["examples"]):
            if i % 64 == 0 and ctx.out_of_time():
                break
            run_history(ctx, u, gen_history(rnd))
    elif task == "exhaustive":
        done = run_exhaustive(ctx, u, kw["length"], kw["slice"], kw["nslices"])
        if kw.get("partial"):
            ctx.note(f"len{kw['length']}_slices_visited_of_{kw['nslices']}", 1 if done else 0)
        else:
            ctx.note(f"exhaustive_len{kw['length']}", bool(done))
    else:
        raise core.HarnessError(f"unknown task {task}")


def replay(ctx, case):
    run_history(ctx, Universe(), case["history"])


def shrink_case(ctx, bucket, case):
    u = Universe()

    def fails(h):
        c = core.Ctx(ID, ctx.tier, ctx.seed)
        try:
            run_history(c, u, h, record=False)
        finally:
            c.cleanup()
        return bucket in c.violations

    h = [list(o) for o in case["history"]]
    progress = True
    while progress:
        progress = False
        i = 0
        while i < len(h):
            cand = h[:i] + h[i + 1:]
            if cand and fails(cand):
                h = cand
                progress = True
            else:
                i += 1
    return {"history": h}
