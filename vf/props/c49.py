"""C49 Generated metadata accumulates eclass values as PMS requires.

Generated: tiny abstract programs (vf/gen/ebuildrepo.py) for one ebuild and up to 4 eclasses -- assign / append /
unset / copy of metadata variables, `inherit` lists (nested, diamond and repeated inherits; the inherit graph is
acyclic by construction), phase function definitions and EXPORT_FUNCTIONS -- rendered to bash, written into a
fresh scratch repository and regenerated through the REAL bash daemon by a cache-less UnconfiguredTree
(`pkg.data`), EAPIs 0-8 (EAPI 9 is disabled on this host).

Oracle: `interpret()` below, an independent reference interpreter of the abstract program written from the PMS
text (ebuild-defined variables 7.x, eclass accumulation 10.2, implicit RDEPEND 7.3.7, phase tables 9.1):
  * IUSE, REQUIRED_USE, DEPEND, RDEPEND, PDEPEND, BDEPEND, IDEPEND (+ PROPERTIES, RESTRICT in EAPI 8): the ebuild's own
    final value combined with the value each eclass had set at the end of each sourcing of it (an eclass starts with
    these variables unset and cannot see or change the ebuild's or another eclass' value);
  * EAPI 0-3: RDEPEND unset by the ebuild => the ebuild part of RDEPEND is the ebuild's own DEPEND;
  * every other key: final value of the (global) variable; empty values are not reported;
  * keys that do not exist in the EAPI (REQUIRED_USE < 4, BDEPEND < 7, IDEPEND < 8) are not reported;
  * INHERITED (observed as the key set of `_eclasses_`) = every eclass sourced, INHERIT = eclasses named by the
    ebuild's own inherit calls, DEFINED_PHASES = defined functions that are phase functions of the EAPI, or "-".
The comparison of accumulated values is order-insensitive on top-level dependency groups (PMS fixes no consumer-
visible order) and count-insensitive when an eclass is sourced more than once (a repeated sourcing repeats the
value; nothing is demanded about that). Everything else is compared exactly.

Plan: 72 dense deterministic programs first (systematic_program: every accumulated variable x 8 ebuild-side behaviours --
value / empty string / nothing before the inherit line, value / empty string / append / unset after it -- x EAPI 0-8, with a
nested and an unsetting eclass), then hypothesis programs.

Dropped from the design: nothing of substance; `unset -f` of phase functions and values needing shell quoting are not
generated (metadata values are plain dependency-grammar tokens).
"""
from __future__ import annotations

import shutil
from collections import Counter

from .. import core, ebd
from ..gen import ebuildrepo as ER

ID = "C49"
TITLE = "Generated metadata accumulates eclass values as PMS requires"
LEVEL = "exploration"
TECHNIQUE = "generated ebuild+eclass programs through the real bash daemon vs. an independent PMS reference interpreter"
DESIGN_REF = "DESIGN.md §3 C49"
LEVEL_TEXT = (
    "Generated-input search: random tiny ebuild/eclass programs (assign/append/unset/copy, nested and repeated "
    "inherits, phase functions, EXPORT_FUNCTIONS) for EAPIs 0-8 are sourced by the real ebuild daemon through a "
    "cache-less repository; every reported key is compared with a reference interpreter of PMS accumulation rules."
)
LEVEL_NOTE = (
    "Trusted: the reference interpreter in this module (PMS 7.3.7, 9.1, 10.2) and /bin/bash 5.2. Throughput-bound by "
    "the daemon; no proof of absence. EAPI 9 not exercised (disabled on this host)."
)
RULE = (
    "72 deterministic dense programs (variable x ebuild-side behaviour x EAPI) + hypothesis draws of {eapi 0-8, ebuild block <=8 stmts, <=4 eclasses with <=6 stmts, e<i> inherits only "
    "e<j>, j>i}; non-trivial = at least one eclass is sourced and at least one eclass contributes a non-empty value to "
    "an accumulated variable of that EAPI or defines a phase function; distinct = distinct program text"
)
ASSUMPTIONS = [
    "reference interpreter interpret() is a faithful reading of PMS 10.2 / 7.3.7 / 9.1",
    "metadata is observed as pkg.data of a cache-less UnconfiguredTree (INHERITED as the key set of _eclasses_)",
    "accumulated values are compared as multisets of top-level dependency groups (sets when an eclass is sourced twice)",
    "EAPI 9 skipped: pkgcore disables it with bash < 5.3",
]
BUDGET = {"quick": 60, "thorough": 900}

# ---------------------------------------------------------------------------- PMS tables (written from the spec)

_PH_BASE = ("pkg_setup", "pkg_config", "pkg_info", "pkg_nofetch", "pkg_prerm", "pkg_postrm", "pkg_preinst",
            "pkg_postinst", "src_unpack", "src_compile", "src_test", "src_install")


def pms_phases(eapi: int):
    ph = set(_PH_BASE)
    if eapi >= 2:
        ph |= {"src_prepare", "src_configure"}
    if eapi >= 4:
        ph.add("pkg_pretend")
    return ph


def pms_keys(eapi: int):
    k = {"DESCRIPTION", "HOMEPAGE", "IUSE", "KEYWORDS", "LICENSE", "SLOT", "SRC_URI", "DEPEND", "RDEPEND", "PDEPEND",
         "RESTRICT", "PROPERTIES"}
    if eapi >= 4:
        k.add("REQUIRED_USE")
    if eapi >= 7:
        k.add("BDEPEND")
    if eapi >= 8:
        k.add("IDEPEND")
    return k


def pms_accumulated(eapi: int):
    a = {"IUSE", "REQUIRED_USE", "DEPEND", "RDEPEND", "PDEPEND", "BDEPEND", "IDEPEND"}
    if eapi >= 8:
        a |= {"PROPERTIES", "RESTRICT"}
    return a


# ---------------------------------------------------------------------------- reference interpreter

def interpret(prog):
    """-> dict(keys={KEY: [tokens]}, accum={VAR: (ebuild_tokens, [eclass contribution token lists])},
               inherit=[...], inherited=[... in completion order, with repeats], phases=set(short names),
               info=classification facts)"""
    eapi = int(prog["eapi"])
    accum = pms_accumulated(eapi)
    G = {}            # global shell variables: name -> token list ([] = set but empty); absent = unset
    funcs = set()
    contrib = {v: [] for v in accum}      # (eclass, tokens) per sourcing, in completion order
    inherit_direct = []
    inherited = []
    info = Counter()
    max_depth = [0]

    def run(stmts, frame, who, depth):
        """frame: variable store for the accumulated variables (a fresh dict per eclass sourcing; G for the ebuild)"""

        def store(var):
            return frame if var in accum else G

        for s in stmts:
            op = s[0]
            if op == "set":
                store(s[1])[s[1]] = list(s[2])
            elif op == "add":
                st_ = store(s[1])
                st_[s[1]] = st_.get(s[1], []) + list(s[2])
            elif op == "unset":
                store(s[1]).pop(s[1], None)
                if who is not None and s[1] in accum:
                    info["unset_in_eclass"] += 1
            elif op == "copy":
                src = list(store(s[2]).get(s[2], []))
                st_ = store(s[1])
                st_[s[1]] = (st_.get(s[1], []) + src) if s[3] else src
            elif op == "inherit":
                if who is None:
                    inherit_direct.extend(s[1])
                for name in s[1]:
                    source(name, depth + 1)
            elif op == "phase":
                funcs.add(s[1])
                if who is not None:
                    info["phase_in_eclass"] += 1
            elif op == "export":
                # PMS 10.3: EXPORT_FUNCTIONS defines phase() { <eclass>_phase "$@"; } -- whether or not (and wherever)
                # <eclass>_phase itself is defined; only the stub matters for DEFINED_PHASES
                order = s[2] if len(s) > 2 else "after"
                for ph in s[1]:
                    if order != "never":
                        funcs.add(f"{who}_{ph}")
                    funcs.add(ph)
                info["export_functions"] += 1
                info[f"export_{order}_definition"] += 1
            else:
                raise core.HarnessError(f"unknown statement {s!r}")

    def source(name, depth):
        max_depth[0] = max(max_depth[0], depth)
        frame = {}
        run(prog["eclasses"][name], frame, name, depth)
        for v in accum:
            if frame.get(v):
                contrib[v].append((name, frame[v]))
        inherited.append(name)

    run(prog["ebuild"], G, None, 0)

    # PMS 7.3.7
    if eapi <= 3 and "RDEPEND" not in G:
        G["RDEPEND"] = list(G.get("DEPEND", []))
        if G["RDEPEND"]:
            info["rdepend_default"] += 1
            if contrib["DEPEND"]:
                info["rdepend_default_with_eclass_depend"] += 1

    keys = {}
    acc_out = {}
    for k in sorted(pms_keys(eapi)):
        own = list(G.get(k, []))
        if k in accum:
            cl = [list(t) for _, t in contrib[k]]
            acc_out[k] = (own, cl)
            val = own + [t for c in cl for t in c]
        else:
            val = own
        if val:
            keys[k] = val
    phases = {f[4:] for f in funcs if f in pms_phases(eapi)}
    info["depth"] = max_depth[0]
    info["foreign_phase_funcs"] = len([f for f in funcs if f in ER.ALL_PHASE_FUNCS and f not in pms_phases(eapi)])
    return {"keys": keys, "accum": acc_out, "inherit": inherit_direct, "inherited": inherited, "phases": phases,
            "info": info, "eapi": eapi}


def groups(tokens):
    """split a dependency-grammar token list into top-level elements (tuples of tokens)"""
    out, cur, depth = [], [], 0
    pending_op = False
    for t in tokens:
        cur.append(t)
        if t == "(":
            depth += 1
            pending_op = False
        elif t == ")":
            depth -= 1
            if depth == 0:
                out.append(tuple(cur))
                cur = []
        elif depth == 0:
            if t in ("||", "^^", "??") or t.endswith("?"):
                pending_op = True          # operator: the group follows
            else:
                out.append(tuple(cur))
                cur = []
    if cur:
        out.append(tuple(cur) + ("<unterminated>",))
    return out


def classify(prog, ref):
    cl = [f"eapi:{prog['eapi']}"]
    info = ref["info"]
    eapi = ref["eapi"]
    sourced = ref["inherited"]
    if sourced:
        cl.append("inherits")
    if info["depth"] >= 2:
        cl.append("nested")
    if len(sourced) != len(set(sourced)):
        cl.append("dup_sourcing")
    any_contrib = False
    for v, (own, contribs) in ref["accum"].items():
        if v not in pms_keys(eapi):
            continue
        if contribs:
            any_contrib = True
            if own:
                cl.append("accum_ebuild+eclass")
            if len({tuple(c) for c in contribs}) > 1:
                cl.append("accum_multi_eclass")
            if v in ("PROPERTIES", "RESTRICT"):
                cl.append("eapi8_prop_restrict_accum")
    if eapi < 8 and any(s[0] in ("set", "add") and s[1] in ("PROPERTIES", "RESTRICT") and s[2]
                        for n in set(sourced) for s in prog["eclasses"][n]):
        cl.append("pre8_prop_restrict_from_eclass")
    for k in ("rdepend_default", "rdepend_default_with_eclass_depend", "unset_in_eclass", "export_functions",
              "export_after_definition", "export_before_definition", "export_between_definition", "export_never_definition"):
        if info[k]:
            cl.append(k)
    if info["phase_in_eclass"] and sourced:
        cl.append("phase_in_eclass")
    if info["foreign_phase_funcs"]:
        cl.append("phase_func_not_in_eapi")
    if not ref["phases"]:
        cl.append("no_phases")
    # assignment position relative to inherit in the ebuild
    seen_inh = False
    for s in prog["ebuild"]:
        if s[0] == "inherit":
            seen_inh = True
        elif s[0] in ("set", "add") and s[1] in pms_accumulated(eapi):
            cl.append("ebuild_assign_after_inherit" if seen_inh else "ebuild_assign_before_inherit")
    cl = sorted(set(cl))
    eclass_phase = bool(sourced) and (info["phase_in_eclass"] or info["export_functions"])
    nontrivial = bool(sourced) and (any_contrib or bool(eclass_phase))
    return cl, nontrivial


# ---------------------------------------------------------------------------- system under test

IGNORED_KEYS = {"_eclasses_", "_chf_", "EAPI", "INHERIT", "DEFINED_PHASES"}


def regenerate(ctx, prog):
    """write the program into a fresh scratch repo and return dict(pkg.data) produced by the real daemon"""
    from pkgcore.package.errors import MetadataException

    d = ctx.fresh_dir("c49")
    try:
        repo_dir = ER.mkrepo(d + "/repo", "c49repo")
        ER.materialize(prog, repo_dir)
        with ebd.alarm(180, "metadata regeneration"):
            repo = ER.open_repo(repo_dir)
            # the raw package object: iterating the repo would additionally validate SLOT/REQUIRED_USE and
            # silently mask packages, which is not the subject here
            pkg = repo.package_class("cat", "pkg", "1")
            try:
                return dict(pkg.data)
            except MetadataException as e:
                return e
    finally:
        shutil.rmtree(d, ignore_errors=True)


def check_program(ctx, prog, record=True):
    ref = interpret(prog)
    if record:
        cl, nontriv = classify(prog, ref)
        ctx.case(prog, nontrivial=nontriv, classes=cl, key=core.jdump(prog))
    def regen():
        try:
            return regenerate(ctx, prog)
        except ebd.EbdHang as e:   # a hang is not this property's business: harness error, never a violation
            ER.shutdown_daemons()
            raise core.HarnessError(f"daemon hang: {e}")

    data = core.guarded(ctx, prog, regen)
    if core.crashed(data):
        ER.shutdown_daemons()
        return
    if isinstance(data, Exception):
        ctx.violation("regen-failed", prog, f"in-domain program failed to source: {str(data)[:300]}")
        return
    eapi = ref["eapi"]
    accum = pms_accumulated(eapi)
    dup = len(ref["inherited"]) != len(set(ref["inherited"]))

    if data.get("EAPI") != prog["eapi"]:
        ctx.violation("eapi", prog, f"EAPI reported {data.get('EAPI')!r}")

    # --- ordinary and accumulated keys
    for k in sorted(pms_keys(eapi)):
        exp = ref["keys"].get(k)
        got = data.get(k)
        got_t = got.split() if got is not None else None
        if k in accum:
            own, contribs = ref["accum"][k]
            eg = Counter(groups(exp or []))
            gg = Counter(groups(got_t or []))
            same = (set(eg) == set(gg)) if dup else (eg == gg)
            if same:
                continue
            own_g = set(groups(own))
            ecl_g = set(g for c in contribs for g in groups(c))
            lost = set(eg) - set(gg)
            extra = set(gg) - set(eg)
            if lost & ecl_g and not (lost & own_g):
                what = "lost-eclass-value"
            elif lost & own_g and not (lost & ecl_g):
                what = "lost-ebuild-value"
            elif lost:
                what = "lost-both"
            elif extra:
                what = "extra-value"
            else:
                what = "count"
            tag = k if k in ("IUSE", "REQUIRED_USE", "PROPERTIES", "RESTRICT", "RDEPEND") else "xDEPEND"
            ctx.violation(f"accum:{tag}:{what}", prog,
                          f"{k}: daemon={got!r} reference={' '.join(exp or [])!r} (ebuild part {' '.join(own)!r}, "
                          f"eclass parts {[' '.join(c) for c in contribs]!r})")
        else:
            if (got_t or None) != (exp or None):
                tag = k if k in ("PROPERTIES", "RESTRICT") else "other"
                ctx.violation(f"plain:{tag}", prog, f"{k}: daemon={got!r} reference={' '.join(exp or [])!r}")
    for k in sorted(set(data) - pms_keys(eapi) - IGNORED_KEYS):
        ctx.violation(f"extra-key:{k}", prog, f"key {k}={data[k]!r} does not exist in EAPI {eapi}")

    # --- INHERITED / INHERIT / DEFINED_PHASES
    got_inherited = set(data.get("_eclasses_", {}) or {})
    if got_inherited != set(ref["inherited"]):
        miss = set(ref["inherited"]) - got_inherited
        ctx.violation("inherited:" + ("missing" if miss else "extra"), prog,
                      f"INHERITED(_eclasses_)={sorted(got_inherited)} reference={sorted(set(ref['inherited']))}")
    got_inherit = (data.get("INHERIT") or "").split()
    if set(got_inherit) != set(ref["inherit"]):
        ctx.violation("inherit", prog, f"INHERIT={got_inherit} reference={ref['inherit']}")
    dp = data.get("DEFINED_PHASES")
    exp_dp = " ".join(sorted(ref["phases"])) or "-"
    gs = None if dp is None else set() if dp == "-" else set(dp.split())
    # compared as a set (nothing is demanded about the order); "-" exactly when no phase function is defined
    if gs != ref["phases"] or (dp is not None and not gs and dp != "-") or (gs and len(dp.split()) != len(gs)):
        g = gs or set()
        what = "missing" if ref["phases"] - g else "extra" if g - ref["phases"] else "format"
        ctx.violation(f"defined_phases:{what}", prog, f"DEFINED_PHASES={dp!r} reference={exp_dp!r}")


# ---------------------------------------------------------------------------- runner interface

SYS_VARS = ("IUSE", "REQUIRED_USE", "DEPEND", "RDEPEND", "PDEPEND", "BDEPEND", "IDEPEND", "PROPERTIES", "RESTRICT")
SYS_EAPI_ORDER = ("3", "8", "0", "7", "2", "5", "1", "4", "6")


def _sys_val(var, tag):
    if var == "IUSE":
        return [tag]
    if var == "REQUIRED_USE":
        return ["||", "(", tag, tag + "x", ")"]
    if var in ("PROPERTIES", "RESTRICT"):
        return [tag]
    return ["cat/" + tag]


def systematic_program(eapi, shift):
    """dense deterministic program: every accumulated variable gets one of 8 ebuild-side behaviours (rotated by `shift`,
    so the 8 shifts x 9 EAPIs cover every (variable, behaviour, EAPI) once) around `inherit outer flat`, where outer
    inherits inner in the middle of its own assignments and flat unsets before it assigns:
      0 value before inherit          4 empty string after inherit
      1 empty string before inherit   5 value before, append after
      2 never assigned                6 value before, set to empty after
      3 value after inherit           7 value before, unset after"""
    before, after = [], []
    inner, outer_a, outer_b, flat = [], [], [], []
    for i, v in enumerate(SYS_VARS):
        b = (i + shift) % 8
        t = v.lower().replace("_", "")[:4]
        if b in (0, 5, 6, 7):
            before.append(["set", v, _sys_val(v, t + "own")])
        if b == 1:
            before.append(["set", v, []])
        if b == 3:
            after.append(["set", v, _sys_val(v, t + "own")])
        if b in (4, 6):
            after.append(["set", v, []])
        if b == 5:
            after.append(["add", v, _sys_val(v, t + "own2")])
        if b == 7:
            after.append(["unset", v])
        e = (i + shift) % 4
        if e == 0:
            inner.append(["set", v, _sys_val(v, t + "in")])
            outer_a.append(["set", v, _sys_val(v, t + "out")])
            outer_b.append(["add", v, _sys_val(v, t + "out2")])
            flat += [["unset", v], ["set", v, _sys_val(v, t + "flat")]]
        elif e == 1:
            inner.append(["add", v, _sys_val(v, t + "in")])
            outer_b.append(["set", v, _sys_val(v, t + "out")])
            flat.append(["set", v, []])
        elif e == 2:
            inner.append(["set", v, []])
            outer_a.append(["set", v, _sys_val(v, t + "out")])
            outer_b.append(["unset", v])
            flat.append(["add", v, _sys_val(v, t + "flat")])
        else:
            outer_a.append(["set", v, []])
            flat += [["set", v, _sys_val(v, t + "flat")], ["copy", "DEPEND", "RDEPEND", True]]
    phases = list(ER.ALL_PHASE_FUNCS)
    inner.append(["phase", phases[shift % len(phases)]])
    # EXPORT_FUNCTIONS relative to the exported functions' definitions: before (usual Gentoo layout) / after / between /
    # exported but never defined -- rotated so that every task (shift) has all four somewhere
    orders = ("before", "after", "between", "never")
    outer_b.append(["export", [phases[(shift + 5) % len(phases)], phases[(shift + 6) % len(phases)]],
                    orders[(shift + int(eapi)) % 4]])
    flat.insert(0, ["export", [phases[(shift + 11) % len(phases)]], orders[(shift + int(eapi) + 1) % 4]])
    after.append(["phase", phases[(shift + 9) % len(phases)]])
    before.append(["set", "SLOT", ["0"]])
    before.append(["set", "KEYWORDS", ["~amd64"]])
    outer_a.append(["add", "KEYWORDS", ["x86"]])
    return {"eapi": eapi,
            "ebuild": before + [["inherit", ["outer", "flat"]]] + after,
            "eclasses": {"inner": inner, "outer": outer_a + [["inherit", ["inner"]]] + outer_b, "flat": flat}}


def plan(tier, seed):
    # one regeneration costs about one CPU second here: the dense deterministic programs come first (8 tasks x 9
    # programs = every (variable, ebuild-side behaviour, EAPI) combination), generated programs after
    tasks = [{"task": "systematic", "shift": sh} for sh in (6, 1, 4, 7, 0, 2, 3, 5)]
    n, per = (12, 40) if tier == "quick" else (16, 600)
    tasks += [{"task": "hyp", "examples": per} for _ in range(n)]
    return tasks


def run_task(ctx, task, **kw):
    ebd.ensure_generated()
    try:
        if task == "systematic":
            for eapi in SYS_EAPI_ORDER:
                if ctx.out_of_time():
                    break
                check_program(ctx, systematic_program(eapi, kw["shift"]))
        elif task == "hyp":
            seen = [0]

            def one(p):
                seen[0] += 1
                if seen[0] == 1:
                    return                  # a hypothesis run always starts with its minimal example (empty program)
                if not ctx.out_of_time():   # budget guard per program
                    check_program(ctx, p)

            n = kw["examples"] + 1
            core.hyp_run(ctx, ER.programs(), one, n, chunk=n)
        else:
            raise core.HarnessError(f"unknown task {task}")
    finally:
        ER.shutdown_daemons()


def replay(ctx, case):
    ebd.ensure_generated()
    try:
        check_program(ctx, case)
    finally:
        ER.shutdown_daemons()


def shrink_case(ctx, bucket, case):
    """greedy statement/eclass removal keeping the bucket (bounded number of daemon runs)"""
    import copy

    def has_bucket(p):
        c = core.Ctx(ID, ctx.tier, ctx.seed)
        try:
            check_program(c, p, record=False)
            return bucket in c.violations
        finally:
            c.cleanup()

    def referenced(p):
        r = set()
        for blk in [p["ebuild"]] + list(p["eclasses"].values()):
            for s in blk:
                if s[0] == "inherit":
                    r.update(s[1])
        return r

    ebd.ensure_generated()
    cur = copy.deepcopy(case)
    budget = 20
    try:
        changed = True
        while changed and budget > 0:
            changed = False
            blocks = [("ebuild", None)] + [("eclasses", n) for n in sorted(cur["eclasses"])]
            for kind, name in blocks:
                if name is not None and name not in cur["eclasses"]:
                    continue    # dropped meanwhile (no longer inherited by anything)
                blk = cur["ebuild"] if name is None else cur["eclasses"][name]
                i = 0
                while i < len(blk) and budget > 0:
                    cand = copy.deepcopy(cur)
                    cblk = cand["ebuild"] if name is None else cand["eclasses"][name]
                    del cblk[i]
                    for n in sorted(set(cand["eclasses"]) - referenced(cand)):
                        del cand["eclasses"][n]
                    budget -= 1
                    if (name is None or name in cand["eclasses"]) and has_bucket(cand):
                        cur = cand
                        changed = True
                        if name is not None and name not in cur["eclasses"]:
                            break
                        blk = cur["ebuild"] if name is None else cur["eclasses"][name]
                    else:
                        i += 1
        return cur
    finally:
        ER.shutdown_daemons()
