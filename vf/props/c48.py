"""C48 Cached metadata is used only while it is still valid.

Generated: histories over a scratch repository stack -- master repo + overlay (overlay eclasses shadow the master's,
stacked exactly as pkgcore.ebuild.repository._sort_eclasses does), 1-2 ebuilds in the overlay, eclasses a/b/c (a may
inherit b,c; b may inherit c) living in the master, the overlay, both or nowhere, and ONE metadata cache attached to the
overlay: `md5` (metadata/md5-cache: ebuild md5 + eclass md5s) or `flat` (flat_hash: ebuild mtime + eclass dir+mtime).
A history is a hypothesis list of JSON ops: rewrite ebuild (new variant / inherit list), touch ebuild, write eclass
(create, overwrite, shadow in the other repo), touch / remove eclass, move eclass between the two repos, strip the INHERIT
line from the cache entry, no-op. Every op carries a read plan: an ordered subset of the 2-3 packages that is read right
after it through ONE fresh repo object graph (a "session"; real bash daemon for every regeneration), so packages that were
not read keep stale entries and entries recording old and new eclass states coexist inside later sessions. One session in
four opens the cache read-only: the validity verdict and the returned metadata must be the same, only the replacement of the
stale entry is not demanded (and nothing may be written). Two scripted
deterministic histories (one per cache kind, every op kind, both read orders) run before the generated ones.

Oracle (model kept side by side, nothing of pkgcore's cache code is consulted):
  * reference validity predicate: an entry is valid iff it exists, records the ebuild's current checksum (md5) / mtime (flat),
    and -- when it records eclasses -- still has its INHERIT line and every recorded eclass currently resolves (overlay first)
    to a file with the recorded md5 (md5) / the recorded directory and mtime (flat). What an entry records is derived by the
    model from the tree state at the time of the regeneration it predicted.
  * regeneration (counted by wrapping package_factory._update_metadata) happens iff the predicate says stale;
  * the returned metadata equals what a cache-less repository regenerates from the same tree (differential; memoised per
    content closure), and when the tree no longer can be sourced (an inherited eclass exists in neither repository -- this
    verdict is the model's, a cache-less run would only crash the daemon) the read fails as well instead of serving the
    stale entry;
  * after a regeneration the on-disk entry (parsed by an independent 10-line reader) records the current ebuild
    checksum/mtime, exactly the current eclass closure with current checksums/locations and the fresh metadata, and an
    immediate second read through another fresh repo object is a pure cache hit with the same metadata.

Simplifications vs DESIGN.md: plain hypothesis op lists instead of a RuleBasedStateMachine; one writable cache per world
(no read-only + writable pair); mtimes are harness-chosen integers 10 s apart, so same-second edits (inherent blind spot of
mtime validation) are not generated; after a read that must fail the harness removes a possibly left-over entry itself
(the statement says nothing about it); a package that is uncached and unsourceable is read once per tree state, not after
every op (each such read is a plain failing regeneration costing a daemon respawn). One regeneration costs about one CPU
second on this host, so the quick tier is 2 scripted + 28 generated long histories; after a recorded violation the cache is
wiped (model and disk) and the history goes on.
"""
from __future__ import annotations

import hashlib
import os
import shutil
from os.path import join as pjoin

from hypothesis import strategies as st

from .. import core, ebd
from ..gen import ebuildrepo as ER

ID = "C48"
TITLE = "Cached metadata is used only while it is still valid"
LEVEL = "exploration"
TECHNIQUE = "stateful op histories over a scratch repo stack, real daemon; model validity predicate + differential vs cache-less regeneration"
DESIGN_REF = "DESIGN.md §3 C48"
LEVEL_TEXT = (
    "Generated histories of edits (ebuild/eclass content, touch, eclass removal, move and shadowing between stacked "
    "repositories, cache entries stripped of INHERIT) over md5-cache and flat_hash caches; after every edit each package "
    "is read through a fresh repository: regeneration must happen exactly when an independent validity model says the "
    "entry is stale, the metadata must equal a cache-less regeneration, and the stale entry must be replaced on disk."
)
LEVEL_NOTE = (
    "Trusted: the validity model in this module, the cache-less regeneration path as the metadata reference, integer "
    "mtimes. Throughput-bound by the real daemon; no proof of absence."
)
RULE = (
    "histories = {cache kind md5|flat, initial placement of eclasses a,b,c in master/overlay, 2-3 ebuilds, 12-24 ops each with "
    "an ordered partial read plan executed through one repo object} + 2 scripted histories; one evaluation = one metadata "
    "read of one package; non-trivial = an entry for the package existed before the read and some op since its last read "
    "touched its ebuild, its cache entry or an eclass in its old/new inherit closure (so validity had to be decided, either "
    "way); distinct = distinct (cache kind, closure with providing repo and variant, ops since last read, verdict+reasons, "
    "first/later in session)"
)
ASSUMPTIONS = [
    "metadata generation is a deterministic function of the ebuild text and the resolved eclass texts (memoised reference)",
    "file mtimes are integers chosen by the harness (flat_hash stores whole seconds)",
    "every session (the reads after one op) uses fresh repository / cache / eclass-cache objects; no edit happens inside a session",
    "a stripped INHERIT line must force regeneration (observable: cached metadata would lack INHERIT, cache-less has it)",
    "an ebuild (or eclass) inheriting an eclass that exists in neither repository cannot be sourced (model verdict)",
]
BUDGET = {"quick": 60, "thorough": 900}

NAMES = ("a", "b", "c")
PKGS = ("p1", "p2", "p3")
CLOCK0 = 1_600_000_000
FAIL = "<sourcing-fails>"
INTERNAL = {"_eclasses_", "_chf_", "_md5_", "_mtime_"}

# ---------------------------------------------------------------------------- content


def eclass_text(name, spec):
    t = f'# {name}.eclass variant {spec["v"]}\nIUSE="{name}_v{spec["v"]}"\n'
    if spec["inh"]:
        t += "inherit " + " ".join(spec["inh"]) + "\n"
    return t


def ebuild_text(pkg, spec):
    t = f'EAPI=8\nDESCRIPTION="{pkg} variant {spec["v"]}"\nSLOT=0\nIUSE="{pkg}_v{spec["v"]}"\n'
    if spec["inh"]:
        t += "inherit " + " ".join(spec["inh"]) + "\n"
    return t


def md5hex(text):
    return hashlib.md5(text.encode()).hexdigest()


# ---------------------------------------------------------------------------- generators

def _later(name):
    return NAMES[NAMES.index(name) + 1:]


def _eclass_spec(name, existing=NAMES):
    """`existing`: names to prefer as inherit targets (initially present eclasses; ops use all names)"""
    later = [n for n in _later(name) if n in existing]
    inh = st.lists(st.sampled_from(later), max_size=2, unique=True) if later else st.just([])
    return st.fixed_dictionaries({"v": st.integers(1, 3), "inh": inh})


def _ebuild_spec(existing=NAMES):
    # mostly inherit something (otherwise there is nothing about eclasses to validate)
    if not existing:
        return st.fixed_dictionaries({"v": st.integers(1, 3), "inh": st.just([])})
    some = st.lists(st.sampled_from(sorted(existing)), min_size=1, max_size=2, unique=True)
    return st.fixed_dictionaries({"v": st.integers(1, 3), "inh": st.one_of(some, some, some, some, st.just([]))})


def _reads():
    """ordered subset of the packages to read after an op, through ONE repo object (a 'session'); packages that do not
    exist in the world are dropped at run time. Partial reads make entries of different staleness coexist."""
    return st.one_of(
        st.permutations(PKGS).map(list),                                             # everything, some order
        st.permutations(PKGS).flatmap(lambda l: st.integers(1, 2).map(lambda n: list(l)[:n])),   # a strict subset
        st.permutations(PKGS).flatmap(lambda l: st.integers(1, 2).map(lambda n: list(l)[:n])),
    )


def _op():
    name = st.sampled_from(NAMES)
    repo = st.sampled_from(["m", "o"])
    pkg = st.sampled_from(PKGS)

    def ecl(n, r, spec):
        return {"op": "eclass", "name": n, "repo": r, "v": spec["v"], "inh": spec["inh"]}

    ecl_write = name.flatmap(lambda n: st.builds(lambda r, s: ecl(n, r, s), repo, _eclass_spec(n)))
    mv = st.builds(lambda n, r: {"op": "mv_eclass", "name": n, "src": r}, name, repo)
    base = st.one_of(
        st.builds(lambda p, s: {"op": "ebuild", "pkg": p, "v": s["v"], "inh": s["inh"]}, pkg, _ebuild_spec()),
        pkg.map(lambda p: {"op": "touch_ebuild", "pkg": p}),
        ecl_write, ecl_write, ecl_write,
        st.builds(lambda n, r: {"op": "touch_eclass", "name": n, "repo": r}, name, repo),
        st.builds(lambda n, r: {"op": "rm_eclass", "name": n, "repo": r}, name, repo),
        mv, mv,
        pkg.map(lambda p: {"op": "strip_inherit", "pkg": p}),
        st.just({"op": "noop"}), st.just({"op": "noop"}),
    )
    # one session in four opens the cache read-only (pkgcore does that for users who cannot write to it): validity must be
    # judged the same way, only the replacement of the stale entry cannot happen
    ro = st.sampled_from([False, False, False, True])
    return st.builds(lambda o, r, x: dict(o, reads=r, ro=x), base, _reads(), ro)


@st.composite
def worlds(draw, min_ops=12, max_ops=24):
    kind = draw(st.sampled_from(["md5", "flat"]))
    where = {n: draw(st.sampled_from(["m", "m", "m", "o", "o", "both", "both", "none"])) for n in NAMES}
    # an ebuild whose eclass never existed cannot be sourced at all (every read fails, nothing is cached): initially
    # ebuilds and eclasses inherit what exists (39 of 40 worlds); eclasses go missing through rm/mv ops instead
    existing = [n for n in NAMES if where[n] != "none"]
    if draw(st.integers(0, 39)) == 0:
        existing = list(NAMES)
    eclasses = {}
    for n in NAMES:
        d = {}
        if where[n] in ("m", "both"):
            d["m"] = draw(_eclass_spec(n, existing))
        if where[n] in ("o", "both"):
            # a shadowing copy is often textually identical to the master's (then md5 validation must not care)
            d["o"] = dict(d["m"]) if ("m" in d and draw(st.booleans())) else draw(_eclass_spec(n, existing))
        eclasses[n] = d
    pkgs = {"p1": draw(_ebuild_spec(existing)), "p2": draw(_ebuild_spec(existing))}
    if draw(st.booleans()):
        pkgs["p3"] = draw(_ebuild_spec(existing))
    ops = draw(st.lists(_op(), min_size=min_ops, max_size=max_ops))
    return {"kind": kind, "eclasses": eclasses, "pkgs": pkgs, "ops": ops}


# ---------------------------------------------------------------------------- regeneration counter

_REGEN = {"n": 0, "installed": False}
_MEMO = {}   # content signature -> public metadata of the cache-less reference regeneration


def _install_counter():
    if _REGEN["installed"]:
        return
    from pkgcore.ebuild import ebuild_src

    orig = ebuild_src.package_factory._update_metadata

    def counting(self, pkg, ebp=None):
        _REGEN["n"] += 1
        return orig(self, pkg, ebp=ebp)

    ebuild_src.package_factory._update_metadata = counting
    _REGEN["installed"] = True


# ---------------------------------------------------------------------------- the world: disk + model

class World:
    def __init__(self, ctx, spec):
        self.ctx = ctx
        self.kind = spec["kind"]
        self.root = ctx.fresh_dir("c48")
        self.m = ER.mkrepo(pjoin(self.root, "master"), "c48master")
        self.o = ER.mkrepo(pjoin(self.root, "overlay"), "c48overlay", masters=("c48master",))
        self.flat = pjoin(self.root, "flatcache")
        self.clock = CLOCK0
        self.ecl = {}      # (repo, name) -> {"v","inh","mtime"}
        self.ebuilds = {}  # pkg -> {"v","inh","mtime"}
        self.entry = {}    # pkg -> None | {"chf":…, "ecl": {name: rec}, "has_inherit": bool}
        self.memo = {}
        self.failed_reads = set()   # content signatures for which a read without entry already failed as expected
        self.since = {}             # pkg -> {"touched": set of tags, "ops": [op kinds]} since the package was last read
        self.last_closure = {}      # pkg -> eclass names in its closure / recorded in its entry when it was last read
        for n in NAMES:
            for r, s in sorted(spec["eclasses"].get(n, {}).items()):
                self._write_eclass(r, n, s)
        for p, s in sorted(spec["pkgs"].items()):
            self._write_ebuild(p, s)
            self.entry[p] = None
            self.since[p] = {"touched": set(), "ops": []}
            self.last_closure[p] = self.closure(p)[0]

    def reset_cache(self):
        """after a recorded violation model and disk may disagree about cache entries: drop them all and go on"""
        for p in self.ebuilds:
            self.entry[p] = None
            try:
                os.unlink(self.entry_path(p))
            except FileNotFoundError:
                pass

    def note_op(self, op, touched):
        for p in self.ebuilds:
            self.since[p]["touched"] |= touched
            self.since[p]["ops"].append(op["op"])

    def mark_read(self, p):
        self.since[p] = {"touched": set(), "ops": []}
        e = self.entry.get(p)
        self.last_closure[p] = self.closure(p)[0] | set(e["ecl"] if e else ())

    def close(self):
        shutil.rmtree(self.root, ignore_errors=True)

    # ---- disk helpers
    def repo_dir(self, r):
        return self.m if r == "m" else self.o

    def tick(self):
        self.clock += 10
        return self.clock

    def _write_eclass(self, r, n, s):
        t = self.tick()
        ER.write_file(ER.eclass_path(self.repo_dir(r), n), eclass_text(n, s), mtime=t)
        self.ecl[(r, n)] = {"v": s["v"], "inh": list(s["inh"]), "mtime": t}

    def _write_ebuild(self, p, s):
        t = self.tick()
        ER.write_file(ER.ebuild_path(self.o, "cat", p), ebuild_text(p, s), mtime=t)
        self.ebuilds[p] = {"v": s["v"], "inh": list(s["inh"]), "mtime": t}

    def entry_path(self, p):
        if self.kind == "md5":
            return pjoin(self.o, "metadata", "md5-cache", "cat", f"{p}-1")
        return pjoin(self.flat, "cat", f"{p}-1")

    # ---- model
    def resolve(self, n):
        """(repo, spec) of the copy an inherit of `n` finds: overlay shadows master"""
        for r in ("o", "m"):
            if (r, n) in self.ecl:
                return r, self.ecl[(r, n)]
        return None, None

    def closure(self, p):
        """-> (set of sourced eclass names, name of a missing one or None)"""
        seen, missing = set(), None
        todo = list(self.ebuilds[p]["inh"])
        while todo:
            n = todo.pop()
            if n in seen:
                continue
            r, s = self.resolve(n)
            if s is None:
                missing = missing or n
                continue
            seen.add(n)
            todo.extend(s["inh"])
        return seen, missing

    def eclass_record(self, n):
        r, s = self.resolve(n)
        if s is None:
            return None
        if self.kind == "md5":
            return md5hex(eclass_text(n, s))
        return [pjoin(self.repo_dir(r), "eclass"), s["mtime"]]

    def ebuild_record(self, p):
        e = self.ebuilds[p]
        return md5hex(ebuild_text(p, e)) if self.kind == "md5" else e["mtime"]

    def current_record(self, p):
        names, _ = self.closure(p)
        return {"chf": self.ebuild_record(p), "ecl": {n: self.eclass_record(n) for n in sorted(names)},
                "has_inherit": True}

    def staleness(self, p):
        """reference validity predicate: list of reasons the entry may NOT be used ([] = valid)"""
        e = self.entry.get(p)
        if e is None:
            return ["no-entry"]
        why = []
        if e["chf"] != self.ebuild_record(p):
            why.append("ebuild-content" if self.kind == "md5" else "ebuild-mtime")
        if e["ecl"]:
            if not e["has_inherit"]:
                why.append("no-INHERIT")
            for n, rec in sorted(e["ecl"].items()):
                cur = self.eclass_record(n)
                if cur is None:
                    why.append("eclass-missing")
                elif cur != rec:
                    if self.kind == "md5":
                        why.append("eclass-content")
                    else:
                        why.append("eclass-dir" if cur[0] != rec[0] else "eclass-mtime")
        return why

    def content_signature(self, p):
        names, missing = self.closure(p)
        return core.jdump([ebuild_text(p, self.ebuilds[p]), missing,
                           [(n, eclass_text(n, self.resolve(n)[1])) for n in sorted(names)]])

    def closure_signature(self, p):
        names, missing = self.closure(p)
        return [self.ebuilds[p]["v"], missing] + [[n, self.resolve(n)[0], self.resolve(n)[1]["v"]] for n in sorted(names)]

    # ---- ops
    def apply(self, op):
        """apply one op to disk and model; returns the set of eclass names / pkgs it touched ('e:a', 'p:p1', 'c:p1')"""
        k = op["op"]
        if k == "ebuild":
            if op["pkg"] not in self.ebuilds:
                return set()
            self._write_ebuild(op["pkg"], op)
            return {"p:" + op["pkg"]}
        if k == "touch_ebuild":
            p = op["pkg"]
            if p not in self.ebuilds:
                return set()
            t = self.tick()
            os.utime(ER.ebuild_path(self.o, "cat", p), (t, t))
            self.ebuilds[p]["mtime"] = t
            return {"p:" + p}
        if k == "eclass":
            self._write_eclass(op["repo"], op["name"], op)
            return {"e:" + op["name"]}
        if k == "touch_eclass":
            key = (op["repo"], op["name"])
            if key not in self.ecl:
                return set()
            t = self.tick()
            os.utime(ER.eclass_path(self.repo_dir(op["repo"]), op["name"]), (t, t))
            self.ecl[key]["mtime"] = t
            return {"e:" + op["name"]}
        if k == "rm_eclass":
            key = (op["repo"], op["name"])
            if key not in self.ecl:
                return set()
            os.unlink(ER.eclass_path(self.repo_dir(op["repo"]), op["name"]))
            del self.ecl[key]
            return {"e:" + op["name"]}
        if k == "mv_eclass":
            src = op["src"]
            dst = "o" if src == "m" else "m"
            key = (src, op["name"])
            if key not in self.ecl:
                return set()
            os.rename(ER.eclass_path(self.repo_dir(src), op["name"]), ER.eclass_path(self.repo_dir(dst), op["name"]))
            self.ecl[(dst, op["name"])] = self.ecl.pop(key)  # rename keeps the mtime
            return {"e:" + op["name"]}
        if k == "strip_inherit":
            p = op["pkg"]
            path = self.entry_path(p)
            if p not in self.ebuilds or not os.path.exists(path):
                return set()
            with open(path) as f:
                lines = f.readlines()
            kept = [l for l in lines if not l.startswith("INHERIT=")]
            if len(kept) == len(lines):
                return set()
            with open(path, "w") as f:
                f.writelines(kept)
            if self.entry.get(p) is not None:
                self.entry[p]["has_inherit"] = False
            return {"c:" + p}
        if k == "noop":
            return set()
        raise core.HarnessError(f"unknown op {op!r}")

    # ---- system under test
    def session(self, readonly=False):
        """one fresh repo object graph with the world's cache: what one pkgcore process works with"""
        return ER.open_repo(self.o, self.m, cache=self.kind, flat_location=self.flat, readonly=readonly)

    def _fetch(self, p, cache, repo=None):
        from pkgcore.package.errors import MetadataException

        with ebd.alarm(180, "metadata read"):
            if repo is None:
                repo = ER.open_repo(self.o, self.m, cache=cache, flat_location=self.flat)
            pkg = repo.package_class("cat", p, "1")
            try:
                return dict(pkg.data)
            except MetadataException:
                return FAIL

    def expected(self, p):
        """metadata a cache-less repository regenerates from the current tree (memoised by content closure, per
        worker process: the texts contain no paths). A tree in which an inherited eclass does not exist anywhere is
        unsourceable by construction (`inherit` of an unknown eclass dies); that verdict comes from the model -- the
        cache-less run would only add a daemon crash + respawn."""
        if self.closure(p)[1] is not None:
            return FAIL
        sig = self.content_signature(p)
        if sig not in _MEMO:
            d = self._fetch(p, None)
            if d == FAIL:
                raise core.HarnessError(f"reference (cache-less) regeneration failed for a sourceable tree: {sig}")
            _MEMO[sig] = public(d)
            self.ctx.count("reference_regenerations")
        return _MEMO[sig]

    def read(self, p, repo=None):
        """-> (data or FAIL, number of regenerations it took); `repo`: the session's repo object (default: a fresh one)"""
        before = _REGEN["n"]
        d = self._fetch(p, self.kind, repo)
        return d, _REGEN["n"] - before

    def disk_entry(self, p):
        """independent reader of the on-disk entry -> dict or None"""
        try:
            with open(self.entry_path(p)) as f:
                lines = f.read().split("\n")
        except FileNotFoundError:
            return None
        d = {}
        for l in lines:
            if l:
                k, _, v = l.partition("=")
                d[k] = v
        return d


def public(d):
    return {k: v for k, v in d.items() if k not in INTERNAL}


# ---------------------------------------------------------------------------- oracle for one read

def relation(world, p):
    touched = world.since[p]["touched"]
    if not touched:
        return "nothing"
    if ("p:" + p) in touched:
        return "own-ebuild"
    if ("c:" + p) in touched:
        return "own-entry"
    new_closure, missing = world.closure(p)
    names = {t[2:] for t in touched if t.startswith("e:")}
    if names & (world.last_closure[p] | new_closure | ({missing} if missing else set())):
        return "eclass-in-closure"
    return "unrelated"


def check_read(ctx, world, spec, step, op, p, repo, pos, ro=False):
    """one oracle evaluation: package `p` read as the `pos`-th read of the session `repo` after step `step`.
    Returns False when a violation was recorded (the caller resets the cache: model and disk may have diverged)."""
    reasons = world.staleness(p)
    had_entry = world.entry.get(p) is not None
    rel = relation(world, p)
    pending = [k for k in world.since[p]["ops"] if k != "noop"]
    opk = op["op"] if op else "populate"
    verdict = "stale" if reasons else "valid"
    primary = reasons[0] if reasons else "-"
    classes = [f"kind:{world.kind}", f"{verdict}:{rel}", f"reason:{primary}", f"session-position:{min(pos, 2)}",
               f"ops-since-last-read:{min(len(world.since[p]['ops']), 4)}"]
    if rel != "nothing":
        classes.append(f"{verdict}:{pending[-1] if pending else opk}:{rel}")
    if ro:
        classes.append("readonly_cache_session")
        classes.append(f"readonly:{verdict}:{primary}")
        if "no-INHERIT" in reasons:
            classes.append("inherit_stripped_then_readonly_read")
    nontrivial = had_entry and rel in ("own-ebuild", "own-entry", "eclass-in-closure")
    key = core.jdump([world.kind, world.closure_signature(p), pending, rel, reasons, min(pos, 1), bool(ro)])
    sample = {"kind": world.kind, "step": step, "op": op, "pkg": p, "session_position": pos, "readonly_session": bool(ro),
              "model": verdict,
              "reasons": reasons, "ops_since_last_read": world.since[p]["ops"], "closure": world.closure_signature(p)}
    ctx.case(sample, nontrivial=nontrivial, classes=classes, key=key)
    case = dict(spec, ops=spec["ops"][:step])     # the history up to and including this step reproduces the read

    ok = True

    def bad(bucket, msg):
        nonlocal ok
        ok = False
        ctx.violation(bucket, case, f"step {step} ({core.jdump(op)}) pkg {p} [{world.kind}], read #{pos + 1} of its "
                                    f"session, ops since its last read {world.since[p]['ops']}: {msg}")

    exp = world.expected(p)
    sig = world.content_signature(p)
    if exp == FAIL and not had_entry and sig in world.failed_reads:
        # nothing cached, tree still unsourceable and unchanged for this package: the read is the same plain failing
        # regeneration as before (each one costs a daemon restart) -- not repeated
        ctx.count("skipped_repeated_unsourceable_reads")
        world.mark_read(p)
        return True
    got, regens = world.read(p, repo)
    if exp == FAIL and not had_entry and got == FAIL:
        world.failed_reads.add(sig)

    where = ("first-in-session" if pos == 0 else "later-in-session") + (":readonly-cache" if ro else "")
    if regens and not reasons:
        bad(f"regenerated-valid-entry:{world.kind}:{rel}", "entry is valid by the model but metadata was regenerated")
    if not regens and reasons:
        bad(f"stale-entry-used:{world.kind}:{primary}:{where}", f"entry is stale ({reasons}) but no regeneration happened")
    if got == FAIL or exp == FAIL:
        if got != exp:
            if exp == FAIL:
                bad(f"unsourceable-tree-served:{world.kind}:{primary}",
                    f"a cache-less repo cannot source this ebuild any more, the cached repo returned {public(got)}")
            else:
                bad(f"read-failed:{world.kind}", "metadata read failed though a cache-less repo regenerates fine")
    elif public(got) != exp:
        diff = {k: (public(got).get(k), exp.get(k)) for k in sorted(set(public(got)) | set(exp)) if public(got).get(k) != exp.get(k)}
        bad(f"metadata-differs:{world.kind}:{'regenerated' if regens else 'from-cache'}:{primary}",
            f"(cached-repo value, cache-less value) per key: {diff}")

    # ---- model update + replacement check
    if reasons and ro:
        # a read-only cache cannot be updated: validity is judged the same way and the fresh metadata must be returned,
        # but the stale entry stays where it is (model: unchanged), and nothing may have been written
        if ok and had_entry is False and world.disk_entry(p) is not None:
            bad(f"readonly-cache-written:{world.kind}", "a cache entry appeared although the cache was opened read-only")
    elif reasons:
        if exp == FAIL:
            world.entry[p] = None
            try:
                os.unlink(world.entry_path(p))   # normalise: the statement says nothing about a left-over entry
            except FileNotFoundError:
                pass
        else:
            world.entry[p] = world.current_record(p)
            if ok:
                rec = world.entry[p]
                disk = world.disk_entry(p)
                if disk is None:
                    bad(f"entry-not-replaced:{world.kind}:missing", "no cache entry on disk after regeneration")
                else:
                    problems = entry_problems(world, p, rec, disk, exp)
                    if problems:
                        bad(f"entry-not-replaced:{world.kind}:{problems[0][0]}", "; ".join(m for _, m in problems))
            if ok:
                got2, regens2 = world.read(p)       # a different, fresh repo object
                if regens2:
                    bad(f"reread-regenerated:{world.kind}", "second read right after a regeneration regenerated again")
                elif got2 == FAIL or public(got2) != exp:
                    bad(f"reread-differs:{world.kind}", f"second read returned {got2 if got2 == FAIL else public(got2)} expected {exp}")
    world.mark_read(p)
    return ok


def entry_problems(world, p, rec, disk, exp):
    out = []
    if world.kind == "md5":
        v = disk.get("_md5_")
        if v is None or int(v, 16) != int(rec["chf"], 16):
            out.append(("ebuild-chf", f"_md5_={v} but the ebuild's md5 is {rec['chf']}"))
    else:
        v = disk.get("_mtime_")
        if v is None or int(float(v)) != rec["chf"]:
            out.append(("ebuild-chf", f"_mtime_={v} but the ebuild's mtime is {rec['chf']}"))
    raw = disk.get("_eclasses_", "")
    parts = raw.split("\t") if raw else []
    got = {}
    try:
        if world.kind == "md5":
            for i in range(0, len(parts), 2):
                got[parts[i]] = "%032x" % int(parts[i + 1], 16)
        else:
            for i in range(0, len(parts), 3):
                got[parts[i]] = [parts[i + 1], int(float(parts[i + 2]))]
    except (IndexError, ValueError):
        out.append(("eclasses-format", f"_eclasses_ unparsable: {raw!r}"))
    else:
        if got != rec["ecl"]:
            out.append(("eclasses", f"_eclasses_ records {got} but the current closure is {rec['ecl']}"))
    for k in sorted(set(exp) | (set(disk) - INTERNAL)):
        if disk.get(k) != exp.get(k):
            out.append(("data", f"{k}: on disk {disk.get(k)!r}, fresh {exp.get(k)!r}"))
    return out


def run_history(ctx, spec):
    _install_counter()
    world = World(ctx, spec)
    try:
        def session(step, op, reads):
            ro = bool(op and op.get("ro"))
            repo = world.session(ro)
            for pos, p in enumerate(reads):
                if not check_read(ctx, world, spec, step, op, p, repo, pos, ro):
                    ctx.count("cache_resets_after_violation")
                    world.reset_cache()
                    repo = world.session(ro)

        session(0, None, sorted(world.ebuilds))        # populate
        for i, op in enumerate(spec["ops"], 1):
            if ctx.out_of_time():
                ctx.count("histories_cut_by_budget")
                return
            world.note_op(op, world.apply(op))
            reads = [p for p in op.get("reads", sorted(world.ebuilds)) if p in world.ebuilds]
            session(i, op, reads)
    except ebd.EbdHang as e:
        ER.shutdown_daemons()
        raise core.HarnessError(f"daemon hang: {e}")
    finally:
        world.close()


def guarded_history(ctx, spec):
    r = core.guarded(ctx, spec, lambda: run_history(ctx, spec))
    if core.crashed(r):
        ER.shutdown_daemons()


# ---------------------------------------------------------------------------- runner interface

def scripted_history(kind):
    """deterministic history run first in every tier: every op kind at least once, partial reads in both orders, so that
    entries recording old and new eclass states coexist inside one session (no randomness involved)"""
    def E(v, inh=()):
        return {"v": v, "inh": list(inh)}

    def ecl(n, r, v, inh=(), reads=()):
        return {"op": "eclass", "name": n, "repo": r, "v": v, "inh": list(inh), "reads": list(reads)}

    ops = [
        ecl("b", "m", 2, reads=["p1"]),                                              # shared by p1,p2 (via a) and p3
        {"op": "noop", "reads": ["p1", "p2", "p3"]},                                  # refreshed p1 first, stale p2,p3 after
        {"op": "touch_eclass", "name": "a", "repo": "m", "reads": ["p2"]},
        {"op": "noop", "reads": ["p2", "p1"]},
        {"op": "mv_eclass", "name": "c", "src": "o", "reads": ["p2"]},               # same text lands in the master
        dict(ecl("c", "o", 2, reads=["p3", "p2"]), ro=True),                          # shadow with different text, ro session
        {"op": "noop", "reads": ["p2"]},
        {"op": "strip_inherit", "pkg": "p1", "reads": ["p3", "p1"], "ro": True},      # old-format entry, read-only cache
        {"op": "noop", "reads": ["p1"]},                                              # ... then refreshed by a writable one
        {"op": "touch_ebuild", "pkg": "p3", "reads": ["p3"]},
        {"op": "ebuild", "pkg": "p1", "v": 2, "inh": ["a"], "reads": ["p2"]},
        {"op": "noop", "reads": ["p2", "p1", "p3"]},
        {"op": "mv_eclass", "name": "a", "src": "m", "reads": ["p1"]},               # a now provided by the overlay
        {"op": "noop", "reads": ["p1", "p2"]},
        {"op": "rm_eclass", "name": "c", "repo": "o", "reads": ["p2"]},               # falls back to the master copy
        ecl("b", "o", 2, reads=["p3"]),                                               # shadow with identical text
        {"op": "noop", "reads": ["p3", "p1", "p2"]},
        {"op": "rm_eclass", "name": "b", "repo": "o", "reads": ["p3"]},
        {"op": "rm_eclass", "name": "b", "repo": "m", "reads": ["p3"]},               # b is gone: unsourceable
        ecl("b", "m", 3, reads=["p1"]),
        {"op": "noop", "reads": ["p3", "p2", "p1"]},
    ]
    return {"kind": kind,
            "eclasses": {"a": {"m": E(1, ["b"])}, "b": {"m": E(1)}, "c": {"m": E(1), "o": E(1)}},
            "pkgs": {"p1": E(1, ["a"]), "p2": E(1, ["a", "c"]), "p3": E(1, ["b"])},
            "ops": ops}


def plan(tier, seed):
    # cost: about one CPU second per regeneration, so long histories (the initial population is paid once) and the
    # deterministic high-yield histories first; each task = one worker process = one daemon
    tasks = [{"task": "scripted", "kind": "md5"}, {"task": "scripted", "kind": "flat"}]
    n, per = (14, 2) if tier == "quick" else (30, 8)
    tasks += [{"task": "hyp", "examples": per} for _ in range(n)]
    return tasks


def run_task(ctx, task, **kw):
    ebd.ensure_generated()
    try:
        if task == "scripted":
            guarded_history(ctx, scripted_history(kw["kind"]))
        elif task == "hyp":
            seen = [0]

            def one(w):
                seen[0] += 1
                if seen[0] == 1:
                    return                   # a hypothesis run always starts with its minimal example (trivial world)
                if not ctx.out_of_time():    # budget guard per history (and per op inside run_history)
                    guarded_history(ctx, w)

            n = kw["examples"] + 1
            core.hyp_run(ctx, worlds(), one, n, chunk=n)
        else:
            raise core.HarnessError(f"unknown task {task}")
    finally:
        ER.shutdown_daemons()


def replay(ctx, case):
    ebd.ensure_generated()
    try:
        guarded_history(ctx, case)
    finally:
        ER.shutdown_daemons()


def shrink_case(ctx, bucket, case):
    """drop ops / packages / eclass copies while the bucket is still reported (bounded daemon work; the case already
    ends at the violating step)"""
    import copy

    def has_bucket(w):
        c = core.Ctx(ID, ctx.tier, ctx.seed)
        try:
            guarded_history(c, w)
            return bucket in c.violations
        finally:
            c.cleanup()

    ebd.ensure_generated()
    cur = copy.deepcopy(case)
    budget = 8
    try:
        changed = True
        while changed and budget > 0:
            changed = False
            cands = []
            for i in range(len(cur["ops"]) - 2, -1, -1):
                c = copy.deepcopy(cur)
                del c["ops"][i]
                cands.append(c)
            if len(cur["pkgs"]) > 1:
                for drop in sorted(cur["pkgs"], reverse=True):
                    c = copy.deepcopy(cur)
                    del c["pkgs"][drop]
                    cands.append(c)
            for n in NAMES:
                for r in list(cur["eclasses"].get(n, {})):
                    c = copy.deepcopy(cur)
                    del c["eclasses"][n][r]
                    cands.append(c)
            for c in cands:
                if budget <= 0:
                    break
                budget -= 1
                if has_bucket(c):
                    cur = c
                    changed = True
                    break
        return cur
    finally:
        ER.shutdown_daemons()
