"""C26 XPAK metadata segments round-trip and rewrites preserve the archive.

Case = a target file (deterministic pattern prefix of 0..4096 bytes whose last bytes are generated: random bytes or a
*fake* trailer `XPAKSTOP<size>STOP` that does not lead to a header; optionally followed by a valid segment produced
by this module's own encoder = "file with an existing segment") and a sequence of 1-5 ordered mappings written one
after the other with `Xpak.write_xpak(path, mapping)`.

After every write:
  round trip   list(Xpak(path).items()) == expected ordered pairs (keys in order, `repo` read back as `REPO` by
               design, values of keys starting with `environment` as bytes, all others decoded text); the same
               through keys()/len/`in`/[]/get() in reverse order, through an already open binary file object, and
               through the Xpak returned by write_xpak
  archive      bytes [0:prefix_len] unchanged; xpak_start == prefix_len; file length == prefix + 16 + index + data
               + 16 (nothing of the old segment survives)
  format       an independent decoder of the documented layout (XPAKPACK, index len, data len, index entries
               `len,key,offset,len`, data, XPAKSTOP, offset, STOP; big endian) parses the file into the same raw pairs
               (so a reader/writer pair that is merely self-consistent is still detected)

Not covered (outside the statement, noted as observations): a target path that does not exist (write_xpak computes
start=0 and then fails to open with "r+b"), snakeoil data_source targets, malformed existing segments.
"""
import os
import struct

from hypothesis import strategies as st

from .. import core

ID = "C26"
TITLE = "XPAK metadata segments round-trip and rewrites preserve the archive"
LEVEL = "exploration"
TECHNIQUE = "round trip + independent decoder of the documented layout + byte-level frame check over generated rewrite sequences"
DESIGN_REF = "DESIGN.md §3 C26"
LEVEL_TEXT = (
    "Generated ordered mappings (ASCII keys incl. empty/environment*/repo, unicode text, binary environment values, "
    "large values) are written 1-5 times in a row into files with generated prefixes (with/without an existing "
    "segment, shorter than a trailer, ending in fake trailer magic); every write is read back through pkgcore and "
    "through an independent decoder and the bytes before the segment are compared."
)
LEVEL_NOTE = "Trusted: the decoder/encoder of the XPAK layout in this module (written from the format comment and portage's layout)."
RULE = (
    "case = prefix spec + optional pre-existing segment + list of mappings; non-trivial = at least two writes where a "
    "later segment is shorter than an earlier one, or some value is non-ASCII text or binary; distinct = distinct case JSON"
)
ASSUMPTIONS = [
    "the target is an existing regular file given by path (what binpkg repo_ops passes)",
    "text keys get str values, environment* keys get bytes or str values (generate_attr_dict's output shape)",
    "a mapping never contains both 'repo' and 'REPO' (the reader folds repo into REPO by design)",
]
BUDGET = {"quick": 50, "thorough": 900}

ABSENT_KEY = "absent-\xe9-key"  # non-ASCII: can never be one of the generated (ASCII) keys
HDR = b"XPAKPACK"
TPRE = b"XPAKSTOP"
TPOST = b"STOP"


# ---------------------------------------------------------------- independent codec

def ref_encode(pairs):
    """pairs: list of (key bytes, value bytes)"""
    index = b""
    data = b""
    for k, v in pairs:
        index += struct.pack(">L", len(k)) + k + struct.pack(">LL", len(data), len(v))
        data += v
    body = HDR + struct.pack(">LL", len(index), len(data)) + index + data + TPRE
    return body + struct.pack(">L", len(body)) + TPOST


def ref_decode(blob):
    """returns (segment start, [(key bytes, value bytes)...]) or raises ValueError"""
    if len(blob) < 32 or blob[-4:] != TPOST or blob[-16:-8] != TPRE:
        raise ValueError("no trailer")
    (off,) = struct.unpack(">L", blob[-8:-4])
    start = len(blob) - 8 - off
    if start < 0 or blob[start:start + 8] != HDR:
        raise ValueError("no header")
    ilen, dlen = struct.unpack(">LL", blob[start + 8:start + 16])
    if start + 16 + ilen + dlen + 16 != len(blob):
        raise ValueError(f"lengths do not add up: start={start} index={ilen} data={dlen} file={len(blob)}")
    index = blob[start + 16:start + 16 + ilen]
    data = blob[start + 16 + ilen:start + 16 + ilen + dlen]
    pairs = []
    pos = 0
    while pos < len(index):
        (kl,) = struct.unpack(">L", index[pos:pos + 4])
        k = index[pos + 4:pos + 4 + kl]
        o, l = struct.unpack(">LL", index[pos + 4 + kl:pos + 12 + kl])
        if o + l > len(data):
            raise ValueError("value outside the data block")
        pairs.append((k, data[o:o + l]))
        pos += 12 + kl
    return start, pairs


# ---------------------------------------------------------------- case interpretation

_VAL_CACHE = {}
_RAW_CACHE = {}


def val(v):
    """JSON value spec -> python value (str or bytes)"""
    if isinstance(v, str):
        return v
    if "rep" in v:
        key = core.jdump(v)
        r = _VAL_CACHE.get(key)
        if r is None:
            if len(_VAL_CACHE) > 64:
                _VAL_CACHE.clear()
            unit, n = v["rep"]
            r = _VAL_CACHE[key] = val(unit) * n
        return r
    return core.jbytes(v)


def raw(v):
    if isinstance(v, bytes):
        return v
    if len(v) < 1000:
        return v.encode("utf8")
    r = _RAW_CACHE.get(v)
    if r is None:
        if len(_RAW_CACHE) > 64:
            _RAW_CACHE.clear()
        r = _RAW_CACHE[v] = v.encode("utf8")
    return r


def build_prefix(spec):
    n = spec["len"]
    body = bytes(((i * 37 + 11) ^ (i >> 8)) & 0xFF for i in range(n))
    tail = spec.get("tail")
    if tail is None:
        return body
    if isinstance(tail, dict) and "fake_trailer" in tail:
        t = TPRE + struct.pack(">L", tail["fake_trailer"] & 0xFFFFFFFF) + TPOST
    else:
        t = core.jbytes(tail)
    if len(t) >= n:
        return t[:n] if n else b""
    return body[: n - len(t)] + t


def expected_pairs(mapping):
    out = []
    for k, v in mapping:
        pv = val(v)
        rk = "REPO" if k == "repo" else k
        if rk.startswith("environment"):
            out.append((rk, raw(pv)))
        else:
            out.append((rk, pv))
    return out


def check_case(ctx, case):
    from pkgcore.binpkg import xpak

    prefix = build_prefix(case["prefix"])
    has_fake = isinstance(case["prefix"].get("tail"), dict) and "fake_trailer" in case["prefix"]["tail"]
    try:
        ref_decode(prefix)
        raise core.HarnessError("generated prefix accidentally parses as an xpak segment")
    except ValueError:
        pass
    seg0 = case.get("existing")
    blob = prefix + (ref_encode([(k.encode(), raw(val(v))) for k, v in seg0]) if seg0 is not None else b"")
    writes = case["writes"]
    sizes = []
    nonascii = binary = big = False
    for m in writes:
        tot = 0
        for k, v in m:
            pv = val(v)
            tot += len(raw(pv)) + len(k) + 12
            if isinstance(pv, bytes):
                binary = True
            elif not pv.isascii():
                nonascii = True
            big |= len(raw(pv)) > 8192
        sizes.append(tot)
    first_old = len(blob) - len(prefix) - 32 if seg0 is not None else None
    seq = ([first_old] if first_old is not None else []) + sizes
    shrink = any(b < a for a, b in zip(seq, seq[1:]))
    grow = any(b > a for a, b in zip(seq, seq[1:]))
    n = len(prefix)
    classes = [
        "existing-segment" if seg0 is not None else "no-segment",
        "prefix:0" if n == 0 else "prefix:<16" if n < 16 else "prefix:16-31" if n < 32 else "prefix:>=32",
        f"writes:{len(writes)}",
    ]
    for flag, name in ((shrink, "shrinks"), (grow, "grows"), (nonascii, "non-ascii-text"), (binary, "binary-env"),
                       (big, "value>8k"), (has_fake, "fake-trailer"),
                       (any(len(m) == 0 for m in writes), "empty-mapping"),
                       (any(k == "" for m in writes for k, _ in m), "empty-key"),
                       (any(k == "repo" for m in writes for k, _ in m), "repo-key")):
        if flag:
            classes.append(name)
    ctx.case(case, nontrivial=(len(seq) >= 2 and shrink) or nonascii or binary, classes=classes)

    d = ctx.fresh_dir("c26")
    path = os.path.join(d, "pkg 1.0.tbz2")
    try:
        with open(path, "wb") as f:
            f.write(blob)
        for step, m in enumerate(writes):
            mapping = {k: val(v) for k, v in m}
            if len(mapping) != len(m):
                raise core.HarnessError("duplicate keys in a generated mapping")
            tag = f"write#{step + 1}"
            ret = core.guarded(ctx, case, lambda: xpak.Xpak.write_xpak(path, mapping))
            if core.crashed(ret):
                return
            exp = expected_pairs(m)
            with open(path, "rb") as f:
                after = f.read()
            # --- archive preserved
            if after[:n] != prefix:
                ctx.violation("archive:prefix-modified", case, f"{tag}: bytes before the segment changed (prefix {n} bytes)")
            ilen = sum(len(k.encode()) + 12 for k, _ in m)
            dlen = sum(len(raw(val(v))) for _, v in m)
            if len(after) != n + 32 + ilen + dlen:
                ctx.violation(
                    "archive:length" + (":leftover" if len(after) > n + 32 + ilen + dlen else ":short"), case,
                    f"{tag}: file is {len(after)} bytes, expected prefix {n} + 16 + index {ilen} + data {dlen} + 16",
                )
            # --- independent decoder
            try:
                rstart, rpairs = ref_decode(after)
            except (ValueError, struct.error) as e:
                ctx.violation("format:undecodable", case, f"{tag}: independent decoder: {e}")
            else:
                if rstart != n:
                    ctx.violation("format:segment-start", case, f"{tag}: segment starts at {rstart}, prefix is {n} bytes")
                want_raw = [(k.encode(), raw(val(v))) for k, v in m]
                if rpairs != want_raw:
                    ctx.violation("format:content", case, f"{tag}: decoded {_short(rpairs)} expected {_short(want_raw)}")

            # --- round trip through pkgcore
            def read_all():
                x = xpak.Xpak(path)
                items = list(x.items())
                return x, items

            r = core.guarded(ctx, case, read_all)
            if core.crashed(r):
                continue
            x, items = r
            if items != exp:
                what = "keys" if [k for k, _ in items] != [k for k, _ in exp] else (
                    "value-type" if [type(v) for _, v in items] != [type(v) for _, v in exp] else "values")
                ctx.violation(f"roundtrip:{what}", case, f"{tag}: read {_short(items)} expected {_short(exp)}")
                continue
            if x.xpak_start != n:
                ctx.violation("archive:xpak_start", case, f"{tag}: xpak_start {x.xpak_start} != prefix length {n}")

            def other_views():
                out = []
                y = xpak.Xpak(path)
                if list(y.keys()) != [k for k, _ in exp] or len(y) != len(exp) or list(iter(y)) != [k for k, _ in exp]:
                    out.append(("keys-view", f"keys() {list(y.keys())!r}"))
                if bool(y) != bool(exp):
                    out.append(("bool", f"bool -> {bool(y)}"))
                for k, v in reversed(exp):
                    if k not in y or y[k] != v or y.get(k) != v:
                        out.append(("getitem", f"[{k!r}] -> {_short([(k, y.get(k))])}"))
                        break
                if ABSENT_KEY in y or y.get(ABSENT_KEY, 7) != 7:
                    out.append(("missing-key", "absent key found"))
                with open(path, "rb") as fo:
                    z = xpak.Xpak(fo)
                    if list(z.items()) != exp:
                        out.append(("fileobj", "items() through an open file object differ"))
                    # random access on one shared handle (backwards, then forwards again)
                    for k, v in list(reversed(exp)) + exp[1::2]:
                        if z[k] != v:
                            out.append(("fileobj-random-access", f"[{k!r}] on a shared file object -> {_short([(k, z[k])])}"))
                            break
                if list(ret.items()) != exp:
                    out.append(("returned-xpak", "Xpak returned by write_xpak reads different items"))
                return out

            o = core.guarded(ctx, case, other_views)
            if not core.crashed(o):
                for what, msg in o:
                    ctx.violation(f"roundtrip:{what}", case, f"{tag}: {msg}")
    finally:
        try:
            os.unlink(path)
            os.rmdir(d)
        except OSError:
            pass


def _short(pairs):
    out = []
    for k, v in pairs:
        if isinstance(v, (bytes, str)) and len(v) > 40:
            v = v[:40] + (b"..." if isinstance(v, bytes) else "...")
        out.append((k, v))
    return repr(out)[:500]


# ---------------------------------------------------------------- strategies

ASCII = "".join(chr(i) for i in range(128))
KEY_POOL = ["CATEGORY", "PF", "SLOT", "repo", "REPO", "", "environment", "environment.bz2", "environment.xz",
            "environmental", "Environment", "foo-1.0.ebuild", "USE", "repository", "a b", "contents"]


def key_strategy():
    return st.one_of(st.sampled_from(KEY_POOL), st.sampled_from(KEY_POOL), st.text(alphabet=ASCII, max_size=12))


def bytes_json(b):
    return {"__bytes__": b.hex()}


def text_value():
    small = [
        st.text(max_size=30),
        st.text(alphabet="aé€\U0001f600 \n\x00", max_size=12),
        st.sampled_from(["", "x", "0", "sys-apps/foo", "amd64 ~x86"]),
    ]
    big = st.tuples(st.text(min_size=1, max_size=3), st.sampled_from([1500, 4100, 9000, 22000])).map(lambda t: {"rep": [t[0], t[1]]})
    return st.one_of(*(small * 8 + [big]))


def env_value():
    small = [
        st.binary(max_size=60).map(bytes_json),
        st.binary(max_size=60).map(bytes_json),
        st.sampled_from([b"", b"BZh91AY&SY", b"\xff\xfe\x00", b"XPAKSTOP\x00\x00\x00\x00STOP", b"XPAKPACK"]).map(bytes_json),
        st.text(max_size=20),
    ]
    big = st.tuples(st.binary(min_size=1, max_size=5), st.sampled_from([2000, 8192, 33000])).map(
        lambda t: {"rep": [bytes_json(t[0]), t[1]]}
    )
    return st.one_of(*(small * 5 + [big]))


@st.composite
def mapping_strategy(draw, max_size=6):
    keys = draw(st.lists(key_strategy(), max_size=max_size, unique=True))
    if "repo" in keys and "REPO" in keys:
        keys.remove("REPO")
    out = []
    for k in keys:
        rk = "REPO" if k == "repo" else k
        v = draw(env_value() if rk.startswith("environment") else text_value())
        out.append([k, v])
    return out


def prefix_strategy():
    length = st.one_of(st.sampled_from([0, 1, 15, 16, 17, 31, 32, 33]), st.integers(0, 64), st.integers(0, 4096))
    fake = st.one_of(
        st.sampled_from([0, 8, 16, 24, 32, 0xFFFFFFFF, 0x7FFFFFFF]), st.integers(0, 5000)
    ).map(lambda s: {"fake_trailer": s})
    tail = st.one_of(st.none(), st.none(), st.binary(max_size=24).map(bytes_json), fake,
                     st.sampled_from([b"STOP", b"XPAKSTOP", b"XPAKPACK" + b"\0" * 8]).map(bytes_json))
    return st.fixed_dictionaries({"len": length, "tail": tail})


def case_strategy():
    return st.fixed_dictionaries(
        {
            "prefix": prefix_strategy(),
            "existing": st.one_of(st.none(), mapping_strategy(max_size=5)),
            "writes": st.lists(mapping_strategy(), min_size=1, max_size=5),
        }
    )


# ---------------------------------------------------------------- runner glue

def plan(tier, seed):
    if tier == "quick":
        return [{"task": "hyp", "examples": 260} for _ in range(8)]
    return [{"task": "hyp", "examples": 5000} for _ in range(32)]


def run_task(ctx, task, **kw):
    if task != "hyp":
        raise core.HarnessError(f"unknown task {task}")
    core.hyp_run(ctx, case_strategy(), lambda c: check_case(ctx, c), kw["examples"], chunk=130)


def replay(ctx, case):
    check_case(ctx, case)


def shrink_case(ctx, bucket, case):
    import copy

    def buckets(c):
        x = core.Ctx(ID, "quick", 0)
        try:
            check_case(x, c)
            return set(x.violations)
        except core.HarnessError:
            return set()
        finally:
            x.cleanup()

    cur = copy.deepcopy(case)
    if bucket not in buckets(cur):
        return None

    def try_(cand):
        nonlocal cur
        if bucket in buckets(cand):
            cur = cand
            return True
        return False

    changed = True
    while changed:
        changed = False
        i = 0
        while i < len(cur["writes"]):
            if len(cur["writes"]) > 1:
                cand = copy.deepcopy(cur)
                del cand["writes"][i]
                if try_(cand):
                    changed = True
                    continue
            i += 1
        for wi in range(len(cur["writes"])):
            j = 0
            while j < len(cur["writes"][wi]):
                cand = copy.deepcopy(cur)
                del cand["writes"][wi][j]
                if try_(cand):
                    changed = True
                    continue
                j += 1
        if cur.get("existing") is not None:
            cand = copy.deepcopy(cur)
            cand["existing"] = None
            if try_(cand):
                changed = True
            else:
                j = 0
                while j < len(cur["existing"]):
                    cand = copy.deepcopy(cur)
                    del cand["existing"][j]
                    if try_(cand):
                        changed = True
                        continue
                    j += 1
        if cur["prefix"].get("tail") is not None:
            cand = copy.deepcopy(cur)
            cand["prefix"]["tail"] = None
            if try_(cand):
                changed = True
        for ln in (0, 1, 16, 32):
            if cur["prefix"]["len"] > ln:
                cand = copy.deepcopy(cur)
                cand["prefix"]["len"] = ln
                if try_(cand):
                    changed = True
                    break
    return cur
