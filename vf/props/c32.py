"""C32 Every IPC helper request gets exactly one truthful reply.

Three layers over the same generated request streams (3-7 requests against ONE `_ipc_helpers` set, as in one build):

* "inproc": every request goes through the real ebd_ipc class with a scripted fake `ebd` (five request lines,
  recording write()).  Checked per request: all five lines consumed and none more; nonfatal -> exactly one write,
  fatal failure -> IpcCommandError carrying the reply (`.ret`), nothing written by the class; the reply is one line
  (no newline), `<int>[\\a<msg>]`, code 0 <=> the request was valid and no injected fault hit; a failure carries a
  non-empty message; a success reply implies the expected image entries exist (placement model of C33, types only);
  later requests to the same helper objects still work (channel/state stays usable).
  Faults: OSError(EIO) injected at the n-th call of os.makedirs/chmod/lchown/utime/symlink/link/unlink/readlink,
  shutil.copyfile or open() touching the scratch tree (in-process monkeypatch).
* "phase": the stream is driven through the real `ebd.run_generic_phase` with a fake processor (request_/release_
  ebuild_processor patched): the build must fail exactly when a fatal request failed, and the processor must have
  been sent exactly one single-line reply per executed request (incl. the `e.ret` written by run_generic_phase).
* "bash": a real bash sources ebuild-daemon-lib.bash/isolated-functions.bash/exit-handling.bash (die overridden
  to a marker+exit so no daemon is needed) and runs `__ebd_ipc_cmd` for every request over real pipes against the
  real classes; after the stream a sentinel line must arrive intact and its acknowledgement must be read by bash
  (both directions in sync); each request's exit status seen by bash must be 0 <=> expected success.

Expected outcome per request: vf/ref/install_model.py for the install helpers (plain shapes only -- placement
details are C33's business), a table of install(1) options that force the external fallback and are known to
succeed (-c, -C, -D, --strip-program=true -s, symbolic modes) or fail (-s on text, unknown user, bad mode, unknown
option); docompress/dostrip/filter_env/eapply with tiny inputs.

Also generated: "blocked" pairs (an earlier `dodir` puts a directory where a later multi-file doins/doexe -- python
path or external fallback -- must place one of its files: the whole request must fail wherever the blocked file sits
in the argument list) and `unpack` of a good / corrupt / missing tiny tar.gz (the unpacker's multi-line stderr is
forwarded into the reply).

Dropped vs DESIGN.md: has_version/best_version (need a domain), audit-hook fault injection (in-process
monkeypatch instead).
"""
from __future__ import annotations

import errno
import os
import select
import shlex
import shutil
import signal
import subprocess

from hypothesis import strategies as st

from pkgcore.ebuild import ebd as ebd_mod
from pkgcore.ebuild import ebd_ipc

from .. import core, fsx
from .. import ebd as vebd
from ..ref import install_model as M
from . import c33 as H33

H33._reset_signal_handlers()

ID = "C32"
TITLE = "Every IPC helper request gets exactly one truthful reply"
LEVEL = "fault_enumeration"
TECHNIQUE = "scripted request streams vs reply-protocol oracle (model-derived expected status), injected OSError, real bash peer over pipes"
DESIGN_REF = "DESIGN.md §3 C32"
LEVEL_TEXT = (
    "Generated request streams (valid/invalid arguments, nonfatal on/off, install options forcing the external "
    "install fallback, injected OSError at the n-th underlying filesystem call) are run against one set of helper "
    "objects in-process, through run_generic_phase with a fake processor, and against the real bash side of the "
    "protocol over pipes; each reply is checked for count, framing, truthfulness and channel synchronisation."
)
LEVEL_NOTE = (
    "Trusted: the placement model for 'did the action happen', the table of install(1) options expected to "
    "succeed/fail, die() replaced by a marker in the bash layer. Faults are injected by monkeypatching os/shutil "
    "functions for paths below the scratch tree, one fault per request. Exploration, not exhaustive."
)
RULE = (
    "case = (layer, eapi, source tree, list of requests (helper, env, args, nonfatal, fault)); non-trivial = the "
    "stream contains an expected failure, a fallback-forcing option, an injected fault, or a request following a "
    "failed one; distinct = canonical JSON of the stream"
)
ASSUMPTIONS = [
    "reply framing: one line `<code>[\\a<message>]`, as __ebd_read_array/__ipc_exit consume it",
    "GNU install: -c/-C/-D/--strip-program=true -s/symbolic modes succeed; -s on a text file, unknown user, "
    "invalid mode, unknown option fail",
    "helpers are constructed as in ebd.__init__ (dict literal lifted by AST, see c33)",
]
BUDGET = {"quick": 50, "thorough": 900}

INSTALL_HELPERS = ("doins", "dodoc", "doexe", "dobin", "dolib.so", "doman", "domo", "dodir", "keepdir", "dosym")
EXT_OK = ["-c", "-C", "-D", "--strip-program=true -s", "-m u=rw,go=r", "-m a=rx,u+w"]
EXT_FAIL = ["-s", "-o nosuchuser_vf", "-m bogus", "--no-such-option", "-g nosuchgroup_vf"]
EXT_FAIL_WORDS = {"-s", "nosuchuser_vf", "bogus", "--no-such-option", "nosuchgroup_vf"}
FAULTS = [("os", "makedirs"), ("shutil", "copyfile"), ("os", "chmod"), ("os", "lchown"), ("os", "utime"),
          ("os", "symlink"), ("os", "unlink"), ("os", "readlink"), ("ipc", "open")]


class OverRead(Exception):
    pass


class Ebd(H33.FakeEbd):
    def read(self, lines=1):
        self.reads += 1
        if not self.lines:
            raise OverRead()
        return self.lines.pop(0)


# =========================================================================================
# fault injection
# =========================================================================================

class Fault:
    """raise OSError(EIO) at the nth call of mod.fn that mentions a path below `root`"""

    def __init__(self, spec, root):
        self.spec = spec
        self.root = root
        self.calls = 0
        self.hit = False

    def __enter__(self):
        if not self.spec:
            return self
        mod, fn, nth = self.spec["mod"], self.spec["fn"], self.spec["nth"]
        self.target = {"os": os, "shutil": shutil, "ipc": ebd_ipc}[mod]
        self.had = fn in vars(self.target)
        orig = getattr(self.target, fn) if mod != "ipc" else open
        self.orig = orig

        def wrapper(*a, **k):
            if any(isinstance(x, str) and x.startswith(self.root) for x in a):
                self.calls += 1
                if self.calls == nth:
                    self.hit = True
                    raise OSError(errno.EIO, os.strerror(errno.EIO), next(x for x in a if isinstance(x, str)))
            return orig(*a, **k)

        setattr(self.target, fn, wrapper)
        return self

    def __exit__(self, *exc):
        if self.spec:
            if self.had:
                setattr(self.target, self.spec["fn"], self.orig)
            else:
                delattr(self.target, self.spec["fn"])
        return False


# =========================================================================================
# expectation per request
# =========================================================================================

PATCH_OK = """--- a/target.txt
+++ b/target.txt
@@ -1,3 +1,3 @@
 line one
-line two
+line 2
 line three
"""
PATCH_BAD = PATCH_OK.replace("line two", "line TWO never there").replace("line one", "line uno")
TARGET = "line one\nline two\nline three\n"


def optline(req, eapi):
    h = req["helper"]
    if h in ("docompress", "dostrip", "eapply", "filter_env", "unpack"):
        return ""
    return H33.options_line({"helper": h, "env": req.get("env", {}), "eapi": eapi})


def _ext_words(env, key):
    w = set(env.get(key, "").split())
    if "--strip-program=true" in w:
        w.discard("-s")  # stripping with a no-op strip program succeeds
    return w


def expectation(req, eapi, W, ED, before):
    """-> (status 'ok'|'reject'|'either', entries dict or None, external: bool)"""
    h = req["helper"]
    args = [a.replace("@W@", W) for a in req["args"]]
    env = req.get("env", {})
    if h in ("docompress", "dostrip"):
        files = [a for a in args if a != "-x"]
        return ("ok" if files else "reject"), {}, False
    if h == "eapply":
        if not args:
            return "reject", {}, False
        for a in args:
            p = a if a.startswith("/") else os.path.join(W, a)
            if not os.path.lexists(p):
                return "reject", {}, False
        bad = any("bad" in os.path.basename(a) for a in args)
        return ("reject" if bad else "ok"), {}, False
    if h == "filter_env":
        return "ok", {}, False
    if h == "unpack":
        if not args:
            return "reject", {}, False
        for a in args:
            if not os.path.exists(a if a.startswith("/") else os.path.join(W, a)):
                return "reject", {}, False
        return ("reject" if any("bad" in os.path.basename(a) for a in args) else "ok"), {}, False
    res = M.model({"eapi": eapi, "helper": h, "args": args, "env": env, "PF": H33.PF, "PN": H33.PN}, W, before)
    if res.status != "ok":
        return res.status, res.entries, False
    # a regular file cannot replace a directory (install(1) refuses, so does the python path): the request fails
    blocked = any(v["type"] == "file" and (before.get(rel) or {}).get("type") == "dir" for rel, v in res.entries.items())
    through_link = False
    for rel, v in res.entries.items():
        if v["type"] == "keepfile":
            continue
        # nor can anything be created below / a directory be created at something that is not a directory
        parts = rel.split("/")
        for i in range(1, len(parts) + (1 if v["type"] == "dir" else 0)):
            e = before.get("/".join(parts[:i]))
            if e is not None and e["type"] == "sym":
                through_link = True  # may or may not resolve to a directory: outcome open
            elif e is not None and e["type"] != "dir":
                blocked = True
    needs_file = any(v["type"] == "file" for v in res.entries.values())
    needs_dir = any(v["type"] == "dir" for v in res.entries.values())
    fkey = {"doins": "insopts", "doexe": "exeopts"}.get(h)
    external = False
    status = "ok"
    if fkey and needs_file:
        o = M.parse_install_opts(env.get(fkey, "").split())
        bad = _ext_words(env, fkey) & EXT_FAIL_WORDS
        if o["external"] or bad:
            external = True
        if bad:
            status = "reject"
    if h in ("doins", "dodir", "keepdir") and needs_dir:
        o = M.parse_install_opts(env.get("diropts", "").split())
        bad = _ext_words(env, "diropts") & EXT_FAIL_WORDS
        if o["external"] or bad:
            external = True
        if bad:
            status = "reject"
    if blocked:
        status = "reject"
    elif through_link and status == "ok":
        return "open", res.entries, external
    elif status == "ok":
        for rel, v in res.entries.items():
            e = before.get(rel)
            if v["type"] == "sym" and e is not None:
                status = "either"  # replacing an existing entry by a symlink: overwrite or fail, PMS is silent
            elif v["type"] == "dir" and e is not None and e["type"] != "dir":
                status = "either"
            elif v["type"] == "file" and not os.path.isfile(v["src"]):
                status = "either"  # fifo / dangling link in the source tree
    return status, res.entries, external


def effect_present(entries, ED):
    """types of the expected entries and link targets only (placement details are C33's)"""
    missing = []
    for rel, spec in entries.items():
        t = spec["type"]
        if t == "keepfile":
            d = os.path.join(ED, spec["dir"])
            if not (os.path.isdir(d) and any(n.startswith(".keep") for n in os.listdir(d))):
                missing.append(rel)
            continue
        p = os.path.join(ED, rel)
        ok = {"file": os.path.isfile(p) and not os.path.islink(p), "dir": os.path.isdir(p) and not os.path.islink(p),
              "sym": os.path.islink(p) and os.readlink(p) == spec["target"], "hardlink": os.path.lexists(p)}[t]
        if not ok:
            missing.append(rel)
    return missing


def check_reply_text(ctx, case, idx, text, where):
    """framing of one reply string as handed to processor.write(); returns (code:int|None, msg)"""
    s = str(text)
    h = case["requests"][idx]["helper"]
    if "\n" in s or "\r" in s:
        ctx.violation(f"multiline-reply:{h}", case, f"request #{idx} {where}: reply spans lines: {s!r}")
    code, sep, msg = s.partition("\x07")
    try:
        c = int(code)
    except ValueError:
        ctx.violation(f"malformed-reply:{h}", case, f"request #{idx} {where}: {s!r}")
        return None, msg
    if not 0 <= c <= 255:
        ctx.violation(f"malformed-reply:{h}", case, f"request #{idx} {where}: exit code out of range: {s!r}")
    return c, msg


# =========================================================================================
# stream execution (shared)
# =========================================================================================

class World:
    def __init__(self, ctx, case):
        self.root = H33.fast_dir(ctx, "c32")
        self.ED = os.path.join(self.root, "image") + "/"
        self.W = os.path.join(self.root, "work")
        self.T = os.path.join(self.root, "temp")
        for d in (self.ED, self.W, self.T):
            os.makedirs(d)
        fsx.build(self.W, case.get("src", []))
        with open(os.path.join(self.W, "target.txt"), "w") as f:
            f.write(TARGET)
        with open(os.path.join(self.W, "ok.patch"), "w") as f:
            f.write(PATCH_OK)
        with open(os.path.join(self.W, "bad.patch"), "w") as f:
            f.write(PATCH_BAD)
        with open(os.path.join(self.W, "env.in"), "w") as f:
            f.write("FOO=1\nBAR=2\nf() { :; }\n")
        with open(os.path.join(self.W, "bad.tar.gz"), "wb") as f:
            f.write(b"this is not an archive at all\n" * 5)
        import io
        import tarfile

        with tarfile.open(os.path.join(self.W, "good.tar.gz"), "w:gz") as t:
            data = b"unpacked\n"
            ti = tarfile.TarInfo("unp/file.txt")
            ti.size = len(data)
            t.addfile(ti, io.BytesIO(data))
        self.op = H33.make_op(case["eapi"], self.ED, self.T)
        self.H = H33.build_helpers(self.op)

    def close(self):
        shutil.rmtree(self.root, ignore_errors=True)


def req_args(req, w):
    return [a.replace("@W@", w.W) for a in req["args"]]


def classify(case):
    cl = ["layer_" + case["layer"], "eapi" + case["eapi"]]
    for r in case["requests"]:
        cl.append("h_" + r["helper"])
        cl.append("kind_" + r.get("kind", "?"))
        if r.get("fault"):
            cl.append("fault_" + r["fault"]["fn"])
        if not r["nonfatal"]:
            cl.append("fatal")
    return sorted(set(cl))


def judge(ctx, case, idx, w, status, entries, external, fault, ok, code, msg, failed_before):
    """truthfulness of one outcome; ok = success reported"""
    req = case["requests"][idx]
    h = req["helper"]
    ext = ":external-install" if external else ""
    after_fail = ":after-failed-request" if failed_before else ""
    if fault is not None and fault.hit:
        if ok:
            missing = effect_present(entries or {}, w.ED)
            if missing:
                ctx.violation(f"success-despite-fault:{h}:{fault.spec['fn']}", case,
                              f"request #{idx}: {fault.spec} failed, reply says success, missing {missing[:3]}")
        elif not msg:
            ctx.violation(f"failure-without-message:{h}", case, f"request #{idx}: code={code}")
        return
    if status == "open":
        return
    if status == "either":
        # PMS leaves open whether this fails; a reported success still has to be true
        if ok:
            missing = effect_present(entries or {}, w.ED)
            if missing:
                ctx.violation(f"success-without-effect:{h}{ext}:{req.get('kind')}", case,
                              f"request #{idx}: reply 0 but not installed as requested: {missing[:3]}")
        return
    if status == "reject":
        if ok:
            ctx.violation(f"false-success:{h}{ext}", case,
                          f"request #{idx} must fail ({req.get('kind')}) but the reply reports success")
        elif not msg:
            ctx.violation(f"failure-without-message:{h}{ext}", case, f"request #{idx}: code={code} msg={msg!r}")
        return
    if not ok:
        ctx.violation(f"false-failure:{h}{ext}{after_fail}", case,
                      f"request #{idx} is valid and nothing was injected, reply: code={code} msg={msg!r}")
        return
    missing = effect_present(entries or {}, w.ED)
    if missing:
        ctx.violation(f"success-without-effect:{h}{ext}", case, f"request #{idx}: reply 0 but missing {missing[:3]}")


def internal_bucket(case, idx, exc, fault, failed_before):
    h = case["requests"][idx]["helper"]
    cause = exc.__cause__
    cn = type(cause).__name__
    if fault is not None and fault.hit and isinstance(cause, OSError):
        return f"unhandled-oserror:{h}:{fault.spec['fn']}", f"injected {fault.spec} escaped as IpcInternalError ({cause})"
    dead = isinstance(cause, StopIteration) or (isinstance(cause, RuntimeError) and "StopIteration" in str(cause))
    if dead and failed_before:
        return "internal-failure:StopIteration:after-failed-request", \
            f"request #{idx} ({h}) after an earlier failed request: IpcInternalError from StopIteration (helper state is dead)"
    return f"internal-failure:{h}:{cn}", f"request #{idx}: IpcInternalError from {cn}: {cause}"


# =========================================================================================
# layer "inproc"
# =========================================================================================

def run_inproc(ctx, case):
    w = World(ctx, case)
    old = os.getcwd()
    try:
        failed_helpers = set()
        any_failed = False
        for idx, req in enumerate(case["requests"]):
            h = req["helper"]
            before = fsx.snapshot(w.ED, data=False)
            status, entries, external = expectation(req, case["eapi"], w.W, w.ED, before)
            fe = Ebd(H33.request_lines(req["nonfatal"], w.W, "install", optline(req, case["eapi"]), req_args(req, w)))
            exc = None
            over = False
            with Fault(req.get("fault"), w.root) as fault:
                try:
                    core.guarded(ctx, case, lambda: w.H[h](fe), expected=(ebd_ipc.IpcError, OverRead))
                except ebd_ipc.IpcError as e:
                    exc = e
                except OverRead:
                    over = True
                finally:
                    os.chdir(old)
            flt = fault if req.get("fault") else None
            if over:
                ctx.violation(f"over-read:{h}", case, f"request #{idx}: more than the five request lines were read")
                return
            if fe.lines:
                ctx.violation(f"under-read:{h}", case, f"request #{idx}: {len(fe.lines)} request lines left unread")
                return
            if isinstance(exc, ebd_ipc.IpcInternalError):
                b, m = internal_bucket(case, idx, exc, flt, h in failed_helpers or any_failed)
                ctx.violation(b, case, m)
                return
            if exc is not None:
                # fatal failure path: nothing written by the class, the reply travels in exc.ret
                if req["nonfatal"]:
                    ctx.violation(f"nonfatal-raised:{h}", case, f"request #{idx}: nonfatal request raised {exc!r}")
                    return
                if fe.out:
                    ctx.violation(f"double-reply:{h}", case, f"request #{idx}: wrote {fe.out!r} and raised {exc!r}")
                code, msg = check_reply_text(ctx, case, idx, exc.ret, "IpcCommandError.ret")
                if code == 0:
                    ctx.violation(f"fatal-error-with-code-0:{h}{':external-install' if external else ''}", case,
                                  f"request #{idx}: build-failing IpcCommandError carries success code: ret={exc.ret!r}")
                    if status == "ok":
                        return
                judge(ctx, case, idx, w, status, entries, external, flt, False, code, msg, h in failed_helpers)
                return  # the build stops here
            if len(fe.out) != 1:
                ctx.violation(f"reply-count:{h}", case, f"request #{idx}: {len(fe.out)} replies {fe.out!r}")
                return
            code, msg = check_reply_text(ctx, case, idx, fe.out[0], "reply")
            if code is None:
                return
            ok = code == 0
            if not ok and not req["nonfatal"]:
                ctx.violation("fatal-failure-not-raised", case,
                              f"request #{idx} is fatal and failed ({fe.out[0]!r}) but no IpcCommandError was raised: "
                              f"the build would go on")
            judge(ctx, case, idx, w, status, entries, external, flt, ok, code, msg, h in failed_helpers)
            if not ok:
                failed_helpers.add(h)
                any_failed = True
    finally:
        os.chdir(old)
        w.close()


# =========================================================================================
# layer "phase": through the real run_generic_phase with a fake processor
# =========================================================================================

class FakeProcessor(Ebd):
    def __init__(self, case, w, ctx):
        super().__init__()
        self.case, self.w, self.ctx = case, w, ctx
        self.executed = []
        self.shutdowns = []
        self.expect = []

    def run_phase(self, phase, env, tmpdir=None, sandbox=None, logging=None, additional_commands=None):
        for idx, req in enumerate(self.case["requests"]):
            before = fsx.snapshot(self.w.ED, data=False)
            self.expect.append(expectation(req, self.case["eapi"], self.w.W, self.w.ED, before))
            self.lines = H33.request_lines(req["nonfatal"], self.w.W, phase, optline(req, self.case["eapi"]),
                                           req_args(req, self.w))
            self.executed.append(idx)
            additional_commands[req["helper"]](self)
        return True

    def shutdown_processor(self, force=False, **kw):
        self.shutdowns.append(force)


def run_phase_layer(ctx, case):
    w = World(ctx, case)
    old = os.getcwd()
    saved = (ebd_mod.request_ebuild_processor, ebd_mod.release_ebuild_processor)
    proc = FakeProcessor(case, w, ctx)
    released = []
    try:
        ebd_mod.request_ebuild_processor = lambda **kw: proc
        ebd_mod.release_ebuild_processor = lambda p: released.append(p)
        raised = None
        try:
            def body():
                return ebd_mod.run_generic_phase(w.op.pkg, "install", {"T": w.T}, False, False, extra_handlers=w.H)
            ret = core.guarded(ctx, case, body, expected=(Exception,))
        except (core.HarnessError, OverRead):
            raise
        except Exception as e:  # noqa: BLE001  any exception == "the build fails"; classified below
            raised = e
            ret = None
        finally:
            os.chdir(old)
        n = len(proc.executed)
        last = n - 1
        # one reply per executed request
        if len(proc.out) != n:
            ctx.violation("phase:reply-count", case, f"{n} requests executed, {len(proc.out)} replies sent: {proc.out!r}")
            return
        codes = []
        for i, text in enumerate(proc.out):
            c, m = check_reply_text(ctx, case, i, text, "reply sent via run_generic_phase")
            codes.append(c)
        # where should the build have stopped?
        stop_at = None
        for i in range(n):
            st_, _, _ = proc.expect[i]
            if st_ == "reject" and not case["requests"][i]["nonfatal"]:
                stop_at = i
                break
        if isinstance(raised, (StopIteration, TypeError, IndexError, KeyError, AttributeError)):
            # run_generic_phase re-raises the cause of IpcInternalError
            ctx.violation(f"phase:internal-failure:{type(raised).__name__}", case,
                          f"build aborted by internal error {raised!r} at request #{last}")
            return
        if raised is None:
            if stop_at is not None:
                ctx.violation(f"phase:fatal-failure-did-not-fail-build:{case['requests'][stop_at]['helper']}", case,
                              f"request #{stop_at} is fatal and must fail, run_generic_phase returned {ret!r}")
        elif last == stop_at:
            if codes[last] == 0:
                ctx.violation("phase:build-failed-with-success-reply", case, f"reply {proc.out[last]!r}, raised {raised!r}")
        elif last >= 0:
            st_, _, external = proc.expect[last]
            h = case["requests"][last]["helper"]
            ext = ":external-install" if external else ""
            if st_ == "ok":
                ctx.violation(f"phase:build-failed-on-valid-request:{h}{ext}", case,
                              f"request #{last} is valid, build failed with {type(raised).__name__}: {raised}; reply {proc.out[last]!r}")
            elif st_ == "reject" and case["requests"][last]["nonfatal"]:
                ctx.violation(f"phase:nonfatal-failure-failed-build:{h}{ext}", case,
                              f"request #{last} is nonfatal, build failed with {type(raised).__name__}: {raised}")
        if raised is not None and not released and not proc.shutdowns:
            ctx.violation("phase:processor-not-shut-down", case, "build failed but the processor was neither shut down nor released")
    finally:
        ebd_mod.request_ebuild_processor, ebd_mod.release_ebuild_processor = saved
        os.chdir(old)
        w.close()


# =========================================================================================
# layer "bash": the real bash peer over pipes
# =========================================================================================

BASH_HEAD = r'''
export PKGCORE_EBD_READ_FD=%(rfd)d PKGCORE_EBD_WRITE_FD=%(wfd)d
source "$EBD/exit-handling.bash" || exit 90
source "$EBD/ebuild-daemon-lib.bash" || exit 91
source "$EBD/isolated-functions.bash" || exit 92
die() { echo "DIE $*" >> "$OUT/status"; exit 77; }
EBUILD_PHASE=install
cd "$W" || exit 93
'''


def bash_script(case, w, rfd, wfd):
    parts = [BASH_HEAD % {"rfd": rfd, "wfd": wfd}]
    for idx, req in enumerate(case["requests"]):
        nf = "true" if req["nonfatal"] else "false"
        args = " ".join(shlex.quote(a) for a in req_args(req, w))
        ol = shlex.quote(optline(req, case["eapi"]))
        parts.append(f'PKGCORE_NONFATAL={nf} __ebd_ipc_cmd {shlex.quote(req["helper"])} {ol} {args} '
                     f'> "$OUT/{idx}.out" 2> "$OUT/{idx}.err"; echo "REQ {idx} $?" >> "$OUT/status"')
    parts.append('__ebd_write_line "SENTINEL 4711"')
    parts.append('__ebd_read_line ack; echo "ACK ${ack}" >> "$OUT/status"')
    return "\n".join(parts)


class Timeout(Exception):
    pass


def _readline(f, timeout):
    r, _, _ = select.select([f], [], [], timeout)
    if not r:
        raise Timeout()
    return f.readline()


def _blocked_on_pipe(pid):
    """True if the process sleeps in a pipe read (a real protocol deadlock), False if it is merely starved/busy"""
    try:
        with open(f"/proc/{pid}/wchan") as f:
            w = f.read()
        with open(f"/proc/{pid}/stat") as f:
            state = f.read().rsplit(")", 1)[1].split()[0]
    except OSError:
        return False
    return state == "S" and "pipe" in w


class PipeProc:
    """read()/write() with EbuildProcessor semantics on two pipes"""

    def __init__(self, rf, wf, timeout=120):
        self.ebd_read, self.ebd_write, self.timeout = rf, wf, timeout
        self.sent = []

    def read(self, lines=1):
        out = []
        for _ in range(lines):
            line = _readline(self.ebd_read, self.timeout)
            if not line:
                raise Timeout()
            out.append(line.decode())
        return "\n".join(out)

    def write(self, string, flush=True, **kw):
        string = str(string)
        self.sent.append(string)
        if string != "\n":
            string += "\n"
        self.ebd_write.write(string.encode())
        self.ebd_write.flush()


def run_bash_layer(ctx, case):
    w = World(ctx, case)
    old = os.getcwd()
    outdir = os.path.join(w.root, "out")
    os.makedirs(outdir)
    p2b_r, p2b_w = os.pipe()  # python -> bash
    b2p_r, b2p_w = os.pipe()  # bash -> python
    proc = None
    try:
        script = bash_script(case, w, p2b_r, b2p_w)
        env = {"PATH": "/usr/sbin:/usr/bin:/sbin:/bin", "LC_ALL": "C", "EBD": vebd.ebd_dir(), "OUT": outdir, "W": w.W,
               "T": w.T, "PKGCORE_PREFIX_SUPPORT": "false", "PKGCORE_IS_NOT_HELPER": ""}
        proc = subprocess.Popen(["/bin/bash", "--norc", "--noprofile", "-c", script], env=env, pass_fds=(p2b_r, b2p_w),
                                stdin=subprocess.DEVNULL, stdout=subprocess.DEVNULL, stderr=subprocess.DEVNULL)
        os.close(p2b_r)
        os.close(b2p_w)
        p2b_r = b2p_w = None
        rf = os.fdopen(b2p_r, "rb", buffering=0)
        wf = os.fdopen(p2b_w, "wb")
        b2p_r = p2b_w = None
        pp_ = PipeProc(rf, wf)
        expects = []
        served = 0
        sentinel_ok = None
        stopped_by = None
        pipe_broken = False
        try:
            while True:
                line = pp_.read().strip()
                cmd, _, rest = line.partition(" ")
                if cmd == "SENTINEL":
                    sentinel_ok = (line == "SENTINEL 4711")
                    pp_.write("ack-4711")
                    break
                if cmd not in w.H or served >= len(case["requests"]) or cmd != case["requests"][served]["helper"] or rest:
                    sentinel_ok = False
                    ctx.violation("bash:desync:python-side", case, f"expected request #{served}, got line {line!r}")
                    break
                req = case["requests"][served]
                before = fsx.snapshot(w.ED, data=False)
                expects.append(expectation(req, case["eapi"], w.W, w.ED, before))
                served += 1
                try:
                    core.guarded(ctx, case, lambda: w.H[cmd](pp_), expected=(ebd_ipc.IpcError, Timeout, BrokenPipeError))
                except ebd_ipc.IpcInternalError as e:
                    b, m = internal_bucket(case, served - 1, e, None, True)
                    ctx.violation(b, case, m)
                    stopped_by = e
                    break
                except ebd_ipc.IpcError as e:
                    pp_.write(e.ret)  # what run_generic_phase does (checked for real in layer "phase")
                    stopped_by = e
                    break
                finally:
                    os.chdir(old)
        except BrokenPipeError:
            pipe_broken = True  # bash went away while a reply was being written
        except Timeout:
            if proc.poll() is not None:
                pipe_broken = True
            elif _blocked_on_pipe(proc.pid):
                ctx.violation("bash:hang", case, f"bash is blocked reading the channel after {served} served requests "
                                                 f"(python is waiting for its next line too)")
                return
            else:
                ctx.count("bash_timeout_inconclusive")
                return
        if isinstance(stopped_by, ebd_ipc.IpcInternalError):
            return  # reported above; the real processor is killed at this point (finally: kills bash)
        multiline = any("\n" in s_ for s_ in pp_.sent)

        def anomaly(bucket, msg):
            # once a reply spanning lines went out, every later oddity on the bash side is that desync
            ctx.violation("bash:desync-after-multiline-reply" if multiline else bucket, case, msg)

        # wait for bash; a bash that sleeps in a pipe read while python has stopped serving will never finish
        waited = 0.0
        while proc.poll() is None:
            if waited > 2.0 and _blocked_on_pipe(proc.pid):
                if stopped_by is not None:
                    h = case["requests"][served - 1]["helper"]
                    ext = ":external-install" if expects[served - 1][2] else ""
                    anomaly(f"bash:fatal-failure-not-fatal:{h}{ext}",
                            f"request #{served - 1}: python failed the build ({stopped_by!r}, reply {pp_.sent[-1]!r}) "
                            f"but bash carried on and now waits for the next reply")
                else:
                    anomaly("bash:hang", "bash did not finish: blocked reading a reply that never comes")
                return
            if waited > 120:
                ctx.count("bash_timeout_inconclusive")
                return
            try:
                proc.wait(timeout=0.25)
            except subprocess.TimeoutExpired:
                waited += 0.25
        status_lines = []
        sp = os.path.join(outdir, "status")
        if os.path.exists(sp):
            with open(sp, errors="replace") as f:
                status_lines = f.read().splitlines()
        seen = {}
        for ln in status_lines:
            parts = ln.split(" ")
            if parts[0] == "REQ" and len(parts) == 3:
                seen[int(parts[1])] = int(parts[2])
        died = [ln for ln in status_lines if ln.startswith("DIE ")]
        for i, s_ in enumerate(pp_.sent[:served]):
            check_reply_text(ctx, case, min(i, len(case["requests"]) - 1), s_, "sent to bash")
        for i in range(served):
            req = case["requests"][i]
            st_, entries, external = expects[i]
            h = req["helper"]
            ext = ":external-install" if external else ""
            sent_i = pp_.sent[i] if i < len(pp_.sent) else None
            if st_ in ("either", "open"):
                continue
            is_last_fatal = stopped_by is not None and i == served - 1
            if is_last_fatal:
                if st_ == "ok":
                    anomaly(f"bash:false-failure:{h}{ext}", f"request #{i} valid but python raised {stopped_by!r}")
                elif not died:
                    anomaly(f"bash:fatal-failure-not-fatal:{h}{ext}",
                            f"request #{i}: error reply {sent_i!r} did not make bash die; status={status_lines!r}")
                continue
            if i not in seen:
                if died and (st_ == "ok" or req["nonfatal"]):
                    anomaly(f"bash:died-on-request:{h}{ext}",
                            f"request #{i} ({'valid' if st_ == 'ok' else 'nonfatal'}) made bash die: {died!r}; python sent {sent_i!r}")
                elif not died:
                    anomaly(f"bash:request-lost:{h}{ext}", f"request #{i} has no status; status={status_lines!r}")
                break
            rc = seen[i]
            if st_ == "ok" and rc != 0:
                anomaly(f"bash:false-failure:{h}{ext}", f"request #{i} valid, bash saw exit {rc}; python sent {sent_i!r}")
            elif st_ == "reject" and rc == 0:
                anomaly(f"bash:false-success:{h}{ext}", f"request #{i} must fail, bash saw exit 0; python sent {sent_i!r}")
            elif st_ == "ok":
                missing = effect_present(entries or {}, w.ED)
                if missing:
                    anomaly(f"bash:success-without-effect:{h}{ext}", f"request #{i}: missing {missing[:3]}")
        if stopped_by is None and not pipe_broken:
            if sentinel_ok is not True:
                anomaly("bash:desync:sentinel", f"sentinel not received intact after {served} requests")
            elif "ACK ack-4711" not in status_lines:
                anomaly("bash:desync:ack", f"bash did not read the acknowledgement as the next line: {status_lines[-3:]!r}")
            elif proc.returncode != 0 and not died:
                anomaly("bash:exit", f"bash exited {proc.returncode}; status={status_lines[-3:]!r}")
    finally:
        for fd in (p2b_r, p2b_w, b2p_r, b2p_w):
            if fd is not None:
                try:
                    os.close(fd)
                except OSError:
                    pass
        if proc is not None and proc.poll() is None:
            proc.kill()
            proc.wait()
        try:
            rf.close()
            wf.close()
        except Exception:  # noqa: BLE001
            pass
        os.chdir(old)
        w.close()


# =========================================================================================
# generators
# =========================================================================================

PLAIN_FILES = ["a.txt", "b.conf", "x y.txt", "tool", "lib.so.1", "foo.1", "bar.5", "de.mo", "README"]


def _src():
    spec = [H33._file(n, i) for i, n in enumerate(PLAIN_FILES)]
    spec.append({"path": "d", "type": "dir"})
    spec.append(H33._file("d/in.txt", 20))
    spec.append({"path": "d/sub", "type": "dir"})
    spec.append(H33._file("d/sub/deep.txt", 21))
    # trees with symlinks (to a directory, to a file) and a special file, for recursive installs
    spec += [{"path": "t", "type": "dir"}, H33._file("t/f.txt", 30), {"path": "t/sub", "type": "dir"},
             H33._file("t/sub/g.txt", 31), {"path": "t/dl", "type": "sym", "target": "sub"},
             {"path": "t/fl", "type": "sym", "target": "f.txt"}]
    spec += [{"path": "u", "type": "dir"}, H33._file("u/h.txt", 32), {"path": "u/other", "type": "dir"},
             H33._file("u/other/i.txt", 33), {"path": "u/dl", "type": "sym", "target": "other"},
             {"path": "u/sub", "type": "sym", "target": "other"}]
    spec += [{"path": "tf", "type": "dir"}, H33._file("tf/a.txt", 34), {"path": "tf/pipe", "type": "fifo"},
             H33._file("tf/z.txt", 35)]
    return spec


@st.composite
def request(draw, allow_fault=True):
    kind = draw(st.sampled_from([
        # (hypothesis favours early elements: the expensive-to-reach classes come first)
        "rtree", "blocked", "unpack_bad", "rtree", "ext_ok", "ext_fail", "ok_files", "ok_files", "ok_files", "ok_files", "missing", "missing", "dir_no_r", "noman", "ext_ok", "ext_fail",
        "dirext_ok", "dirext_fail", "dodir", "dodir", "keepdir", "keepdir", "dosym", "dosym", "dosym_bad", "recursive",
        "recursive", "noargs", "badopt", "docompress", "dostrip", "eapply_ok", "eapply_bad", "eapply_missing",
        "filter_env", "blocked", "blocked", "blocked", "unpack_ok", "unpack_bad", "unpack_bad", "unpack_missing"]))
    env = {}
    args = []
    h = "doins"
    pick = lambda pool, n=2: draw(st.lists(st.sampled_from(pool), min_size=1, max_size=n, unique=True))  # noqa: E731
    if kind == "ok_files":
        h = draw(st.sampled_from(["doins", "dodoc", "doexe", "dobin", "dolib.so", "doman", "domo"]))
        if h == "doman":
            args = pick(["foo.1", "bar.5"])
        elif h == "domo":
            args = ["de.mo"]
        elif h == "dolib.so":
            args = ["lib.so.1"]
        else:
            args = pick(["a.txt", "b.conf", "x y.txt", "tool"], 3)
        if h == "doins":
            env["insinto"] = draw(st.sampled_from(["/usr/share/p", "/etc/p", "/opt/a b"]))
            if draw(st.booleans()):
                env["insopts"] = draw(st.sampled_from(["-m0600", "-m 0640 -o 0", "-p -m0644"]))
        if h == "doexe":
            env["exeinto"] = draw(st.sampled_from(["/usr/libexec/p", "/opt/bin"]))
    elif kind == "missing":
        h = draw(st.sampled_from(["doins", "dodoc", "dobin", "doman", "doexe"]))
        args = ["a.txt", draw(st.sampled_from(["nope.txt", "no such.1", "d/none"]))]
        if h == "doexe":
            env["exeinto"] = "/opt/bin"
    elif kind == "dir_no_r":
        h, args = "dodoc", ["a.txt", "d"]
    elif kind == "noman":
        h, args = "doman", [draw(st.sampled_from(["README", "tool"]))]
    elif kind in ("ext_ok", "ext_fail"):
        h = draw(st.sampled_from(["doins", "doexe"]))
        opt = draw(st.sampled_from(EXT_OK if kind == "ext_ok" else EXT_FAIL))
        base = draw(st.sampled_from(["-m0644", "-m0755", ""])) if "-m " not in opt else ""
        env["insopts" if h == "doins" else "exeopts"] = (base + " " + opt).strip()
        env["insinto" if h == "doins" else "exeinto"] = draw(st.sampled_from(["/usr/share/e", "/opt/e x"]))
        args = pick(["a.txt", "b.conf", "x y.txt"], 2)
    elif kind in ("dirext_ok", "dirext_fail"):
        h = draw(st.sampled_from(["dodir", "doins", "keepdir"]))
        pool = ["-c", "-m u=rwx,go=rx"] if kind == "dirext_ok" else ["-o nosuchuser_vf", "-m bogus", "--no-such-option"]
        env["diropts"] = draw(st.sampled_from(pool))
        if h == "doins":
            env["insinto"] = "/usr/share/r"
            args = ["-r", "d"]
        else:
            args = pick(["/var/lib/p", "/etc/p.d", "/opt/a b/c"])
    elif kind in ("dodir", "keepdir"):
        h = kind
        args = pick(["/var/lib/p", "/etc/p.d", "/opt/a b/c", "usr/share/q"])
        if draw(st.booleans()):
            env["diropts"] = draw(st.sampled_from(["-m0750", "-m 0700"]))
    elif kind == "dosym":
        h = "dosym"
        args = [draw(st.sampled_from(["../lib/x", "/usr/lib/x", "x"])), draw(st.sampled_from(["/usr/bin/x", "/opt/l/n", "usr/share/l"]))]
    elif kind == "dosym_bad":
        h, args = "dosym", ["x", "/usr/bin/"]
    elif kind == "recursive":
        h = "doins"
        env["insinto"] = "/usr/share/r"
        args = ["-r", draw(st.sampled_from(["d", "d/", "d/.", "./d"]))] + (["a.txt"] if draw(st.booleans()) else [])
    elif kind == "rtree":
        # recursive installs of trees holding symlinks / a fifo into a few shared destinations: collisions with what
        # earlier requests left there, failures inside the recursive walk, and retries on the same helper
        h = "doins"
        env["insinto"] = draw(st.sampled_from(["/usr/share/rt", "/usr/share/rt", "/opt/rt x"]))
        args = ["-r", draw(st.sampled_from(["t/.", "u/.", "tf/.", "u/.", "t/.", "t", "u", "tf", "d/."]))]
    elif kind == "noargs":
        h = draw(st.sampled_from(["doins", "dodoc", "dodir", "doman"]))
    elif kind == "badopt":
        h = draw(st.sampled_from(["doins", "dodoc", "dobin"]))
        args = [draw(st.sampled_from(["-Z", "--frobnicate"])), "a.txt"]
    elif kind in ("docompress", "dostrip"):
        h = kind
        args = (["-x"] if draw(st.booleans()) else []) + pick(["/usr/share/doc", "/opt/a b", "/usr/lib/debug"])
    elif kind == "eapply_ok":
        h, args = "eapply", ["ok.patch"]
    elif kind == "eapply_bad":
        h, args = "eapply", ["bad.patch"]
    elif kind == "eapply_missing":
        h, args = "eapply", ["absent.patch"]
    elif kind == "filter_env":
        h, args = "filter_env", ["-v", "FOO", "env.in", "env.out"]
    elif kind in ("unpack_ok", "unpack_bad", "unpack_missing"):
        h = "unpack"
        args = ["./" + {"unpack_ok": "good.tar.gz", "unpack_bad": "bad.tar.gz", "unpack_missing": "absent.tar.gz"}[kind]]
    elif kind == "blocked":
        # a directory sits where one of the files has to go; files are installed in destination order, the blocked
        # one may be first, in the middle or last
        h = draw(st.sampled_from(["doins", "doexe"]))
        dest = draw(st.sampled_from(["/etc/app", "/opt/blk d"]))
        files = draw(st.lists(st.sampled_from(["a.txt", "b.conf", "tool", "x y.txt"]), min_size=2, max_size=3, unique=True))
        victim = draw(st.sampled_from(files))
        # fallback variants carry -T (destination is the file itself): without it install(1) silently puts the file
        # INSIDE the blocking directory and exits 0, a GNU-ism outside what the property statement pins down
        opt = draw(st.sampled_from(["-m0644 -T", "-m0644", "-m0644 -T -c", "-m0600 -T -C", "-m0644", "-T -m0644"]))
        env = {("insinto" if h == "doins" else "exeinto"): dest, ("insopts" if h == "doins" else "exeopts"): opt}
        args = files
        blocker = {"helper": "dodir", "env": {}, "args": [dest + "/" + victim], "nonfatal": True, "kind": "blocker", "fault": None}
    nonfatal = draw(st.integers(0, 9)) < 7
    r = {"helper": h, "env": env, "args": args, "nonfatal": nonfatal, "kind": kind, "fault": None}
    if kind == "blocked":
        return [blocker, r]
    if kind == "rtree" and draw(st.integers(0, 9)) < 6:
        # follow-up on the same helper and destination: retry after a failure inside the walk / collision with what
        # the first call installed (same or different link targets, directory vs link)
        first = dict(r, nonfatal=True)
        second = dict(r, args=["-r", draw(st.sampled_from(["u/.", "t/.", "d/.", "t", "tf/."]))], fault=None)
        return [first, second]
    if allow_fault and kind in ("ok_files", "dodir", "keepdir", "dosym", "recursive", "rtree") and draw(st.integers(0, 9)) < 4:
        mod, fn = draw(st.sampled_from(FAULTS))
        r["fault"] = {"mod": mod, "fn": fn, "nth": draw(st.integers(1, 3))}
    return [r]


@st.composite
def stream(draw, layer="inproc"):
    eapi = str(draw(st.sampled_from([0, 4, 6, 7, 8, 8])))
    n = draw(st.integers(2, 5 if layer != "bash" else 4))
    reqs = [r for _ in range(n) for r in draw(request(allow_fault=(layer == "inproc")))]
    if eapi == "0":  # symlinks in doins trees are undefined before EAPI 4: plain tree instead
        for r in reqs:
            if r["kind"] == "rtree":
                r["args"] = ["-r", "d/."]
    if eapi in ("0", "4"):  # eapply exists from EAPI 6 on
        reqs = [r for r in reqs if r["helper"] != "eapply"]
        if not reqs:
            reqs = [{"helper": "dodir", "env": {}, "args": ["/var/lib/p"], "nonfatal": True, "kind": "dodir", "fault": None}]
    # a patch can be applied once: keep only the first eapply_ok
    seen = False
    out = []
    for r in reqs:
        if r["kind"] == "eapply_ok":
            if seen:
                continue
            seen = True
        out.append(r)
    return {"layer": layer, "eapi": eapi, "src": _src(), "requests": out}


def nontrivial(case):
    failing = {"missing", "dir_no_r", "noman", "ext_fail", "dirext_fail", "dosym_bad", "noargs", "badopt", "eapply_bad",
               "eapply_missing", "blocked", "unpack_bad", "unpack_missing"}
    kinds = [r["kind"] for r in case["requests"]]
    if any(r.get("fault") for r in case["requests"]):
        return True
    if any(k in ("ext_ok", "dirext_ok", "rtree") for k in kinds):
        return True
    return any(k in failing for k in kinds)


def run_stream(ctx, case, record=True):
    if record:
        cl = classify(case)
        kinds = [r["kind"] for r in case["requests"]]
        failing_first = any(k in ("missing", "dir_no_r", "noman", "ext_fail", "dosym_bad", "noargs", "badopt", "blocked")
                            for k in kinds[:-1])
        if failing_first:
            cl.append("request_after_failure")
        rt = [i for i, k in enumerate(kinds) if k == "rtree"]
        if len(rt) >= 2:
            cl.append("rtree_repeated")
            dests = [case["requests"][i]["env"].get("insinto") for i in rt]
            if len(set(dests)) < len(dests):
                cl.append("rtree_same_destination")
        if any(case["requests"][i]["args"][1].startswith("tf") for i in rt) and rt and rt[-1] != rt[0]:
            cl.append("rtree_after_special_file")
        ctx.case(case, nontrivial=nontrivial(case), classes=cl)
    old_umask = os.umask(0o022)
    try:
        if case["layer"] == "inproc":
            run_inproc(ctx, case)
        elif case["layer"] == "phase":
            run_phase_layer(ctx, case)
        elif case["layer"] == "bash":
            run_bash_layer(ctx, case)
        else:
            raise core.HarnessError(f"unknown layer {case['layer']}")
    finally:
        os.umask(old_umask)


# =========================================================================================
# runner interface
# =========================================================================================

def plan(tier, seed):
    tasks = []
    if tier == "quick":
        # every external-install / patch request costs a fork+exec: keep the quick tier small
        for i in range(6):
            tasks.append({"task": "streams", "layer": "inproc", "examples": 40, "salt": i})
        for i in range(4):
            tasks.append({"task": "streams", "layer": "phase", "examples": 20, "salt": 10 + i})
        for i in range(6):
            tasks.append({"task": "streams", "layer": "bash", "examples": 6, "salt": 20 + i})
    else:
        for i in range(8):
            tasks.append({"task": "streams", "layer": "inproc", "examples": 220, "salt": i})
        for i in range(4):
            tasks.append({"task": "streams", "layer": "phase", "examples": 130, "salt": 10 + i})
        for i in range(8):
            tasks.append({"task": "streams", "layer": "bash", "examples": 35, "salt": 20 + i})
    return tasks


def run_task(ctx, task, **kw):
    if task != "streams":
        raise core.HarnessError(f"unknown task {task}")
    try:
        vebd.ensure_generated()
        core.hyp_run(ctx, stream(layer=kw["layer"]), lambda c: ctx.out_of_time() or run_stream(ctx, c), kw["examples"],
                     chunk=50 if kw["layer"] != "bash" else 10, seed_salt=kw.get("salt", 0))
    finally:
        H33.cleanup_fast()


def replay(ctx, case):
    try:
        run_stream(ctx, case)
    finally:
        H33.cleanup_fast()
