"""C29 Package database updates are crash-consistent.

What is generated: scenarios (hypothesis, JSON) = repository kind (vdb / binpkg) x operation
(install / replace / uninstall) x package shapes (version, slot, USE, dep strings, description,
0-4 content entries, environment, ebuild text) x surroundings (sibling package in the category,
other-slot version of the same name, NEEDED files in the build tmpdir) x driver (stage-by-stage
as operations/domain.py and merge.triggers.SavePkg drive the repo op, or `install_or_replace(..).finish()`
as `pmaint copy` does).  For every scenario the *complete* event log of the operation is taken with
vf.crash.dry_run and every (event, mode) point of vf.crash.points is injected: before / after /
eio.  The operation runs in a forked child on a restored copy of the pre-state.

Oracle (independent of the code under test):
  * pre-state and post-state are observed through a *fresh* repository object
    (vdb.ondisk.tree(location) / binpkg.repository.tree(base)): listing of all cpvs, every tracked
    attribute, contents, environment, ebuild text, plus the raw on-disk form of every listed
    package (vdb: file name -> hash per package directory, COUNTER normalised; binpkg: hash of
    the .tbz2).
  * the uninterrupted run must produce the state a model predicts from the scenario (listing =
    model set; description/slot/USE/environment/ebuild/contents of the new package equal the
    scenario values);
  * after every injection the observation must be *equal* to the pre-state observation or to
    the post-state observation.  Anything else is classified: partial (a listed package whose
    record/raw form is neither), neither (replace: no version listed), both (old and new
    version listed together), bystander-damaged, listing-error.

Packages handed to the operations are real `ebuild_built.package` objects read by pkgcore from a
hand-written source vdb (for binpkg targets the contents are regenerated with livefs.gen_obj exactly
as `pmaint copy` does).  vdb pre-states are hand-written directories (the way another package
manager leaves them), binpkg pre-states are created with pkgcore's own install in the set-up.

Dropped from DESIGN.md: `:=` slot-operator dependencies (they need a full domain with
all_installed_repos; the stub domain only has pm_tmpdir); block-level torn writes are not
modelled (vf.crash granularity); binpkg replace only for the same cpv (as pkgcore itself does).
The old binpkg gets an mtime in the past (a package is not replaced within the second it was
written) so that the 1 s granularity of the Packages cache validation is not what is tested here.

Bucket keys: `<repo>:<op>:<verdict>@<event>:<role of path>[-><role of path2>]:<mode>`; roles: root, catdir,
old / new / pkg (old==new) entry, tmp (the install staging name), hidden-* (any other .tmp.* name), Packages,
bystander; `/FILE` = something inside.  Development aid: VF_C29_ONLY="vdb:install,binpkg:replace" limits the plan.
"""
import bz2
import hashlib
import os
import re
import shutil
from types import SimpleNamespace

from hypothesis import strategies as st

from .. import core, crash

ID = "C29"
TITLE = "Package database updates are crash-consistent"
LEVEL = "fault_enumeration"
TECHNIQUE = (
    "audit-hook crash/fault point enumeration (fork per point) of vdb and binpkg install/replace/uninstall; "
    "fresh-repository observation must equal pre- or post-state; post-state checked against a scenario model"
)
DESIGN_REF = "DESIGN.md §3 C29"
LEVEL_TEXT = (
    "Every mutating filesystem event (open-for-write, rename, unlink, rmdir, mkdir, chmod, chown, utime) of each "
    "generated install/replace/uninstall on a vdb or binpkg repository is used as a crash point (die before, die "
    "right after, fail with EIO); after each, a fresh repository object must show exactly the old or exactly the new "
    "state (listing, all metadata, contents, raw files). Enumeration is exhaustive per scenario; scenarios are sampled."
)
LEVEL_NOTE = (
    "Trusted: vf/crash.py (event granularity = Python-level syscalls; data in user-space buffers is lost at a crash; "
    "no torn block writes, no reordering of completed syscalls by the filesystem)."
)
RULE = (
    "case = (scenario, event index k, mode); scenario = repo kind x op x (old,new) package specs x surroundings x driver; "
    "all points of crash.points(dry-run log) are run. non-trivial = the injection fired and at least one mutating "
    "event had been performed when the process stopped (the fresh view sees an intermediate on-disk state); "
    "distinct = (repo, op, relation, driver, surroundings, event signature incl. file name, occurrence, mode)"
)
ASSUMPTIONS = [
    "a crash loses user-space buffered data but never reorders or tears completed syscalls (vf.crash model)",
    "a fresh repository object in the checking process is an adequate 'fresh view' (no state shared with the crashed child)",
    "packages given to the repo operations are pkgcore built packages read from a source vdb, as pmaint copy / merges provide",
    "the replaced binpkg is at least 1 s older than its replacement",
]
BUDGET = {"quick": 50, "thorough": 900}

CAT = "app-misc"
PN = "foo"
VERS = ["1", "1.2", "2.0_p1", "3-r1", "0.9b"]
SLOTS = ["0", "1", "0/2", "2/2.1"]
FLAGS = ["a", "b", "c", "d"]
DEPS = ["", "dev-libs/x", ">=dev-libs/x-1.2:0", "a? ( dev-libs/y )", "|| ( dev-libs/x dev-libs/y ) !b? ( sys-apps/z:2 )",
        "dev-libs/x[a,-b]"]
FILE_POOL = [
    {"path": "usr/bin/tool", "type": "file"},
    {"path": "etc/conf.d/tool", "type": "file"},
    {"path": "usr/share/doc/tool/README", "type": "file"},
    {"path": "usr/lib/libtool.so", "type": "sym", "target": "libtool.so.1"},
    {"path": "usr/lib/libtool.so.1", "type": "file"},
    {"path": "var/lib/tool", "type": "dir"},
]
MTIME0 = 1_600_000_000


# ---------------------------------------------------------------------------------------------
# scenario strategy
# ---------------------------------------------------------------------------------------------

def _pkgspec():
    return st.fixed_dictionaries({
        "slot": st.sampled_from(SLOTS),
        "eapi": st.sampled_from(["7", "8"]),
        "iuse": st.lists(st.sampled_from(FLAGS), unique=True, max_size=4).map(sorted),
        "use_extra": st.lists(st.sampled_from(["x86", "elibc_glibc", "kernel_linux"]), unique=True, max_size=2).map(sorted),
        "use_mask": st.integers(0, 15),
        "desc": st.text(alphabet="abcXYZ 019-_.,", min_size=0, max_size=12).map(lambda s: " ".join(s.split())),
        "depend": st.sampled_from(DEPS),
        "rdepend": st.sampled_from(DEPS),
        "files": st.lists(st.integers(0, len(FILE_POOL) - 1), unique=True, max_size=4).map(sorted),
        "env_lines": st.integers(1, 40),
    })


def scenario_strategy(repo, op, relation=None):
    """`relation` pins same-fullver / other-version for vdb replace (the plan alternates it so that a quick run has both)"""
    d = {
        "repo": st.just(repo),
        "op": st.just(op),
        "old": _pkgspec(),
        "new": _pkgspec(),
        "ver": st.sampled_from(VERS),
        "ver2": st.sampled_from(VERS),
        "sibling": st.booleans(),
        "other_slot": st.booleans(),
        "needed": st.booleans() if repo == "vdb" else st.just(False),
        "relation": (st.just(relation) if relation else st.sampled_from(["same", "other", "revbump"])) if (repo == "vdb" and op == "replace")
        else st.just("same"),
        "driver": st.sampled_from(["staged", "install_or_replace"]) if op != "uninstall" else st.just("staged"),
    }
    return st.fixed_dictionaries(d)


def normalise(sc):
    """derive the concrete old/new versions from a scenario (pure function of the JSON)"""
    sc = dict(sc)
    ver_old = sc["ver"]
    ver_new = sc["ver"]
    if sc["op"] == "replace" and sc["relation"] == "other":
        ver_new = sc["ver2"] if sc["ver2"] != sc["ver"] else VERS[(VERS.index(sc["ver"]) + 1) % len(VERS)]
    if sc["op"] == "replace" and sc["relation"] == "revbump":  # same version, other revision (foo-1 -> foo-1-r1)
        ver_new = ver_old.rsplit("-r", 1)[0] if "-r" in ver_old else ver_old + "-r1"
    sc["_ver_old"], sc["_ver_new"] = ver_old, ver_new
    if ver_old != ver_new:
        sc["driver"] = "staged"  # install_or_replace only replaces the same cpv
    # version used by the other-slot bystander: one that is neither
    sc["_ver_by"] = next(v for v in ["7.7", "8.8", "9.9"] if v not in (ver_old, ver_new))
    return sc


# ---------------------------------------------------------------------------------------------
# world building
# ---------------------------------------------------------------------------------------------

def _use_of(spec):
    return sorted([f for i, f in enumerate(FLAGS) if f in spec["iuse"] and (spec["use_mask"] >> i) & 1] + spec["use_extra"])


def _env_of(spec, tag):
    return "".join(f"declare -x V{i}=\"{tag}-{i}\"\n" for i in range(spec["env_lines"])).encode()


def _ebuild_of(spec, tag):
    return f"# {tag}\nEAPI={spec['eapi']}\nDESCRIPTION=\"{spec['desc']}\"\nSLOT=\"{spec['slot']}\"\n"


def _desc_of(spec, tag):
    return (spec["desc"] + " " + tag).strip()


def _materialise_image(img, spec, tag):
    """create the image files of a package; returns list of (type, abspath, extra)"""
    out = []
    dirs = set()
    n = 0
    for i in spec["files"]:
        e = FILE_POOL[i]
        p = os.path.join(img, e["path"])
        parent = os.path.dirname(p)
        os.makedirs(parent, exist_ok=True)
        d = parent
        while len(d) > len(img):
            dirs.add(d)
            d = os.path.dirname(d)
        if e["type"] == "file":
            data = f"{tag}:{e['path']}\n".encode() * (1 + i)
            with open(p, "wb") as f:
                f.write(data)
            os.utime(p, (MTIME0 + n, MTIME0 + n))
            out.append(("obj", p, {"md5": hashlib.md5(data).hexdigest(), "mtime": MTIME0 + n}))
        elif e["type"] == "sym":
            os.symlink(e["target"], p)
            os.utime(p, (MTIME0 + n, MTIME0 + n), follow_symlinks=False)
            out.append(("sym", p, {"target": e["target"], "mtime": MTIME0 + n}))
        else:
            os.makedirs(p, exist_ok=True)
            dirs.add(p)
        n += 1
    for d in sorted(dirs):
        os.utime(d, (MTIME0, MTIME0))
        out.append(("dir", d, {}))
    out.sort(key=lambda x: x[1])
    return out


def _contents_text(entries):
    lines = []
    for t, p, x in entries:
        if t == "dir":
            lines.append(f"dir {p}")
        elif t == "obj":
            lines.append(f"obj {p} {x['md5']} {x['mtime']}")
        else:
            lines.append(f"sym {p} -> {x['target']} {x['mtime']}")
    return "".join(l + "\n" for l in lines)


def _write_vdb_pkg(base, cat, pn, ver, spec, tag, img, foreign=True):
    """hand-write a vdb entry the way a package manager leaves it"""
    pf = f"{pn}-{ver}"
    d = os.path.join(base, cat, pf)
    os.makedirs(d)
    entries = _materialise_image(img, spec, tag)
    meta = {
        "SLOT": spec["slot"], "EAPI": spec["eapi"], "USE": " ".join(_use_of(spec)), "IUSE": " ".join(spec["iuse"]),
        "DESCRIPTION": _desc_of(spec, tag), "KEYWORDS": "amd64 ~x86", "DEPEND": spec["depend"], "RDEPEND": spec["rdepend"],
        "LICENSE": "GPL-2", "HOMEPAGE": "https://example.org/" + pn, "DEFINED_PHASES": "compile install",
        "repository": "gentoo", "CHOST": "x86_64-pc-linux-gnu", "CFLAGS": "-O2 -pipe", "CATEGORY": cat, "PF": pf,
    }
    if foreign:
        meta["COUNTER"] = "12345"
        meta["BUILD_TIME"] = "1600000000"
        meta["SIZE"] = "42"
    for k, v in meta.items():
        with open(os.path.join(d, k), "w") as f:
            f.write(v + "\n")
    with open(os.path.join(d, "CONTENTS"), "w") as f:
        f.write(_contents_text(entries))
    with open(os.path.join(d, "environment.bz2"), "wb") as f:
        f.write(bz2.compress(_env_of(spec, tag)))
    with open(os.path.join(d, pf + ".ebuild"), "w") as f:
        f.write(_ebuild_of(spec, tag))
    return entries


BY_SPEC = {"slot": "9", "eapi": "8", "iuse": ["a"], "use_extra": [], "use_mask": 1, "desc": "bystander", "depend": "",
           "rdepend": "dev-libs/x", "files": [0], "env_lines": 2}


class World:
    """directories of one scenario: src vdb + images (read-only), template of the target, live copy"""

    def __init__(self, top, sc):
        from pkgcore.vdb import ondisk

        if sc["repo"] == "binpkg":
            from pkgcore.binpkg import repository as binrepo

        self.sc = sc = normalise(sc)
        self.top = top
        self.repo_kind = sc["repo"]
        self.src = os.path.join(top, "src")
        self.live = os.path.join(top, "live")  # crash root: contains repo/ and pmtmp/
        self.template = os.path.join(top, "template")
        self.loc = os.path.join(self.live, "repo")
        tloc = os.path.join(self.template, "repo")
        os.makedirs(tloc)
        os.makedirs(os.path.join(self.template, "pmtmp"))
        op = sc["op"]
        self.old_cpv = f"{CAT}/{PN}-{sc['_ver_old']}" if op in ("replace", "uninstall") else None
        self.new_cpv = f"{CAT}/{PN}-{sc['_ver_new']}" if op in ("install", "replace") else None
        self.bystanders = []
        # --- source packages (what gets installed), read through pkgcore from a hand-written vdb
        os.makedirs(self.src)
        if self.new_cpv:
            self.new_entries = _write_vdb_pkg(self.src, CAT, PN, sc["_ver_new"], sc["new"], "NEW", os.path.join(top, "img-new"),
                                              foreign=False)
        by = []
        if sc["sibling"]:
            by.append((CAT, "sib", "1.0"))
        if sc["other_slot"]:
            by.append((CAT, PN, sc["_ver_by"]))
        by.append(("sys-apps", "other", "2"))
        for i, (c, n, v) in enumerate(by):
            self.bystanders.append(f"{c}/{n}-{v}")
        # --- pre-state of the target
        if self.repo_kind == "vdb":
            if self.old_cpv:
                self.old_entries = _write_vdb_pkg(tloc, CAT, PN, sc["_ver_old"], sc["old"], "OLD", os.path.join(top, "img-old"))
            for i, (c, n, v) in enumerate(by):
                _write_vdb_pkg(tloc, c, n, v, BY_SPEC, f"BY{i}", os.path.join(top, f"img-by{i}"))
            if sc["needed"] and self.new_cpv:
                nd = os.path.join(self.template, "pmtmp", CAT, f"{PN}-{sc['_ver_new']}", "temp")
                os.makedirs(nd)
                with open(os.path.join(nd, "NEEDED"), "w") as f:
                    f.write("/usr/bin/tool libc.so.6\n")
                with open(os.path.join(nd, "NEEDED.ELF.2"), "w") as f:
                    f.write("X86_64;/usr/bin/tool;;;libc.so.6\n")
        else:
            # binpkg pre-state is produced by pkgcore itself from a second hand-written source vdb
            src0 = os.path.join(top, "src0")
            os.makedirs(src0)
            if self.old_cpv:
                self.old_entries = _write_vdb_pkg(src0, CAT, PN, sc["_ver_old"], sc["old"], "OLD", os.path.join(top, "img-old"),
                                                  foreign=False)
            for i, (c, n, v) in enumerate(by):
                _write_vdb_pkg(src0, c, n, v, BY_SPEC, f"BY{i}", os.path.join(top, f"img-by{i}"), foreign=False)
            t = binrepo.tree(tloc)
            for p in sorted(ondisk.tree(src0, disable_cache=True), key=lambda p: p.cpvstr):
                t.operations.install(_regen_contents(p)).finish()
            # a binpkg that gets replaced was not written this very second
            for dp, _dn, fns in os.walk(tloc):
                for fn in fns:
                    if fn.endswith(".tbz2"):
                        os.utime(os.path.join(dp, fn), (MTIME0 + 500, MTIME0 + 500))
        self._src_tree = ondisk.tree(self.src, disable_cache=True)
        self.domain = SimpleNamespace(pm_tmpdir=os.path.join(self.live, "pmtmp"))
        self.reset()

    def reset(self):
        shutil.rmtree(self.live, ignore_errors=True)
        shutil.copytree(self.template, self.live, symlinks=True)

    # -- the operation under test (executed in the forked child) ---------------------------
    def tree(self):
        from pkgcore.binpkg import repository as binrepo
        from pkgcore.vdb import ondisk

        if self.repo_kind == "vdb":
            return ondisk.tree(self.loc)
        return binrepo.tree(self.loc)

    def new_pkg(self):
        from pkgcore.ebuild.atom import atom

        p = self._src_tree.match(atom("=" + self.new_cpv))[0]
        if self.repo_kind == "binpkg":
            p = _regen_contents(p)
        return p

    def operation(self):
        import logging

        from pkgcore.ebuild.atom import atom

        logging.getLogger("pkgcore").setLevel(logging.CRITICAL)  # child only: injected faults are logged by pkgcore
        sc = self.sc
        t = self.tree()
        op, kind, driver = sc["op"], self.repo_kind, sc["driver"]
        old = t.match(atom("=" + self.old_cpv))[0] if self.old_cpv else None
        if op == "uninstall":
            o = t.operations.uninstall(old)
            if kind == "vdb":
                o.remove_data()  # operations/domain.py: repo_remove, then finalize_repo
            o.finish()
            return
        new = self.new_pkg()
        if driver == "install_or_replace" and kind == "binpkg":
            t.operations.install_or_replace(new).finish()  # pmaint copy
            return
        if driver == "install_or_replace":
            o = t.operations.install_or_replace(new)
        elif op == "install":
            o = t.operations.install(new)
        else:
            o = t.operations.replace(old, new)
        if kind == "vdb":
            o.add_data(self.domain)  # operations/domain.py: repo_add(domain)
            if op == "replace" and hasattr(o, "remove_data"):
                o.remove_data()
        o.finish()


def _regen_contents(pkg):
    """what `pmaint copy` does for a package coming from a livefs repository"""
    from pkgcore.fs import contents, livefs
    from pkgcore.package import mutated

    new_contents = contents.contentsSet(mutable=True)
    for fsobj in pkg.contents:
        new_contents.add(livefs.gen_obj(fsobj.location))
    return mutated.MutatedPkg(pkg, {"contents": new_contents})


# ---------------------------------------------------------------------------------------------
# observation through a fresh repository object
# ---------------------------------------------------------------------------------------------

def _sha(b):
    return hashlib.blake2b(b, digest_size=12).hexdigest()


def _read_record(pkg):
    rec = {}
    for k in sorted(pkg.tracked_attributes):
        if k == "contents":
            ents = []
            for o in pkg.contents:
                e = ["file" if o.is_reg else "dir" if o.is_dir else "sym" if o.is_sym else type(o).__name__, o.location]
                if o.is_reg:
                    m = o.chksums.get("md5")
                    e.append("%032x" % m if isinstance(m, int) else str(m))
                    e.append(int(o.mtime))
                elif o.is_sym:
                    e.append(o.target)
                ents.append(e)
            rec[k] = sorted(ents)
        elif k == "environment":
            rec[k] = _sha(pkg.environment.bytes_fileobj().read())
        else:
            v = getattr(pkg, k)
            if isinstance(v, str):
                rec[k] = v
            elif isinstance(v, (tuple, list, set, frozenset)):
                rec[k] = sorted(str(x) for x in v)
            else:
                rec[k] = str(v)
    rec["ebuild"] = pkg.ebuild.bytes_fileobj().read().decode("utf8", "replace")
    return rec


def _raw_vdb(d):
    out = {}
    for n in sorted(os.listdir(d)):
        p = os.path.join(d, n)
        if os.path.isdir(p) and not os.path.islink(p):
            out[n] = "<dir>"
            continue
        with open(p, "rb") as f:
            b = f.read()
        if n == "COUNTER" and re.fullmatch(rb"\d+\n?", b):
            out[n] = "<int>"
        else:
            out[n] = _sha(b)
    return out


def observe(world):
    """{'listing': [cpv...], 'pkgs': {cpv: record | {'__error__': ..}}, 'raw': {cpv: ...}} or {'listing_error': ..}"""
    obs = {"listing": [], "pkgs": {}, "raw": {}}
    try:
        t = world.tree()
        pkgs = sorted(t, key=lambda p: p.cpvstr)
    except Exception as e:  # noqa: BLE001 - a listing failure is an observation, judged by the oracle
        return {"listing_error": f"{type(e).__name__}: {str(e)[:200]}"}
    for p in pkgs:
        cpv = p.cpvstr
        obs["listing"].append(cpv)
        try:
            obs["pkgs"][cpv] = _read_record(p)
        except Exception as e:  # noqa: BLE001 - unreadable package = partial package, judged by the oracle
            obs["pkgs"][cpv] = {"__error__": f"{type(e).__name__}: {str(e)[:160]}".replace(world.top, "<top>")}
        try:
            if world.repo_kind == "vdb":
                obs["raw"][cpv] = _raw_vdb(os.path.join(world.loc, p.category, f"{p.package}-{p.fullver}"))
            else:
                with open(os.path.join(world.loc, p.category, f"{p.package}-{p.fullver}.tbz2"), "rb") as f:
                    obs["raw"][cpv] = _sha(f.read())
        except OSError as e:
            obs["raw"][cpv] = f"<unreadable {type(e).__name__}>"
    return obs


# ---------------------------------------------------------------------------------------------
# model of the completed operation
# ---------------------------------------------------------------------------------------------

def check_completed(world, obs_old, obs_new):
    """independent expectations for the pre-state and the uninterrupted run; returns list of problems"""
    sc = world.sc
    problems = []
    want_old = sorted(world.bystanders + ([world.old_cpv] if world.old_cpv else []))
    want_new = sorted(world.bystanders + ([world.new_cpv] if world.new_cpv else []))
    if obs_old.get("listing") != want_old:
        problems.append(("harness", f"pre-state listing {obs_old.get('listing', obs_old)} != model {want_old}"))
    if obs_new.get("listing") != want_new:
        problems.append(("listing", f"post-state listing {obs_new.get('listing', obs_new)} != model {want_new}"))
        return problems
    for cpv in world.bystanders:
        if obs_old["pkgs"].get(cpv) != obs_new["pkgs"].get(cpv) or obs_old["raw"].get(cpv) != obs_new["raw"].get(cpv):
            problems.append(("bystander", f"{cpv} changed by the operation"))
    if world.new_cpv:
        rec = obs_new["pkgs"][world.new_cpv]
        spec = sc["new"]
        if "__error__" in rec:
            problems.append(("unreadable", rec["__error__"]))
            return problems
        exp = {
            "description": _desc_of(spec, "NEW"),
            "fullslot": spec["slot"],
            "use": _use_of(spec),
            "environment": _sha(_env_of(spec, "NEW")),
            "ebuild": _ebuild_of(spec, "NEW"),
            "source_repository": "gentoo",
        }
        for k, v in exp.items():
            if rec.get(k) != v:
                problems.append((f"attr-{k}", f"{k}: stored {rec.get(k)!r}, given {v!r}"))
        got = {(e[0], e[1]) + tuple(e[2:]) for e in rec["contents"]}
        want = set()
        for t, p, x in world.new_entries:
            if t == "dir":
                want.add(("dir", p))
            elif t == "obj":
                want.add(("file", p, x["md5"], x["mtime"]))
            else:
                want.add(("sym", p, x["target"]))
        if world.repo_kind == "vdb":
            if got != want:
                problems.append(("attr-contents", f"contents differ: {sorted(got ^ want)[:4]}"))
        else:
            # the tarball adds the leading directories of the image path
            missing = {w for w in want if w not in got}
            if missing:
                problems.append(("attr-contents", f"contents missing: {sorted(missing)[:4]}"))
    if world.repo_kind == "vdb" and world.new_cpv:
        raw = obs_new["raw"][world.new_cpv]
        for need in ("COUNTER", "PKGMANAGER", "CONTENTS", "environment.bz2", f"{PN}-{sc['_ver_new']}.ebuild"):
            if need not in raw:
                problems.append((f"raw-missing-{need.split('-')[0]}", f"{need} missing in the installed entry"))
        if raw.get("COUNTER") != "<int>":
            problems.append(("raw-counter", "COUNTER is not an integer"))
        if sc["needed"] and ("NEEDED" not in raw or "NEEDED.ELF.2" not in raw):
            problems.append(("raw-needed", "NEEDED files not carried over"))
    return problems


# ---------------------------------------------------------------------------------------------
# event signatures and verdicts
# ---------------------------------------------------------------------------------------------

def _role(world, rel, generic=True):
    """symbolic role of a path (relative to the crash root) for bucket keys"""
    if rel is None:
        return "none"
    sc = world.sc
    parts = rel.split("/")
    if parts[0] == "pmtmp":
        return "pmtmp"
    if parts[0] != "repo":
        return "outside"
    if len(parts) == 1:
        return "root"
    if len(parts) == 2:
        if parts[1] == "Packages":
            return "Packages"
        if parts[1] == ".update.Packages":
            return "Packages.tmp"
        return "catdir" if parts[1] == CAT else "othercat"
    if parts[1] != CAT:
        return "bystander"
    name = re.sub(r"^\.tmp\.\d+\.", ".tmp.PID.", parts[2])
    ext = ".tbz2" if world.repo_kind == "binpkg" else ""
    oldn = f"{PN}-{sc['_ver_old']}{ext}" if world.old_cpv else None
    newn = f"{PN}-{sc['_ver_new']}{ext}" if world.new_cpv else None
    if name == oldn and name == newn:
        role = "pkg"
    elif name == oldn:
        role = "old"
    elif name == newn:
        role = "new"
    elif newn and name in (f".tmp.{newn}", f".tmp.PID.{newn}"):
        role = "tmp"
    elif name.startswith(".tmp."):
        # some other hidden name derived from the affected entries
        if oldn and newn and oldn == newn and name.endswith(oldn):
            role = "hidden-pkg"
        elif oldn and name.endswith(oldn):
            role = "hidden-old"
        elif newn and name.endswith(newn):
            role = "hidden-new"
        else:
            role = "hidden-other"
    else:
        role = "bystander"
    if len(parts) > 3:
        role += "/FILE" if generic else "/" + "/".join(parts[3:])
    return role


def signature(world, ev, generic=True):
    s = ev["ev"] + ":" + _role(world, ev.get("path"), generic)
    if "path2" in ev:
        s += "->" + _role(world, ev.get("path2"), generic)
    return s


def verdict(world, obs, obs_old, obs_new):
    if obs == obs_old:
        return "old", ""
    if obs == obs_new:
        return "new", ""
    if "listing_error" in obs:
        return "listing-error", obs["listing_error"]
    for cpv in world.bystanders:
        if cpv not in obs["listing"] or obs["pkgs"].get(cpv) != obs_old["pkgs"].get(cpv) or obs["raw"].get(cpv) != obs_old["raw"].get(cpv):
            return "bystander-damaged", f"{cpv}: {obs['pkgs'].get(cpv, 'not listed')!r}"[:300]
    affected = [c for c in (world.old_cpv, world.new_cpv) if c]
    listed = [c for c in dict.fromkeys(affected) if c in obs["listing"]]
    extra = [c for c in obs["listing"] if c not in affected and c not in world.bystanders]
    if extra:
        return "unexpected-entry", f"listed {extra}"
    if not listed:
        return "neither", f"no version of {CAT}/{PN} listed (old {world.old_cpv}, new {world.new_cpv})"

    def complete(cpv, ref):
        return cpv in ref.get("listing", ()) and obs["pkgs"][cpv] == ref["pkgs"][cpv] and obs["raw"][cpv] == ref["raw"][cpv]

    if len(listed) == 2:
        if complete(world.old_cpv, obs_old) and complete(world.new_cpv, obs_new):
            return "both", f"{world.old_cpv} and {world.new_cpv} listed together"
    for cpv in listed:
        if not (complete(cpv, obs_old) or complete(cpv, obs_new)):
            rec = obs["pkgs"][cpv]
            if "__error__" in rec:
                return "partial", f"{cpv} listed but unreadable: {rec['__error__']}"
            ref = obs_old if cpv in obs_old.get("listing", ()) else obs_new
            diff = sorted(k for k in set(rec) | set(ref["pkgs"][cpv]) if rec.get(k) != ref["pkgs"][cpv].get(k))
            rawd = []
            if isinstance(obs["raw"][cpv], dict) and isinstance(ref["raw"][cpv], dict):
                rawd = sorted(k for k in set(obs["raw"][cpv]) | set(ref["raw"][cpv]) if obs["raw"][cpv].get(k) != ref["raw"][cpv].get(k))
            return "partial", f"{cpv} listed, differs from complete state in attrs {diff[:6]} files {rawd[:6]} ({len(rawd)} files)"
    return "mixed-listing", f"listing {obs['listing']} is neither the old nor the new set"


# ---------------------------------------------------------------------------------------------
# running one scenario
# ---------------------------------------------------------------------------------------------

def _shape(sc):
    return f"{int(sc['sibling'])}{int(sc['other_slot'])}{int(sc['needed'])}{min(len(sc['new']['files']), 2)}{min(len(sc['old']['files']), 2)}"


def prepare(ctx, sc):
    """build the world, take pre/post observations, event log. returns (world, obs_old, obs_new, events) or None"""
    case0 = {"scenario": _public(sc)}
    # the binpkg pre-state is produced with pkgcore's own install: a failure in there is a finding, not a harness error
    world = core.guarded(ctx, case0, lambda: World(ctx.fresh_dir("w"), sc))
    if core.crashed(world):
        return None
    sc = world.sc
    obs_old = observe(world)
    res = crash.dry_run(world.operation, [world.live])
    if res.status != "completed":
        b = f"{sc['repo']}:{sc['op']}:uninterrupted-run-failed"
        ctx.violation(b, case0, f"operation did not complete without injection: {res.status} {res.exc}")
        return None
    obs_new = observe(world)
    for kind, msg in check_completed(world, obs_old, obs_new):
        if kind == "harness":
            if sc["repo"] == "vdb":
                raise core.HarnessError(msg)  # hand-written pre-state
            kind = "pre-state"
        ctx.violation(f"{sc['repo']}:{sc['op']}:completed-run:{kind}", case0, msg)
    if obs_old == obs_new:
        ctx.violation(f"{sc['repo']}:{sc['op']}:completed-run:no-effect", case0, "the operation completed without any observable effect")
        return None
    return world, obs_old, obs_new, res.events


def _public(sc):
    return {k: v for k, v in sc.items() if not k.startswith("_")}


def run_point(ctx, world, obs_old, obs_new, events, k, mode, record=True):
    sc = world.sc
    ev = events[k - 1]
    sig = signature(world, ev)
    sig_full = signature(world, ev, generic=False)
    occ = sum(1 for e in events[:k] if signature(world, e, generic=False) == sig_full)
    case = {"scenario": _public(sc), "event": {"sig": sig_full, "occurrence": occ}, "mode": mode}
    world.reset()
    res = crash.inject(world.operation, [world.live], k, mode)
    if res.status == "died":
        raise core.HarnessError(f"child died (code {res.code}) at {sig} {mode}")
    fired = res.status in ("crashed", "raised") or (mode == "eio" and res.status == "completed" and len(res.events) >= k)
    if res.status == "not-reached" or not fired or len(res.events) < k:
        ctx.count("point_not_reached")
        return None
    # the child must have followed the dry-run log up to the injection point
    if signature(world, res.events[k - 1], generic=False) != sig_full:
        ctx.count("event_log_diverged")
        return None
    performed = k if mode == "after" else k - 1
    obs = observe(world)
    v, detail = verdict(world, obs, obs_old, obs_new)
    if record:
        ctx.case(case, nontrivial=performed >= 1,
                 classes=[f"{sc['repo']}:{sc['op']}", f"mode:{mode}", f"verdict:{v}", f"ev:{ev['ev']}", f"status:{res.status}",
                          f"rel:{sc['relation']}", f"driver:{sc['driver']}"],
                 key=f"{sc['repo']}|{sc['op']}|{sc['relation']}|{sc['driver']}|{_shape(sc)}|{sig_full}|{occ}|{mode}")
    if v not in ("old", "new"):
        ctx.violation(f"{sc['repo']}:{sc['op']}:{v}@{sig}:{mode}", case,
                      f"after {mode} at event {k}/{len(events)} [{sig_full}] (child {res.status}"
                      f"{': ' + res.exc if res.exc else ''}): {detail}")
    _persist(ctx)
    return v


def _persist(ctx):
    """every judged injection point is worth keeping if the runner has to abandon this task (a point costs seconds under load)"""
    if getattr(ctx, "_ckpt_path", None):
        ctx.checkpoint()


def run_scenario(ctx, sc, max_points=None, pick=None, floor=0):
    """`floor`: number of (non-trivial) points judged even after the generation guard has passed (tiny task only:
    a run must not end empty-handed because the machine is busy; the runner's hard cap still applies)"""
    if ctx.out_of_time() and not floor:
        return
    prep = prepare(ctx, sc)
    if prep is None:
        return
    world, obs_old, obs_new, events = prep
    pts = crash.points(events)
    if max_points is not None and len(pts) > max_points:
        # deterministic slice of a finite space: keep every rename/mkdir/rmdir/utime event, thin out the bulk ones
        bulk = ("open", "os.remove", "os.chmod", "os.chown")  # many alike (metadata files written / entry files unlinked)
        keep = [p for p in pts if events[p[0] - 1]["ev"] not in bulk]
        rest = [p for p in pts if events[p[0] - 1]["ev"] in bulk]
        pick.shuffle(rest)
        pts = sorted(keep + rest[: max(0, max_points - len(keep))])
    ctx.count("scenarios")
    ctx.count("events", len(events))
    if floor:
        pts.sort(key=lambda p: (p[0] == 1 and p[1] != "after", p))  # points with an intermediate on-disk state first
    for i, (k, mode) in enumerate(pts):
        if i >= floor and ctx.out_of_time():
            break
        run_point(ctx, world, obs_old, obs_new, events, k, mode)
    shutil.rmtree(world.top, ignore_errors=True)


COMBOS = [("vdb", "install"), ("vdb", "replace"), ("vdb", "uninstall"), ("binpkg", "install"), ("binpkg", "replace"),
          ("binpkg", "uninstall")]
N_SCEN = {
    "quick": {"vdb": (2, 1), "binpkg": (1, 2)},  # (tasks per combo, scenarios per task); ~1 s CPU per crash point
    "thorough": {"vdb": (5, 10), "binpkg": (3, 20)},
}


_TINY_PKG = {"slot": "0", "eapi": "8", "iuse": [], "use_extra": [], "use_mask": 0, "desc": "tiny", "depend": "", "rdepend": "",
             "files": [0], "env_lines": 1}
TINY = [  # fewest events / cheapest set-up: judged within the first seconds of a run, whatever the load
    {"repo": "vdb", "op": "uninstall", "old": _TINY_PKG, "new": _TINY_PKG, "ver": "1", "ver2": "1", "sibling": False, "other_slot": False,
     "needed": False, "relation": "same", "driver": "staged"},
    {"repo": "binpkg", "op": "uninstall", "old": _TINY_PKG, "new": _TINY_PKG, "ver": "1", "ver2": "1", "sibling": False,
     "other_slot": False, "needed": False, "relation": "same", "driver": "staged"},
]


CORE_REVBUMP = {"repo": "vdb", "op": "replace", "old": _TINY_PKG, "new": dict(_TINY_PKG, desc="bumped", files=[1]), "ver": "1.2",
                "ver2": "1.2", "sibling": True, "other_slot": False, "needed": False, "relation": "revbump", "driver": "staged"}


def plan(tier, seed):
    tasks = []
    only = [x for x in os.environ.get("VF_C29_ONLY", "").split(",") if x]  # development aid: "vdb:install,binpkg:replace"
    if not only:
        tasks.append({"task": "tiny"})
        tasks.append({"task": "core"})
    # cheap combinations first, so that a run under load has covered every repo kind before the budget guard hits
    for repo, op in sorted(COMBOS, key=lambda c: (c[0] != "binpkg", ["uninstall", "install", "replace"].index(c[1]))):
        if only and f"{repo}:{op}" not in only:
            continue
        nt, n = N_SCEN[tier][repo]
        for i in range(nt):
            tasks.append({"task": "scen", "repo": repo, "op": op, "n": n, "part": i})
    return tasks


WARM = {"slot": "0", "eapi": "8", "iuse": ["a"], "use_extra": [], "use_mask": 1, "desc": "w", "depend": "dev-libs/x",
        "rdepend": "a? ( dev-libs/y )", "files": [0, 3, 5], "env_lines": 1}


_WARM = set()


def warm_up(ctx, repo):
    """run every operation once in this process so that forked children do not pay for (lazy) imports"""
    if repo in _WARM:
        return
    _WARM.add(repo)
    for op in ("replace",):  # add_data + both finalize paths: loads everything install and uninstall need as well
        sc = {"repo": repo, "op": op, "old": WARM, "new": WARM, "ver": "1", "ver2": "1.2", "sibling": False, "other_slot": False,
              "needed": repo == "vdb", "relation": "same", "driver": "staged"}
        w = World(ctx.fresh_dir("warm"), sc)
        observe(w)
        try:
            w.operation()
        except Exception:  # noqa: BLE001 - warm-up only loads code; outcomes are judged in run_scenario
            pass
        observe(w)
        shutil.rmtree(w.top, ignore_errors=True)


def run_task(ctx, task, repo=None, op=None, n=0, part=0):
    import random

    if task == "tiny":
        # no warm-up: the few children pay for their own lazy imports, the first point is judged at once
        pick = random.Random(ctx.seed)
        run_scenario(ctx, TINY[0], 8, pick, floor=3)
        run_scenario(ctx, TINY[1], 8, pick)
        return
    if ctx.out_of_time():
        return
    if task == "core":
        # fixed family visited by every run: vdb replace by a revision-only bump (entry names differ, version equal),
        # all rename/rmdir/utime points, a few of the bulk ones
        warm_up(ctx, "vdb")
        run_scenario(ctx, dict(CORE_REVBUMP), 16, random.Random(ctx.seed + 1))
        return
    warm_up(ctx, repo)

    pick = random.Random(ctx.seed * 7919 + part * 101 + COMBOS.index((repo, op)))
    limit = None
    if ctx.tier == "quick" and repo == "vdb":
        limit = 30
    relation = ("same", "other", "revbump")[part % 3] if (repo, op) == ("vdb", "replace") else None
    core.hyp_run(ctx, scenario_strategy(repo, op, relation), lambda sc: run_scenario(ctx, sc, limit, pick), n, chunk=n,
                 seed_salt=part * 17 + COMBOS.index((repo, op)))


def replay(ctx, case):
    sc = case["scenario"]
    prep = prepare(ctx, sc)  # no warm-up: a replay is one injection
    if prep is None:
        return
    world, obs_old, obs_new, events = prep
    if "event" not in case:
        return
    want, occ, n = case["event"]["sig"], case["event"]["occurrence"], 0
    for ev in events:
        if signature(world, ev, generic=False) == want:
            n += 1
            if n == occ:
                run_point(ctx, world, obs_old, obs_new, events, ev["k"], case["mode"])
                return
    ctx.count("replay_event_absent")
