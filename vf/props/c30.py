"""C30 World-file updates record exactly the requested entries.

Generated: an existing world file (atom lines over a small pool of cat/pkg keys, some slotted, some versioned,
comments/blank lines, with or without trailing newline) and a history of operations against
`pkgsets.filelist.WorldFile`: add / remove of an atom through `pmerge.update_worldset` (the call site: add+flush,
remove+flush, KeyError on remove swallowed without flush) or directly (add/remove, explicit flush, re-open).
Atoms carry slots of every valid PMS shape (0, single char, multi-char, dotted, with + _ -, subslot, slot
operator) in the spellings callers use (`cat/pkg`, `cat/pkg:slot`, `=cat/pkg-ver`, `=cat/pkg-ver:slot`, `cat/pkg:slot/sub=`).

Oracle: a model set of strings written independently of pkgcore: add/remove touch exactly `key` (slot None or
"0") or `key:slot`; every other line stays (as a set of atom strings); after each flush the file's non-comment
lines, read by the harness itself, equal the model, without duplicates; a fresh WorldFile sees the same set.

Crash enumeration (vf.crash): the last flushing operation is stopped before/after/with EIO at every mutating
filesystem event below the directory of the world file; the world file bytes must equal the old bytes or
the complete new bytes (and new if the call returned).

Dropped from DESIGN: `@set` lines (documented as wiped on update), use-dep / blocker atoms (never recorded in world).
`pmerge.slotatom_if_slotted` needs live repos and only ever hands unslotted versioned atoms on; not driven.
"""
import os
import shutil

from hypothesis import strategies as st

from .. import core
from ..ref import faultpoints as fp

ID = "C30"
TITLE = "World-file updates record exactly the requested entries"
LEVEL = "fault_enumeration"
TECHNIQUE = "model-based add/remove/flush histories (hypothesis) over slot shapes + crash/EIO injection at every file operation of the flush"
DESIGN_REF = "DESIGN.md §3 C30"
LEVEL_TEXT = (
    "Generated world files and add/remove/flush histories (through pmerge.update_worldset and directly) are compared "
    "with a string-set model after every flush; each Python-visible mutating filesystem event of the final flush is "
    "used as a crash / EIO point after which the world file must be the complete old or complete new file."
)
LEVEL_NOTE = (
    "Crash points are Python-level file operations (audit events); os._exit drops buffered data; torn block writes "
    "and fsync ordering are not modelled. No proof of absence."
)
RULE = (
    "case = initial world text (0-6 entries over 2-4 keys, comments, blank lines) + 1-6 ops (add/remove via "
    "update_worldset or direct, flush, reopen) with atoms whose slot is none/0/single-char/multi-char/dotted/"
    "subslotted; crash cases enumerate all (event, mode) points of the last flushing op. non-trivial = some add/remove "
    "uses a slot longer than one character (or containing '.') while the world file holds at least one other entry; "
    "distinct = canonical JSON of the case"
)
ASSUMPTIONS = [
    "'non-zero slot' in the statement means a slot string other than \"0\"; subslot and slot operator are not recorded",
    "world entries are compared as a set of atom strings; comments and blank lines are not entries",
    "a crash is process death at a Python-visible filesystem operation; buffered data is lost",
]
BUDGET = {"quick": 50, "thorough": 900}


def _imports():
    from pkgcore.ebuild.atom import atom
    from pkgcore.pkgsets import filelist
    from pkgcore.scripts import pmerge

    return atom, filelist, pmerge


# ---------------------------------------------------------------- generators

_AL = "abcdefghijklmnopqrstuvwxyzABCDEFGHIJKLMNOPQRSTUVWXYZ0123456789"
_slot = st.one_of(
    st.sampled_from(["0", "1", "2", "10", "3.11", "stable", "2+x_y-z", "00", "0.1", "_a", "5.4.3", "A", "1.2", "22"]),
    st.builds(lambda a, b: a + b, st.sampled_from(list(_AL + "_")), st.text(alphabet=_AL + "+_.-", max_size=6)),
)
_key = st.builds(
    lambda c, p: f"{c}/{p}",
    st.sampled_from(["dev-util", "sys-libs", "app-misc", "dev-lang", "x11-base"]),
    st.one_of(
        st.sampled_from(["diffball", "bsdiff", "python", "gcc", "lib", "foo-bar", "a"]),
        st.builds(lambda a, b: a + b, st.sampled_from(list(_AL[:52])), st.text(alphabet=_AL[:52] + "_+", max_size=6)),
    ),
)
_ver = st.sampled_from(["1", "0.4", "2.7.18", "10", "1.0-r1", "3_p2"])


def _entry(keys):
    """a line of an existing world file"""
    return st.one_of(
        st.sampled_from(keys),
        st.sampled_from(keys),
        st.builds(lambda k, s: f"{k}:{s}", st.sampled_from(keys), _slot.filter(lambda s: s != "0")),
        st.builds(lambda k, v: f"={k}-{v}", st.sampled_from(keys), _ver),
    )


def _arg_atom(keys):
    """(atom text handed to add/remove)"""
    k = st.sampled_from(keys)
    return st.one_of(
        k,
        st.builds(lambda k, s: f"{k}:{s}", k, _slot),
        st.builds(lambda k, s: f"{k}:{s}", k, _slot),
        st.builds(lambda k, v: f"={k}-{v}", k, _ver),
        st.builds(lambda k, v, s: f"={k}-{v}:{s}", k, _ver, _slot),
        st.builds(lambda k, s, ss, op: f"{k}:{s}/{ss}{op}", k, _slot, _slot, st.sampled_from(["", "="])),
        st.builds(lambda k, s: f"{k}:{s}=", k, _slot),
        st.builds(lambda k, op: f"{k}:{op}", k, st.sampled_from(["*", "="])),
    )


@st.composite
def cases(draw, crash_case=False):
    keys = draw(st.lists(_key, unique=True, min_size=2, max_size=4))
    entries = draw(st.lists(_entry(keys), min_size=draw(st.sampled_from([0, 1, 1, 1, 2, 3])), max_size=6))
    lines = []
    for e in entries:
        r = draw(st.integers(min_value=0, max_value=9))
        if r == 0:
            lines.append("# a comment")
        elif r == 1:
            lines.append("")
        lines.append(e)
    text = "\n".join(lines)
    if lines and draw(st.booleans()):
        text += "\n"
    ops = []
    for _ in range(draw(st.integers(min_value=1, max_value=6))):
        kind = draw(st.sampled_from(["add", "add", "add", "remove", "remove", "flush", "reopen"]))
        if kind in ("add", "remove"):
            if kind == "remove" and entries and draw(st.booleans()):
                # aim at something that is there: the spelling of an existing line
                a = draw(st.sampled_from(entries))
            else:
                a = draw(_arg_atom(keys))
            ops.append({"op": kind, "atom": a, "via": draw(st.sampled_from(["pmerge", "pmerge", "direct"]))})
        else:
            ops.append({"op": kind})
    if crash_case:
        a = draw(_arg_atom(keys))
        ops.append({"op": "add", "atom": a, "via": draw(st.sampled_from(["pmerge", "direct+flush"]))})
    return {"world": text, "ops": ops, "crash": bool(crash_case)}


# ---------------------------------------------------------------- model (pure strings, no pkgcore)

def split_atom(text):
    """(key, slot or None) of the simple atom spellings this module generates"""
    t = text
    slot = None
    if ":" in t:
        t, rest = t.split(":", 1)
        rest = rest.rstrip("=*")
        rest = rest.split("/", 1)[0]
        slot = rest or None
    if t.startswith("="):
        t = t[1:]
        # strip the version: last hyphen-separated token starting with a digit (and a possible -rN)
        parts = t.split("-")
        if len(parts) > 2 and parts[-1].startswith("r") and parts[-1][1:].isdigit() and parts[-2][:1].isdigit():
            parts = parts[:-2]
        else:
            parts = parts[:-1]
        t = "-".join(parts)
    return t, slot


def world_entry(text):
    key, slot = split_atom(text)
    return key if slot in (None, "0") else f"{key}:{slot}"


def file_entries(text):
    out = []
    for line in (text or "").split("\n"):
        line = line.strip()
        if not line or line.startswith("#"):
            continue
        out.append(line)
    return out


def slot_class(text):
    _, slot = split_atom(text)
    if slot is None:
        return "unslotted"
    if slot == "0":
        return "slot0"
    if len(slot) == 1:
        return "singlechar-slot"
    return "multichar-slot"


# ---------------------------------------------------------------- driving pkgcore

class Env:
    def __init__(self):
        self.atom, self.filelist, self.pmerge = _imports()

    def open(self, path):
        return self.filelist.WorldFile(path, gid=os.getgid(), mode=0o644)


def _read(path):
    try:
        with open(path, "rb") as f:
            return f.read()
    except FileNotFoundError:
        return None


def _apply(env, w, op):
    """perform one add/remove op on WorldFile `w`; returns True if it flushed; KeyError propagates for direct removes"""
    a = env.atom(op["atom"])
    if op["via"] == "pmerge":
        env.pmerge.update_worldset(w, a, remove=(op["op"] == "remove"))
        return None  # flushed unless KeyError was swallowed: the model decides
    if op["op"] == "add":
        w.add(a)
    else:
        w.remove(a)
    if op["via"] == "direct+flush":
        w.flush()
        return True
    return False


def check_case(ctx, case, env=None):
    env = env or Env()
    cl = []
    init = file_entries(case["world"])
    n_multi = 0
    for op in case["ops"]:
        if op["op"] in ("add", "remove"):
            c = slot_class(op["atom"])
            cl.append(f"{op['op']}_{c}")
            _, slot = split_atom(op["atom"])
            if slot and (len(slot) > 1 or "." in slot):
                n_multi += 1
            if "/" in op["atom"].split(":", 1)[-1] and ":" in op["atom"]:
                cl.append("subslot_given")
            if op["atom"].startswith("="):
                cl.append("versioned_atom")
    if not init:
        cl.append("empty_world_file")
    if "#" in case["world"]:
        cl.append("comment_line")
    if any(":" in e for e in init):
        cl.append("existing_slotted_entry")
    if case["crash"]:
        cl.append("crash_case")
    cl = sorted(set(cl))
    d = ctx.fresh_dir("c30")
    try:
        n = _check(ctx, env, case, d)
    finally:
        shutil.rmtree(d, ignore_errors=True)
    ctx.case(case, nontrivial=n_multi > 0 and len(init) >= 1, classes=cl, n=max(1, n))


def _verify_disk(ctx, case, path, disk, when, opdesc):
    raw = _read(path)
    if raw is None:
        ctx.violation("flush:file-missing", case, f"{when}: world file vanished")
        return False
    got = file_entries(raw.decode("utf8", "replace"))
    want = sorted(disk or ())
    if sorted(got) != want:
        b = f"{opdesc[0]}:wrong-entries:{opdesc[1]}" if opdesc else "flush:wrong-entries"
        ctx.violation(b, case, f"{when}: world file holds {sorted(got)}, expected {want}")
        return False
    return True


def _check(ctx, env, case, d):
    path = os.path.join(d, "world")
    with open(path, "w") as f:
        f.write(case["world"])
    disk = set(file_entries(case["world"]))
    disk_raw = _read(path)
    # note: entries of an existing file keep their spelling (str(atom) of the simple forms is the identity)
    mem = set(disk or ())
    dirty = False
    evals = 0
    ops = case["ops"]
    upto = len(ops) - 1 if case["crash"] else len(ops)

    def reopen():
        return core.guarded(ctx, case, lambda: env.open(path))

    w = reopen()
    if core.crashed(w):
        return evals
    last_mod = None
    for i, op in enumerate(ops[:upto]):
        when = f"op #{i} {op}"
        kind = op["op"]
        if kind == "reopen":
            w = reopen()
            mem = set(disk or ())
            continue
        if kind == "flush":
            r = core.guarded(ctx, case, w.flush)
            if core.crashed(r):
                return evals
            disk = set(mem)
            evals += 1
            if not _verify_disk(ctx, case, path, disk, when, last_mod):
                return evals
            disk_raw = _read(path)
            continue
        entry = world_entry(op["atom"])
        desc = (kind, slot_class(op["atom"]))
        last_mod = desc
        present = entry in mem
        try:
            r = core.guarded(ctx, case, lambda op=op: _apply(env, w, op), expected=(KeyError,))
        except KeyError as e:
            evals += 1
            if kind == "remove" and op["via"] != "pmerge" and not present:
                # contract: removing what is not there raises KeyError -- and nothing changes
                seen = core.guarded(ctx, case, lambda: sorted(str(a) for a in w))
                if core.crashed(seen):
                    return evals
                if seen != sorted(mem):
                    ctx.violation(f"remove:wrong-entries:{desc[1]}", case, f"{when}: KeyError for absent {entry!r}, yet the set changed to {seen}, expected {sorted(mem)}")
                    return evals
                continue
            ctx.violation(f"{kind}:keyerror:{desc[1]}", case, f"{when}: KeyError({e}) although {entry!r} {'is' if present else 'is not'} in {sorted(mem)}")
            return evals
        if core.crashed(r):
            return evals
        evals += 1
        if kind == "remove" and not present:
            if op["via"] != "pmerge":
                ctx.violation(f"remove:no-keyerror:{desc[1]}", case, f"{when}: removing absent {entry!r} did not raise")
                return evals
            flushed = False  # update_worldset swallows the KeyError and skips the flush
        else:
            if kind == "add":
                mem.add(entry)
            else:
                mem.discard(entry)
            flushed = True if op["via"] == "pmerge" else bool(r)
        # in-memory view
        seen = core.guarded(ctx, case, lambda: sorted(str(a) for a in w))
        if core.crashed(seen):
            return evals
        if seen != sorted(mem):
            ctx.violation(f"{kind}:wrong-entries:{desc[1]}", case, f"{when}: set holds {seen}, expected {sorted(mem)}")
            return evals
        if flushed:
            disk = set(mem)
            if not _verify_disk(ctx, case, path, disk, when, desc):
                return evals
            disk_raw = _read(path)
        elif _read(path) != disk_raw:
            ctx.violation(f"{kind}:unexpected-write", case, f"{when}: no flush expected, yet the file changed to {_read(path)!r}")
            return evals
    # a fresh object must see what is on disk
    if True:
        fresh = core.guarded(ctx, case, lambda: sorted(str(a) for a in env.open(path)))
        if core.crashed(fresh):
            return evals
        evals += 1
        if fresh != sorted(disk):
            ctx.violation("reopen:wrong-entries", case, f"fresh WorldFile reads {fresh}, file should hold {sorted(disk)}")
            return evals
    if not case["crash"]:
        return evals
    return evals + _crash_part(ctx, env, case, d, mem, ops[-1], w is not None)


def _crash_part(ctx, env, case, pristine, mem, op, _unused):
    """the last op (an add that flushes) under injection. Unflushed in-memory changes of the history are
    replayed by giving the child a WorldFile whose set equals the model `mem` (loaded from a side file)."""
    base = ctx.fresh_dir("c30w")
    evals = 0
    entry = world_entry(op["atom"])
    desc = ("add", slot_class(op["atom"]))
    new_set = set(mem) | {entry}
    try:
        def fresh(tag):
            w = os.path.join(base, f"w{tag}")
            shutil.copytree(pristine, w)
            return w

        def make_op(wd):
            path = os.path.join(wd, "world")

            def run():
                w = env.open(path)
                # bring the object to the model's in-memory state without touching the file
                w._atoms = {env.atom(x) for x in sorted(mem)}
                _apply(env, w, op)

            return run

        wd = fresh("dry")
        old = _read(os.path.join(wd, "world"))
        dry = fp.log_run(make_op(wd), [wd])
        evals += 1
        if dry.status != "completed":
            exc = (dry.exc or dry.status).split(":")[0]
            ctx.violation(f"add:raised:{exc}:{desc[1]}", case, f"final add of {op['atom']!r} without injection: {dry.status} {dry.exc}")
            return evals
        new = _read(os.path.join(wd, "world"))
        if not _verify_disk(ctx, case, os.path.join(wd, "world"), new_set, "final add (dry run)", desc):
            return evals
        ctx.count("events_total", len(dry.events))
        for k, mode, res, wd in fp.injections(ctx, dry.events, fresh, make_op):
            ev = dry.events[k - 1]
            what = f"{mode} event {k}/{len(dry.events)} {ev['ev']} {ev.get('path')}"
            got = _read(os.path.join(wd, "world"))
            evals += 1
            if got != old and got != new:
                kind = "truncated" if got == b"" else ("missing" if got is None else "partial")
                ctx.violation(f"atomic:world-{kind}", case, f"{what}: world file is {got!r}; old={old!r} new={new!r}")
            elif res.status == "completed" and got != new:
                ctx.violation("atomic:completed-flush-not-visible", case, f"{what}: flush returned but the file is still old")
    finally:
        shutil.rmtree(base, ignore_errors=True)
    return evals


# ---------------------------------------------------------------- runner glue

def smoke_cases():
    """small deterministic family run first on every run: every slot shape through add and remove (pmerge call site and
    direct), removal of a slot when only the unslotted / another entry is recorded (must leave it alone), re-open,
    and flushes under full crash/EIO enumeration incl. death right after each rename"""
    world = "# world\ndev-lang/python\ndev-lang/python:3.11\n\ndev-util/a\ndev-util/b:2\n=dev-util/c-1.0-r1\nsys-libs/z:stable\n"
    out = []
    for via in ("pmerge", "direct"):
        ops = []
        for a in ("dev-util/y:10", "dev-util/x:3.11", "dev-util/w:0", "=dev-util/v-2.7.18", "=dev-util/u-1.0-r1:2+x_y-z",
                  "dev-util/t:5.4.3/9=", "dev-util/s:*", "dev-util/r:_a", "dev-util/a:2"):
            ops.append({"op": "add", "atom": a, "via": via})
        ops.append({"op": "flush"})
        for a in ("dev-lang/python:3.11", "sys-libs/z:stable", "dev-util/y:10", "dev-util/b:2/3=", "=dev-util/a-1:0"):
            ops.append({"op": "remove", "atom": a, "via": via})
        ops += [{"op": "flush"}, {"op": "reopen"}]
        out.append({"world": world, "ops": ops, "crash": False})
        # removing a slot that is not recorded must not touch the unslotted / differently slotted entry
        for a in ("dev-lang/python:3.12", "dev-util/a:1", "dev-util/b:22", "dev-util/b:0", "sys-libs/z:0", "dev-util/nothere:3.11"):
            out.append({"world": world, "ops": [{"op": "remove", "atom": a, "via": via}, {"op": "flush"}, {"op": "reopen"}], "crash": False})
    for a, v in (("dev-util/y:3.11", "pmerge"), ("=dev-util/q-1.0", "direct+flush"), ("dev-lang/python", "pmerge")):
        out.append({"world": world, "ops": [{"op": "remove", "atom": "dev-util/a", "via": "direct"},
                                            {"op": "add", "atom": a, "via": v}], "crash": True})
    out.append({"world": "", "ops": [{"op": "add", "atom": "dev-util/y:10", "via": "pmerge"}], "crash": True})
    return out


def _interleave(a, b):
    """alternate the two task kinds so that both make progress whatever the job count / budget"""
    out = []
    for i in range(max(len(a), len(b))):
        out += a[i:i + 1] + b[i:i + 1]
    return out


def plan(tier, seed):
    # quick is sized for the verification host (forked injections ~0.1 s each, not scaling over workers)
    if tier == "quick":
        return [{"task": "smoke"}] + _interleave([{"task": "hist", "examples": 150} for _ in range(8)],
                                                  [{"task": "crash", "examples": 12} for _ in range(4)])
    return [{"task": "smoke"}] + _interleave([{"task": "hist", "examples": 15000} for _ in range(16)],
                                              [{"task": "crash", "examples": 1200} for _ in range(16)])


def run_task(ctx, task, **kw):
    env = Env()
    if task == "smoke":
        for c in smoke_cases():
            check_case(ctx, c, env)
    elif task == "hist":
        core.hyp_run(ctx, cases(False), lambda c: None if ctx.out_of_time() else check_case(ctx, c, env), kw["examples"], chunk=150)
    elif task == "crash":
        core.hyp_run(ctx, cases(True), lambda c: None if ctx.out_of_time() else check_case(ctx, c, env), kw["examples"], chunk=12, seed_salt=7)
    else:
        raise core.HarnessError(f"unknown task {task}")


def replay(ctx, case):
    check_case(ctx, case)


def shrink_case(ctx, bucket, case):
    import copy

    env = Env()

    def hits(c):
        sub = core.Ctx(ID, ctx.tier, ctx.seed)
        try:
            check_case(sub, c, env)
        except Exception:  # noqa: BLE001
            return False
        finally:
            sub.cleanup()
        return bucket in sub.violations

    cur = copy.deepcopy(case)
    changed = True
    while changed:
        changed = False
        cands = []
        last = len(cur["ops"]) - (1 if cur["crash"] else 0)
        for i in range(last):
            c = copy.deepcopy(cur)
            del c["ops"][i]
            if c["ops"]:
                cands.append(c)
        if cur["world"]:
            lines = cur["world"].split("\n")
            for i in range(len(lines)):
                c = copy.deepcopy(cur)
                c["world"] = "\n".join(lines[:i] + lines[i + 1:])
                cands.append(c)
        for c in cands:
            if c != cur and hits(c):
                cur = c
                changed = True
                break
    return cur
