"""C38 Package-list rewriting touches only the lines it must.

Texts are generated *constructively* from a line grammar (indent, spec, (gap, keyword)*, trailing blanks, comment,
EOL), so the expected fields of every line are known without asking pkgcore.  Oracles:

  parse     entries correspond 1:1 to the generated lines (raw, eol, keywords, comment, pkg == the atom the spec
            denotes) and "".join(raw+eol) == text
  build     PackageList.build(entries) parses back to exactly those (atom, keywords) pairs
  expand    against vf.ref.bz.pl_expand (written from the module/`expand` docstrings): lines whose keywords do not
            change are byte-identical; a rewritten line keeps indent, spec spelling, the gap after the spec, the
            blanks before the comment, the comment and the EOL, and its keywords are the reference expansion;
            PackageListError exactly when the reference says `^` cannot be resolved
  with_keywords   same preservation rules for an arbitrary replacement keyword list on one line

Not demanded (statement does not): how the *new* keywords are spaced among themselves.
Lone "\\r" / VT / FF line breaks are not generated (statement names LF and CRLF only).
"""

import copy
import re

from hypothesis import strategies as st

from .. import core
from ..ref import bz as R

ID = "C38"
TITLE = "Package-list rewriting touches only the lines it must"
LEVEL = "exploration"
TECHNIQUE = "constructive line-grammar generator; round trip + differential vs. reference sentinel expansion and line splitter"
DESIGN_REF = "DESIGN.md §3 C38"
LEVEL_TEXT = (
    "Generated-input search: package lists assembled from a line grammar (comments, blank lines, CRLF, tabs, "
    "irregular gaps, sentinels, missing final EOL) with random suggestion tables; parse, build, expand and "
    "with_keywords are compared field by field with what the generator put in and with a reference expansion."
)
LEVEL_NOTE = "Trusted: vf/ref/bz.py pl_split_line/pl_expand (documented line syntax and sentinel rules). No proof of absence."
RULE = (
    "text cases: 1-7 lines from {entry line: indent spec (gap kw)* trail [comment] eol | blank | comment-only}, specs "
    "bare/=/>=/~/slotted, keywords arches/~arches/prefix/sentinels * ^ -/'amd64#x86', eol LF/CRLF/none(last); a "
    "suggestion function depending on the full atom (operator/version/slot; possibly empty), in a third of the cases all lines name one cat/pkg at different versions/slots (class same_key_different_version_lines), and a replacement keyword list for one line; non-trivial = has a "
    "sentinel line AND (a comment on an entry line, or non-single-space spacing, or CRLF). build cases: 1-6 "
    "(atom, keywords) pairs; non-trivial = >=2 entries with keywords. distinct = the text / the entry list"
)
ASSUMPTIONS = [
    "a '#' starts a comment at line start or after whitespace (module docstring + test_hash_needs_leading_whitespace)",
    "a bare cat/pkg-ver spec denotes =cat/pkg-ver (parse_atom docstring)",
    "only LF and CRLF line endings",
]
BUDGET = {"quick": 50, "thorough": 900}

CATS = ["dev-libs", "dev-python", "x11-misc"]
PKGS = ["a", "foo", "bar-baz", "libX11", "foo+"]
VERS = ["1", "1.2.3", "1.2.3_p1-r2", "0.10", "2a", "3_rc1"]
ARCH_KW = ["amd64", "~amd64", "x86", "~x86", "arm64", "x86-macos", "~ppc-macos", "hppa"]
ODD_KW = ["amd64#x86", "-*", "~*", "^^", "**"]
SENTINELS = ["*", "^", "-"]
GAPS = [" ", " ", " ", "  ", "\t", " \t", "        ", "\t\t"]
INDENTS = ["", "", "", " ", "   ", "\t"]
TRAILS = ["", "", "", " ", "  ", "\t"]
COMMENTS = ["#", "# note", "#* ^", "# see #123", "#\t^ amd64", "# -", "#keep me  "]
SUGGEST_KW = ["amd64", "x86", "arm64", "~hppa", "sparc"]


def make_spec(form, cat, pkg, ver, slot):
    """-> spelling as written (`s`), the atom it denotes (`atom`, also the identity a suggestion function may
    depend on: operator, version and slot included) and its category/package (`key`)"""
    key = f"{cat}/{pkg}"
    comp = {"form": form, "cat": cat, "pkg": pkg, "ver": ver, "slot": slot}
    if form == "plain":
        return dict(comp, s=key, atom=key, key=key)
    if form == "slot":
        return dict(comp, s=f"{key}:{slot}", atom=f"{key}:{slot}", key=key)
    if form == "bare":
        return dict(comp, s=f"{key}-{ver}", atom=f"={key}-{ver}", key=key)
    if form == "bareslot":
        return dict(comp, s=f"{key}-{ver}:{slot}", atom=f"={key}-{ver}:{slot}", key=key)
    if form == "glob":
        return dict(comp, s=f"={key}-{ver}*", atom=f"={key}-{ver}*", key=key)
    if form == "~":
        ver = ver.split("-r")[0]  # PMS: ~ takes no revision
    return dict(comp, s=f"{form}{key}-{ver}", atom=f"{form}{key}-{ver}", key=key)


def spec():
    return st.builds(
        make_spec,
        st.sampled_from(["plain", "bare", "bare", "=", "=", ">=", "~", "<", "slot", "bareslot", "glob"]),
        st.sampled_from(CATS), st.sampled_from(PKGS), st.sampled_from(VERS), st.sampled_from(["0", "3", "1.2"]),
    )


def keyword():
    return st.one_of(st.sampled_from(ARCH_KW), st.sampled_from(ARCH_KW), st.sampled_from(SENTINELS), st.sampled_from(ODD_KW + SENTINELS))


def entry_line():
    return st.builds(
        lambda ind, sp, kws, trail, com, eol: {"indent": ind, "spec": sp, "kws": kws, "trail": trail, "comment": com, "eol": eol},
        st.sampled_from(INDENTS), spec(),
        st.lists(st.tuples(st.sampled_from(GAPS), keyword()).map(list), max_size=4),
        st.sampled_from(TRAILS), st.one_of(st.just(""), st.just(""), st.sampled_from(COMMENTS)), st.sampled_from(["\n", "\n", "\r\n"]),
    )


def blank_line():
    return st.builds(
        lambda ind, com, eol: {"indent": ind, "spec": None, "kws": [], "trail": "", "comment": com, "eol": eol},
        st.sampled_from(INDENTS), st.one_of(st.just(""), st.sampled_from(COMMENTS)), st.sampled_from(["\n", "\n", "\r\n"]),
    )


def text_case():
    def mk(lines, last_eol, overrides, newkw, pick, same_pkg):
        lines = [dict(l) for l in lines]
        ents = [l for l in lines if l["spec"] is not None]
        if same_pkg and ents:
            # several lines for one category/package at different versions/slots/operators
            c0 = ents[0]["spec"]
            for l in ents[1:]:
                sp = l["spec"]
                l["spec"] = make_spec(sp["form"], c0["cat"], c0["pkg"], sp["ver"], sp["slot"])
        for l in lines:
            if l["spec"] is not None and l["comment"] and not l["trail"]:
                l["trail"] = " "  # a comment needs whitespace in front of its '#'
        if last_eol is not None:
            lines[-1]["eol"] = last_eol
        if lines[-1]["eol"] == "" and render_line(lines[-1]) == "":
            lines[-1]["eol"] = "\n"  # an empty last line without EOL is no line at all
        # suggestion table: overrides (possibly empty lists) for some of the specs named in the list, keyed by the
        # full atom (operator, version, slot), over a deterministic default that also depends on the full atom
        atoms = list(dict.fromkeys(l["spec"]["atom"] for l in ents))
        table = {atoms[i % len(atoms)]: v for i, v in overrides} if atoms else {}
        return {"kind": "text", "lines": lines, "table": table, "newkw": newkw, "pick": pick}

    overrides = st.lists(st.tuples(st.integers(0, 6), st.lists(st.sampled_from(SUGGEST_KW), max_size=3, unique=True)), max_size=3)
    return st.builds(
        mk,
        st.lists(st.one_of(entry_line(), entry_line(), entry_line(), blank_line()), min_size=1, max_size=7),
        st.sampled_from([None, None, "", "", "\r\n"]),
        overrides,
        st.lists(st.sampled_from(ARCH_KW + ["-"]), max_size=3),
        st.integers(0, 6),
        st.sampled_from([False, False, True]),
    )


def build_case():
    ent = st.tuples(spec().map(lambda s: s["atom"]), st.lists(st.sampled_from(ARCH_KW + SENTINELS + ["-*"]), max_size=4)).map(list)
    return st.builds(lambda e: {"kind": "build", "entries": e}, st.lists(ent, min_size=1, max_size=6))


_DEFAULT_SUGGESTIONS = [["amd64", "x86"], ["arm64"], ["x86"], ["amd64", "arm64", "sparc"], ["~hppa"], ["sparc", "amd64"]]


def default_suggest(atom_str):
    """deterministic non-empty default; depends on every character of the atom (operator, version, slot)"""
    h = sum((i + 1) * ord(c) for i, c in enumerate(atom_str))
    return _DEFAULT_SUGGESTIONS[h % len(_DEFAULT_SUGGESTIONS)]


def atom_identity(pkg):
    """the `atom` string of make_spec, rebuilt from a parsed atom's attributes (what a caller's suggest() sees)"""
    if pkg.op == "=*":
        out = f"={pkg.key}-{pkg.fullver}*"
    elif pkg.op:
        out = f"{pkg.op}{pkg.key}-{pkg.fullver}"
    else:
        out = str(pkg.key)
    if pkg.slot:
        out += f":{pkg.slot}"
    return out


# --------------------------------------------------------------------------- helpers

def render_line(l):
    if l["spec"] is None:
        return l["indent"] + l["comment"]
    return l["indent"] + l["spec"]["s"] + "".join(g + k for g, k in l["kws"]) + l["trail"] + l["comment"]


def render_text(lines):
    return "".join(render_line(l) + l["eol"] for l in lines)


_LINE_RE = re.compile(r"[^\n]*\n|[^\n]+\Z")


def split_text(text):
    out = []
    for m in _LINE_RE.finditer(text):
        line = m.group(0)
        if line.endswith("\r\n"):
            out.append((line[:-2], "\r\n"))
        elif line.endswith("\n"):
            out.append((line[:-1], "\n"))
        else:
            out.append((line, ""))
    return out


def _mods():
    from pkgcore.bugzilla import errors, pkglist
    from pkgcore.ebuild.atom import atom

    return pkglist, errors, atom


def classify(lines):
    cl = set()
    for l in lines:
        if l["eol"] == "\r\n":
            cl.add("crlf")
        if l["spec"] is None:
            cl.add("blank_or_comment_line")
            continue
        kws = [k for _, k in l["kws"]]
        if "*" in kws:
            cl.add("star")
        if "^" in kws:
            cl.add("caret")
        if "-" in kws:
            cl.add("dash")
        if l["comment"]:
            cl.add("comment_on_entry")
        if l["indent"] or l["trail"] or any(g != " " for g, _ in l["kws"]):
            cl.add("odd_spacing")
        if any("\t" in g for g, _ in l["kws"]) or "\t" in l["indent"] + l["trail"]:
            cl.add("tab")
        if not kws:
            cl.add("no_keywords")
    if lines and lines[-1]["eol"] == "":
        cl.add("no_final_eol")
    return cl


# --------------------------------------------------------------------------- oracles

def check_text(ctx, case, record=True):
    PL, ERR, atom = _mods()
    lines = case["lines"]
    text = render_text(lines)
    cl = classify(lines)
    table = case["table"]

    def sugg(key):
        return list(table[key]) if key in table else default_suggest(key)

    ref_lines = [(l["spec"]["atom"] if l["spec"] else None, [k for _, k in l["kws"]]) for l in lines]
    star_atoms = {}
    for l in lines:
        if l["spec"] is not None and "*" in [k for _, k in l["kws"]]:
            star_atoms.setdefault(l["spec"]["key"], set()).add(l["spec"]["atom"])
    for key, ats in star_atoms.items():
        if len(ats) > 1:
            cl.add("same_key_different_version_lines")
            if len({tuple(sugg(a)) for a in ats}) > 1:
                cl.add("same_key_different_suggestions")
    status, ref_out = R.pl_expand(ref_lines, sugg)
    has_sentinel = bool(cl & {"star", "caret"})
    if status == "error":
        cl.add("expand_error_expected")
    elif any(o is not None and o != ref_lines[i][1] for i, o in enumerate(ref_out)):
        cl.add("expand_rewrites")
        if any(o is not None and o == ref_lines[i][1] for i, o in enumerate(ref_out)):
            cl.add("expand_mixed_touched_untouched")
    if record:
        ctx.case(
            {"kind": "text", "text": text, "table": table},
            nontrivial=has_sentinel and bool(cl & {"comment_on_entry", "odd_spacing", "crlf"}),
            classes=sorted(cl), key=text + "|" + core.jdump(table),
        )

    # ---- parse / round trip
    pl = PL.PackageList(text)
    entries = core.guarded(ctx, case, lambda: pl.entries)
    if core.crashed(entries):
        return
    if "".join(e.raw + e.eol for e in entries) != text:
        ctx.violation("roundtrip:text", case, f"joined raw+eol differs from the text {text!r}")
    if str(pl) != text:
        ctx.violation("roundtrip:str", case, "str(PackageList(text)) != text")
    if len(entries) != len(lines):
        ctx.violation("parse:line-count", case, f"{len(entries)} entries for {len(lines)} lines")
        return
    for i, (l, e) in enumerate(zip(lines, entries)):
        raw = render_line(l)
        if e.raw != raw or e.eol != l["eol"]:
            ctx.violation("parse:raw-eol", case, f"line {i + 1}: raw/eol {e.raw!r}/{e.eol!r}, expected {raw!r}/{l['eol']!r}")
        if e.lineno != i + 1:
            ctx.violation("parse:lineno", case, f"line {i + 1} numbered {e.lineno}")
        if l["spec"] is None:
            if e.pkg is not None or e.keywords:
                ctx.violation("parse:blank", case, f"line {i + 1} is blank/comment but parsed as {e.pkg} {e.keywords}")
        else:
            want = atom(l["spec"]["atom"])
            if e.pkg != want:
                ctx.violation("parse:pkg", case, f"line {i + 1}: spec {l['spec']['s']!r} parsed as {e.pkg}, expected {want}")
            if list(e.keywords) != [k for _, k in l["kws"]]:
                ctx.violation("parse:keywords", case, f"line {i + 1}: keywords {e.keywords}, expected {[k for _, k in l['kws']]}")
        if e.comment != l["comment"]:
            ctx.violation("parse:comment", case, f"line {i + 1}: comment {e.comment!r}, expected {l['comment']!r}")

    # ---- expand
    def do_expand():
        return pl.expand(lambda pkg: list(sugg(atom_identity(pkg))))

    try:
        got = core.guarded(ctx, case, do_expand, expected=(ERR.PackageListError,))
    except ERR.PackageListError as e:
        got = e
    if core.crashed(got):
        pass
    elif status == "error":
        if not isinstance(got, ERR.PackageListError):
            ctx.violation("expand:error-missing", case, f"'^' on line {ref_out + 1} cannot be resolved but expand() returned {got.text!r}")
        elif getattr(got, "lineno", ref_out + 1) != ref_out + 1:
            ctx.violation("expand:error-lineno", case, f"error reported for line {got.lineno}, offending line is {ref_out + 1}")
    elif isinstance(got, ERR.PackageListError):
        ctx.violation("expand:error-unexpected", case, f"expand() refused a resolvable list: {got}")
    else:
        check_expanded(ctx, case, lines, ref_lines, ref_out, got.text)
        # expanding again changes nothing
        again = core.guarded(ctx, case, lambda: PL.PackageList(got.text).expand(lambda pkg: list(sugg(atom_identity(pkg)))),
                             expected=(ERR.PackageListError,))
        if not core.crashed(again) and again.text != got.text:
            ctx.violation("expand:not-idempotent", case, f"second expand changed {got.text!r} into {again.text!r}")

    # ---- with_keywords on one line
    idx = case["pick"] % len(lines)
    l, e = lines[idx], entries[idx]
    new = list(case["newkw"])
    upd = core.guarded(ctx, case, lambda: e.with_keywords(tuple(new)))
    if core.crashed(upd):
        return
    if l["spec"] is None:
        if upd.raw != e.raw or upd.keywords != e.keywords:
            ctx.violation("with_keywords:blank-changed", case, f"blank line {idx + 1} rewritten to {upd.raw!r}")
        return
    if list(upd.keywords) != new:
        ctx.violation("with_keywords:field", case, f"keywords field {upd.keywords}, expected {new}")
    if upd.eol != l["eol"] or upd.lineno != idx + 1:
        ctx.violation("with_keywords:eol-lineno", case, f"eol/lineno changed: {upd.eol!r}/{upd.lineno}")
    check_rewritten_line(ctx, case, "with_keywords", idx, l, new, upd.raw)


def check_rewritten_line(ctx, case, who, idx, l, new, raw2):
    """raw2 is line idx rewritten to carry keywords `new`; everything but the keywords must survive"""
    ind2, spec2, kws2, trail2, com2 = R.pl_split_line(raw2)
    where = f"line {idx + 1} {render_line(l)!r} -> {raw2!r}"
    if spec2 != l["spec"]["s"] or ind2 != l["indent"]:
        ctx.violation(f"{who}:spec-or-indent", case, f"{where}: indent/spec {ind2!r}/{spec2!r}")
        return
    if [k for _, k in kws2] != list(new):
        ctx.violation(f"{who}:keywords", case, f"{where}: keywords {[k for _, k in kws2]}, expected {list(new)}")
        return
    if com2 != l["comment"]:
        ctx.violation(f"{who}:comment", case, f"{where}: comment {com2!r}, expected {l['comment']!r}")
    old_gap = l["kws"][0][0] if l["kws"] else None
    if new:
        if old_gap is not None and kws2[0][0] != old_gap:
            ctx.violation(f"{who}:alignment", case, f"{where}: gap after the spec {kws2[0][0]!r}, was {old_gap!r}")
        if trail2 != l["trail"]:
            ctx.violation(f"{who}:trailing-blanks", case, f"{where}: blanks before comment/EOL {trail2!r}, were {l['trail']!r}")
    else:
        want = (old_gap or "") + l["trail"]
        if trail2 != want:
            ctx.violation(f"{who}:trailing-blanks", case, f"{where}: blanks after the spec {trail2!r}, expected {want!r}")


def check_expanded(ctx, case, lines, ref_lines, ref_out, text2):
    got_lines = split_text(text2)
    if len(got_lines) != len(lines):
        ctx.violation("expand:line-count", case, f"{len(got_lines)} lines after expand, {len(lines)} before")
        return
    for i, (l, (raw2, eol2)) in enumerate(zip(lines, got_lines)):
        old = ref_lines[i][1]
        new = ref_out[i]
        raw1 = render_line(l)
        if eol2 != l["eol"]:
            ctx.violation("expand:eol", case, f"line {i + 1}: EOL {eol2!r}, was {l['eol']!r}")
        if new is None or new == old:
            if raw2 != raw1:
                kind = "sentinel-free" if not (set(old) & {"*", "^"}) else "unchanged-keywords"
                ctx.violation(f"expand:touched-{kind}-line", case, f"line {i + 1} {raw1!r} became {raw2!r}")
            continue
        check_rewritten_line(ctx, case, "expand", i, l, new, raw2)


def check_build(ctx, case, record=True):
    PL, ERR, atom = _mods()
    ents = case["entries"]
    if record:
        ctx.case(case, nontrivial=sum(1 for _, k in ents if k) >= 2, classes=["build"] + (["build_empty_keywords"] if any(not k for _, k in ents) else []),
                 key=core.jdump(ents))
    atoms = [atom(a) for a, _ in ents]
    pl = core.guarded(ctx, case, lambda: PL.PackageList.build([(a, tuple(k)) for a, (_, k) in zip(atoms, ents)]))
    if core.crashed(pl):
        return
    back = core.guarded(ctx, case, lambda: [(e.pkg, list(e.keywords)) for e in pl.entries], expected=(ERR.PackageListError,))
    if core.crashed(back):
        return
    want = [(a, list(k)) for a, (_, k) in zip(atoms, ents)]
    if back != want:
        ctx.violation("build:roundtrip", case, f"built text {pl.text!r} parses to {[(str(p), k) for p, k in back]}")
    if "".join(e.raw + e.eol for e in pl.entries) != pl.text:
        ctx.violation("roundtrip:text", case, "built text does not round trip")


def check(ctx, case, record=True):
    if case["kind"] == "text":
        check_text(ctx, case, record)
    elif case["kind"] == "build":
        check_build(ctx, case, record)
    else:
        raise core.HarnessError(f"unknown case kind {case.get('kind')}")


# --------------------------------------------------------------------------- runner glue

def plan(tier, seed):
    if tier == "quick":
        t, b, n = 1500, 400, 8
    else:
        t, b, n = 15000, 4000, 16
    tasks = []
    for _ in range(n):
        tasks.append({"task": "text", "examples": t})
    for _ in range(max(2, n // 4)):
        tasks.append({"task": "build", "examples": b})
    return tasks


def run_task(ctx, task, **kw):
    def guard_pkgerr(c):
        from pkgcore.bugzilla.errors import PackageListError

        try:
            check(ctx, c)
        except PackageListError as e:
            # the generator only writes valid specs: a parse failure is the code rejecting a documented spelling
            ctx.violation("parse:rejected-valid-list", c, f"PackageListError: {e}")

    if task == "text":
        core.hyp_run(ctx, text_case(), guard_pkgerr, kw["examples"], chunk=500)
    elif task == "build":
        core.hyp_run(ctx, build_case(), guard_pkgerr, kw["examples"], chunk=400, seed_salt=5)
    else:
        raise core.HarnessError(f"unknown task {task}")


def replay(ctx, case):
    from pkgcore.bugzilla.errors import PackageListError

    try:
        check(ctx, case)
    except PackageListError as e:
        ctx.violation("parse:rejected-valid-list", case, f"PackageListError: {e}")


def shrink_case(ctx, bucket, case):
    cur = copy.deepcopy(case)

    def holds(c):
        k = core.Ctx(ID, "quick", 0)
        try:
            replay(k, c)
        except Exception:  # noqa: BLE001
            return False
        return bucket in k.violations

    if cur["kind"] == "build":
        i = 0
        while i < len(cur["entries"]) and len(cur["entries"]) > 1:
            cand = dict(cur, entries=cur["entries"][:i] + cur["entries"][i + 1:])
            if holds(cand):
                cur = cand
            else:
                i += 1
        return cur
    progress = True
    while progress:
        progress = False
        n = len(cur["lines"])
        for i in range(n):
            if n > 1:
                cand = dict(cur, lines=cur["lines"][:i] + cur["lines"][i + 1:])
                if holds(cand):
                    cur, progress = cand, True
                    break
            l = cur["lines"][i]
            for field, simple in (("comment", ""), ("indent", ""), ("trail", ""), ("eol", "\n")):
                if l[field] != simple:
                    l2 = dict(l, **{field: simple})
                    if field == "trail" and l["comment"] and l["spec"] is not None:
                        l2["trail"] = " "
                        if l["trail"] == " ":
                            continue
                    cand = dict(cur, lines=cur["lines"][:i] + [l2] + cur["lines"][i + 1:])
                    if holds(cand):
                        cur, progress = cand, True
                        break
            if progress:
                break
            for k in range(len(l["kws"])):
                l2 = dict(l, kws=l["kws"][:k] + l["kws"][k + 1:])
                cand = dict(cur, lines=cur["lines"][:i] + [l2] + cur["lines"][i + 1:])
                if holds(cand):
                    cur, progress = cand, True
                    break
            if progress:
                break
    for key, simple in (("table", {}), ("newkw", []), ("pick", 0)):
        cand = dict(cur, **{key: simple})
        if holds(cand):
            cur = cand
    return cur
