"""C44 Query strings (pkgcore.util.parserestrict.parse_match) select exactly the packages they describe.

Generator (constructive): a query is built from a *spec* -- category pattern (absent / exact / glob /
`*`), package pattern (exact / glob / `*`), optional version operator + version (+ revision), slot and
sub-slot patterns (absent / exact / glob / `*`), optional `::repo` -- and rendered as
`[op][cat/]pkg[-ver[-rN]][:slot[/subslot]][::repo]`.  Patterns are derived from a target package
of the universe by replacing a prefix / suffix / infix with `*` (so selections are usually non-empty
proper subsets) or drawn from the query alphabet `[a-z0-9+_.-*]`.  The expected selection is computed
from the spec, never by parsing the text.

Oracle: `parse_match(text).match(pkg)` for every package of a per-query universe (the target, its
one-field-at-a-time neighbours over all pools, and a seeded sample of the full product; FakePkg
objects with category/package/version/revision/slot/subslot/repo.repo_id) must equal
`fnmatchcase(field, pattern)` for every pattern (only `*` is special in the alphabet, so fnmatch is a
whole-string shell match) AND the PMS version relation (`vf.ref.pms_version.op_holds`; `~` ignores
the revision) AND repo equality.  A query of the generated domain must not raise ParseError; any
query with `!` / `!!` inserted must raise ParseError.

Domain restrictions (documented behaviour of parse_match, not asserted): no `**`; a version operator
combined with a *globbed* name needs a category part (`>=*/alsa-*-1.1.7` is the documented form;
`>=alsa-*-1` and `>=*foo-1` are explicitly unsupported); `=...*` version globs and USE deps are left
to C04 (plain atoms are passed through to `atom`); `::repo` is an exact name.

Bucket keys name root causes, not inputs:
* `ignored:<ctx>`  the observed selection equals the reference selection of the same query with some of
  its slot / sub-slot / repo constraints removed (they were parsed and then dropped); ctx = the query
  shape among op, nameglob, nocat.  The message lists the ignored constraints.
* `select:r0-vs-norev`  the only wrongly (de)selected packages carry revision -r0 and the query's
  version has no revision (PMS: -r0 == no revision).
* `select:<tags>` any other wrong selection and `reject:<tags>` (ParseError / MalformedAtom for a
  query of the domain): constraints are removed one at a time while the failure persists and the key
  is built from what remains; tags among name-{exact,glob}, nocat, op, rev, slotpart-{exact,glob}, repo.
* `blocker-accepted`, `crash:*`.
"""
import fnmatch
import itertools
import random

from hypothesis import strategies as st

from .. import core
from ..ref import pms_version as RV

ID = "C44"
TITLE = "Query strings select exactly the packages they describe"
LEVEL = "exploration"
TECHNIQUE = "constructive query specs vs. fnmatch + PMS-version reference selection over package universes"
DESIGN_REF = "DESIGN.md §3 C44"
LEVEL_TEXT = (
    "Generated-input search: query strings assembled from specs (globs in category/package/slot/sub-slot position, "
    "version operator, repository) are parsed by parse_match and evaluated against ~70 packages each; the selected set "
    "is compared with an fnmatch/PMS-version reference computed from the spec; blocker strings must be rejected."
)
LEVEL_NOTE = ("Trusted: fnmatch.fnmatchcase for patterns whose only metacharacter is '*', vf/ref/pms_version.py for version "
              "relations, pkgcore.test.misc.FakePkg as the package stand-in. No proof of absence.")
RULE = (
    "one case = one query string evaluated against its universe (evaluations counts query x package); non-trivial = the query "
    "carries >=1 glob or a version/slot/sub-slot/repo constraint AND the reference selects a non-empty proper subset of the "
    "universe; distinct = distinct query text"
)
ASSUMPTIONS = [
    "queries are restricted to the forms parse_match documents (see module docstring for the exclusions)",
    "version-glob (=...*) and USE-dep semantics of plain atoms are C04's subject and not generated here",
    "vf/ref/pms_version.py is a faithful transcription of PMS version comparison",
]
BUDGET = {"quick": 40, "thorough": 780}

SEEDS = st.integers(0, 2**64 - 1)
BATCH = 20

CATS = ["dev-util", "dev-libs", "dev-lang", "app-arch", "sys-apps", "x11-libs", "dev_x+", "a", "dev"]
PKGS = ["foo", "foobar", "foo-bar", "bar", "libfoo", "foo2", "fo", "alsa-lib", "alsa-utils", "python", "a", "gtk+", "lib-foo-x"]
VERS = [("1", None), ("1", "1"), ("1.1", None), ("2", None), ("10", None), ("1.0_p1", None), ("0.9", "2"), ("1.01", None), ("1", "0")]
SLOTS = [("0", "0"), ("1", "1"), ("3.11", "3.11"), ("3.1", "3.1"), ("0", "1.60"), ("5", "5.15"), ("stable", "x"), ("3", "3.1")]
REPOS = ["gentoo", "gentoo2", "local"]
OPS = ("<", "<=", "=", ">=", ">", "~")
GLOB_ALPHA = "abdflo-+_.0123"


class Env:
    def __init__(self):
        from pkgcore.ebuild import errors
        from pkgcore.test.misc import FakePkg, FakeRepo
        from pkgcore.util import parserestrict

        self.parse_match = parserestrict.parse_match
        self.ParseError = parserestrict.ParseError
        self.Malformed = errors.MalformedAtom
        self.FakePkg = FakePkg
        self.repos = {r: FakeRepo(repo_id=r) for r in REPOS}
        self._pkgs = {}

    def pkg(self, t):
        p = self._pkgs.get(t)
        if p is None:
            cat, name, ver, rev, slot, sub, repo = t
            fv = ver if rev is None else f"{ver}-r{rev}"
            p = self._pkgs[t] = self.FakePkg(f"{cat}/{name}-{fv}", slot=slot, subslot=sub, repo=self.repos[repo])
        return p


_ENV = None


def env():
    global _ENV
    if _ENV is None:
        _ENV = Env()
    return _ENV


# ---- spec / text -------------------------------------------------------------------
def render(spec):
    s = spec.get("op") or ""
    if spec.get("cat") is not None:
        s += spec["cat"] + "/"
    s += spec["pkg"]
    if spec.get("op"):
        s += "-" + spec["ver"]
        if spec.get("rev") is not None:
            s += "-r" + spec["rev"]
    if spec.get("slot") is not None or spec.get("sub") is not None:
        s += ":" + (spec.get("slot") or "")
        if spec.get("sub") is not None:
            s += "/" + spec["sub"]
    if spec.get("repo") is not None:
        s += "::" + spec["repo"]
    return s


def _kind(pat):
    if pat is None:
        return None
    if pat == "*":
        return "star"
    return "glob" if "*" in pat else "exact"


def tags(spec):
    out = []
    for key, name in (("cat", "cat"), ("pkg", "pkg")):
        k = _kind(spec.get(key))
        if k:
            out.append(f"{name}-{k}")
    if spec.get("op"):
        out.append("op")
        if spec.get("rev") is not None:
            out.append("rev")
    for key, name in (("slot", "slot"), ("sub", "sub")):
        k = _kind(spec.get(key))
        if k:
            out.append(f"{name}-{k}")
    if spec.get("repo") is not None:
        out.append("repo")
    return out


def expected(spec, t):
    cat, name, ver, rev, slot, sub, repo = t
    if spec.get("cat") is not None and not fnmatch.fnmatchcase(cat, spec["cat"]):
        return False
    if not fnmatch.fnmatchcase(name, spec["pkg"]):
        return False
    if spec.get("op") and not RV.op_holds(spec["op"], ver, rev, spec["ver"], spec.get("rev")):
        return False
    if spec.get("slot") is not None and not fnmatch.fnmatchcase(slot, spec["slot"]):
        return False
    if spec.get("sub") is not None and not fnmatch.fnmatchcase(sub, spec["sub"]):
        return False
    if spec.get("repo") is not None and repo != spec["repo"]:
        return False
    return True


def in_domain(spec):
    """the documented forms (see module docstring)"""
    for k in ("cat", "pkg", "slot", "sub"):
        v = spec.get(k)
        if v is not None and ("**" in v or v == ""):
            return False
    if spec.get("op") and spec.get("cat") is None and "*" in spec["pkg"]:
        return False
    if spec.get("sub") is not None and spec.get("slot") is None:
        return False
    return True


# ---- generation -------------------------------------------------------------------
def _globify(rnd, s):
    """replace a prefix / suffix / infix / everything-but-a-piece of s with '*' (never '**')"""
    n = len(s)
    k = rnd.randrange(6)
    if k == 0 or n == 1:
        i = rnd.randint(0, n)
        return s[:i] + "*"
    if k == 1:
        i = rnd.randint(0, n)
        return "*" + s[i:]
    if k == 2:
        i = rnd.randint(0, n)
        j = rnd.randint(i, n)
        return s[:i] + "*" + s[j:]
    if k == 3:
        i = rnd.randint(0, n - 1)
        j = rnd.randint(i + 1, n)
        return "*" + s[i:j] + "*"
    if k == 4:
        i = rnd.randint(0, n // 2)
        j = rnd.randint(n // 2, n)
        mid = s[i:j]
        if len(mid) >= 2:
            m = rnd.randint(1, len(mid) - 1)
            return s[:i] + "*" + mid[m:m + 1] + "*" + s[j:] if rnd.random() < 0.3 else s[:i] + mid[:m] + "*" + s[j:]
        return s[:i] + "*" + s[j:]
    # random glob over the alphabet
    parts = ["".join(rnd.choice(GLOB_ALPHA) for _ in range(rnd.randint(0, 3))) for _ in range(rnd.randint(2, 3))]
    g = "*".join(parts)
    while "**" in g:
        g = g.replace("**", "*")
    if g[0] in "-+." and not g.startswith("*"):
        g = "a" + g
    return g if "*" in g else g + "*"


def _pattern(rnd, value, p_exact, p_star, allow_none, p_none):
    r = rnd.random()
    if allow_none and r < p_none:
        return None
    r = rnd.random()
    if r < p_exact:
        return value
    if r < p_exact + p_star:
        return "*"
    g = _globify(rnd, value)
    return g


def random_target(rnd):
    slot, sub = rnd.choice(SLOTS)
    ver, rev = rnd.choice(VERS)
    return (rnd.choice(CATS), rnd.choice(PKGS), ver, rev, slot, sub, rnd.choice(REPOS))


def build_query(rnd):
    """(spec, target)"""
    for _ in range(50):
        t = random_target(rnd)
        cat, name, ver, rev, slot, sub, repo = t
        spec = {"cat": _pattern(rnd, cat, 0.35, 0.15, True, 0.25), "pkg": _pattern(rnd, name, 0.4, 0.12, False, 0)}
        if rnd.random() < 0.4:
            spec["op"] = rnd.choice(OPS)
            v, r = rnd.choice(VERS) if rnd.random() < 0.5 else (ver, rev)
            spec["ver"] = v
            if spec["op"] != "~" and rnd.random() < 0.5:
                spec["rev"] = r
        if rnd.random() < 0.45:
            spec["slot"] = _pattern(rnd, slot, 0.45, 0.12, False, 0)
            if rnd.random() < 0.5:
                spec["sub"] = _pattern(rnd, sub, 0.45, 0.12, False, 0)
        if rnd.random() < 0.3:
            spec["repo"] = repo if rnd.random() < 0.8 else rnd.choice(REPOS)
        if spec.get("op") and spec.get("cat") is None and "*" in spec["pkg"]:
            spec["cat"] = rnd.choice(["*", cat, _globify(rnd, cat)])
        spec = {k: v for k, v in spec.items() if v is not None}
        if in_domain(spec):
            return spec, t
    raise core.HarnessError("could not build an in-domain query")


def universe_for(rnd, t):
    cat, name, ver, rev, slot, sub, repo = t
    out = [t]
    for c in CATS:
        out.append((c, name, ver, rev, slot, sub, repo))
    for n in PKGS:
        out.append((cat, n, ver, rev, slot, sub, repo))
    for v, r in VERS:
        out.append((cat, name, v, r, slot, sub, repo))
    for s_, ss in SLOTS:
        out.append((cat, name, ver, rev, s_, ss, repo))
    for rp in REPOS:
        out.append((cat, name, ver, rev, slot, sub, rp))
    for _ in range(24):
        out.append(random_target(rnd))
    seen = set()
    res = []
    for x in out:
        if x not in seen:
            seen.add(x)
            res.append(x)
    return res


# ---- oracle -------------------------------------------------------------------
def _evaluate(E, spec, pkgs):
    """('ok', [bool...]) | ('reject', msg) ; other exceptions propagate"""
    text = render(spec)
    try:
        r = E.parse_match(text)
    except (E.ParseError, E.Malformed) as e:
        return "reject", f"{type(e).__name__}: {e}"
    return "ok", [bool(r.match(E.pkg(t))) for t in pkgs]


def _failure(E, spec, pkgs):
    """None | (kind, msg) with kind in reject / select / select-r0 / ignored"""
    kind, res = _evaluate(E, spec, pkgs)
    if kind == "reject":
        return "reject", res
    exp = [expected(spec, t) for t in pkgs]
    bad = [(t, got) for t, got, e in zip(pkgs, res, exp) if got != e]
    if not bad:
        return None
    t, got = bad[0]
    cat, name, ver, rev, slot, sub, repo = t
    fv = ver if rev is None else f"{ver}-r{rev}"
    msg = f"{cat}/{name}-{fv}:{slot}/{sub}::{repo} selected={got} expected={not got}"
    r0_case = bool(spec.get("op")) and spec.get("rev") is None  # -r0 packages vs. a version without revision
    if r0_case and all(x[0][3] == "0" for x in bad):
        return "select-r0", msg
    # judge the remaining root causes on the packages the -r0 issue cannot touch
    rest = [(t, got) for t, got in zip(pkgs, res) if not (r0_case and t[3] == "0")]
    keys = [k for k in ("repo", "slot", "sub") if k in spec]
    for n in range(1, len(keys) + 1):
        for drop in itertools.combinations(keys, n):
            if "slot" in drop and "sub" in spec and "sub" not in drop:
                continue
            weaker = {k: v for k, v in spec.items() if k not in drop}
            if all(expected(weaker, t) == got for t, got in rest):
                return "ignored", f"constraints {'+'.join(drop)} have no effect: {msg}"
    return "select", msg


_REMOVABLE = ("repo", "sub", "slot", "rev", "op")


def _minimise(E, spec, pkgs, kind):
    """drop constraints one at a time while a failure of the same kind persists"""
    cur = dict(spec)
    changed = True
    while changed:
        changed = False
        for k in _REMOVABLE:
            if k not in cur:
                continue
            cand = {a: b for a, b in cur.items() if a != k}
            if k == "op":
                cand.pop("ver", None)
                cand.pop("rev", None)
            if k == "slot":
                cand.pop("sub", None)
            if not in_domain(cand):
                continue
            f = _failure(E, cand, pkgs)
            if f is not None and f[0] == kind:
                cur = cand
                changed = True
                break
    return cur


def root_tags(spec):
    out = []
    if "cat" not in spec:
        out.append("nocat")
    out.append("name-glob" if any("*" in spec.get(k, "") for k in ("cat", "pkg")) else "name-exact")
    if spec.get("op"):
        out.append("op")
        if spec.get("rev") is not None:
            out.append("rev")
    if "slot" in spec or "sub" in spec:
        out.append("slotpart-glob" if any("*" in spec.get(k, "") for k in ("slot", "sub")) else "slotpart-exact")
    if "repo" in spec:
        out.append("repo")
    return out


def bucket_for(E, spec, pkgs, f):
    """(bucket, representative spec, message)"""
    kind, msg = f
    if kind == "select-r0":
        return "select:r0-vs-norev", spec, msg
    if kind == "ignored":
        ctx = [x for x in root_tags(spec) if x in ("nocat", "name-glob", "op")]
        ctx = ["nameglob" if x == "name-glob" else x for x in ctx]
        return "ignored:" + ("+".join(ctx) or "plain"), spec, msg
    small = _minimise(E, spec, pkgs, kind)
    f2 = _failure(E, small, pkgs) or f
    return f"{kind}:" + "+".join(root_tags(small)), small, f2[1]


def check_query(ctx, spec, pkgs, source="gen"):
    E = env()
    text = render(spec)
    pkgs = [tuple(x) for x in pkgs]
    case = {"spec": spec, "text": text, "pkgs": [list(x) for x in pkgs]}
    exp = [expected(spec, t) for t in pkgs]
    nsel = sum(exp)
    tg = tags(spec)
    constrained = any(x.endswith("glob") for x in tg) or any(x in tg for x in ("op", "repo")) or any(x.startswith(("slot", "sub")) for x in tg)
    nontrivial = constrained and 0 < nsel < len(pkgs)
    classes = ["src:" + source] + ["t:" + x for x in tg]
    classes.append("form:" + ("nocat" if "cat" not in spec else "atom" if not any("*" in spec.get(k, "") for k in ("cat", "pkg")) else "globbed"))
    classes.append("sel:" + ("none" if nsel == 0 else "all" if nsel == len(pkgs) else "some"))
    ctx.case({"text": text, "selected": nsel, "of": len(pkgs)}, nontrivial=nontrivial, classes=classes, key=text, n=len(pkgs))

    def body():
        f = _failure(E, spec, pkgs)
        if f is not None:
            bucket, small, msg = bucket_for(E, spec, pkgs, f)
            c = {"spec": small, "text": render(small), "pkgs": case["pkgs"]}
            ctx.violation(bucket, c, f"query {render(small)!r}: {msg}")
        # blockers must be rejected
        h = core.h64(text)
        if h % 4 == 0:
            bang = ["!" + text, "!!" + text, text[:1] + "!" + text[1:], text + "!"][(h >> 8) % 4]
            try:
                E.parse_match(bang)
            except E.ParseError:
                ctx.count("blocker_rejected")
            else:
                ctx.violation("blocker-accepted", {"spec": spec, "text": bang, "pkgs": []}, f"query {bang!r} with a blocker was accepted")

    core.guarded(ctx, case, body)


# ---- bounded enumeration -------------------------------------------------------
def enum_specs():
    """product over pattern kinds for one fixed target (dev-libs/foo-bar-1.1:3.11/3.11::gentoo)"""
    cats = [None, "dev-libs", "dev-*", "*-libs", "*", "d*v-l*s", "*ev-lib*"]
    pk = ["foo-bar", "foo*", "*bar", "*", "f*-b*r", "*o-b*", "foo-*"]
    vs = [None, (">=", "1", None), ("<", "2", None), ("=", "1.1", None), ("~", "1.1", None), (">", "1", "1"), ("<=", "1.1", "0")]
    sl = [None, ("3.11", None), ("3.*", None), ("*", None), ("3.11", "3.11"), ("3.11", "3.*"), ("*", "*.11"), ("3*", "*")]
    rp = [None, "gentoo", "local"]
    for c, p, v, s_, r in itertools.product(cats, pk, vs, sl, rp):
        spec = {"pkg": p}
        if c is not None:
            spec["cat"] = c
        if v is not None:
            spec["op"], spec["ver"] = v[0], v[1]
            if v[2] is not None:
                spec["rev"] = v[2]
        if s_ is not None:
            spec["slot"] = s_[0]
            if s_[1] is not None:
                spec["sub"] = s_[1]
        if r is not None:
            spec["repo"] = r
        if in_domain(spec):
            yield spec


ENUM_TARGET = ("dev-libs", "foo-bar", "1.1", None, "3.11", "3.11", "gentoo")


def plan(tier, seed):
    tasks = []
    if tier == "quick":
        for i in range(3):
            tasks.append({"task": "enum", "slice": i, "nslices": 3, "sample": 0.25})
        for i in range(10):
            tasks.append({"task": "gen", "examples": 1200})
    else:
        for i in range(8):
            tasks.append({"task": "enum", "slice": i, "nslices": 8, "sample": 1.0})
        for i in range(24):
            tasks.append({"task": "gen", "examples": 40000})
    return tasks


def run_task(ctx, task, **kw):
    import gc

    gc.freeze()
    if task == "gen":
        seeds = []
        core.hyp_run(ctx, SEEDS, seeds.append, max(1, kw["examples"] // BATCH), chunk=1000)
        for seed in seeds:
            if ctx.out_of_time():
                break
            rnd = random.Random(f"{seed}:{ctx.seed}:{ctx.shard}")
            for _ in range(BATCH):
                spec, t = build_query(rnd)
                check_query(ctx, spec, universe_for(rnd, t))
    elif task == "enum":
        rnd = random.Random(ctx.seed * 7919 + kw["slice"])  # only selects which slice of the finite product a quick run visits
        uni = universe_for(random.Random(12345), ENUM_TARGET)
        full = kw["sample"] >= 1.0
        for i, spec in enumerate(enum_specs()):
            if i % kw["nslices"] != kw["slice"]:
                continue
            if not full and rnd.random() >= kw["sample"]:
                continue
            if ctx.out_of_time():
                full = False
                break
            check_query(ctx, spec, uni, source="enum")
        ctx.note("exhaustive_enum", bool(full))
    else:
        raise core.HarnessError(f"unknown task {task}")


def replay(ctx, case):
    pkgs = case.get("pkgs") or universe_for(random.Random(12345), ENUM_TARGET)
    if not case.get("spec"):
        raise core.HarnessError("replay case needs a spec")
    if case["text"] != render(case["spec"]):
        # blocker case: text is the spec's text with '!' inserted
        E = env()
        try:
            E.parse_match(case["text"])
        except E.ParseError:
            return
        ctx.violation("blocker-accepted", case, f"query {case['text']!r} with a blocker was accepted")
        return
    check_query(ctx, case["spec"], pkgs, source="replay")


def shrink_case(ctx, bucket, case):
    """reduce the package list to the fewest packages that keep the bucket"""
    E = env()
    spec = case.get("spec")
    if not spec or not case.get("pkgs") or bucket.startswith(("blocker", "crash")):
        return None
    pkgs = [tuple(x) for x in case["pkgs"]]

    def same(sub):
        f = _failure(E, spec, sub)
        return f is not None and bucket_for(E, spec, sub, f)[0] == bucket

    for t in pkgs:
        if same([t]):
            return {"spec": spec, "text": render(spec), "pkgs": [list(t)]}
    cur = pkgs
    i = 0
    while i < len(cur) and len(cur) > 2:
        cand = cur[:i] + cur[i + 1:]
        if same(cand):
            cur = cand
        else:
            i += 1
    return {"spec": spec, "text": render(spec), "pkgs": [list(t) for t in cur]}
