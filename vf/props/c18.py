"""C18 Merging places exactly the package contents on the live filesystem.

Generated: `vf.gen.fstrees.merge_case` -- a package image (files incl. hardlink groups, symlinks to
file/dir/dangling/absolute, fifos, nested dirs, odd names incl. `#new`, tab, newline, unicode; setuid bits;
0-byte and >32 kB files; uids/gids 0/12345/12346) is materialised, scanned with `livefs.scan(img, offset=img)`
(as ebuild/binpkg merges do) and merged by `fs.ops.merge_contents` into a materialised pre-existing root
(same-type / other-type entries, directories reached through a symlink, dangling symlinks, files hardlinked to
an unrelated victim, stale `#new` siblings left by an earlier interrupted merge, bystanders), with
`offset=root`, `offset=root/`, a not yet existing offset, or locations rewritten by `insert_offset` (the way
the merge trigger gets them); contents order sorted / reversed / scan order; optionally a leaf directory left
out of the contents set (missing parents).

Oracle (independent: lstat-level `vf.fsx` snapshots of a "world" directory holding image and root, taken by the
harness before and after; nothing of pkgcore is used to decide):
 * merge returned: every entry exists at root+location (parents resolved by the kernel) with its type; files:
   content hash, mode, uid, gid, mtime as lstat'ed in the image; fifos the same minus content; symlinks: text,
   uid, gid (mtime exempt: ensure_perms does not and PMS need not); directories: created ones carry recorded
   mode/uid/gid, pre-existing ones (also behind a symlink) keep their mode, owner may be old or recorded, mtime
   exempt (children are added later). Image inode groups form exactly one inode group in the root.
   A symlink entry whose location is an existing directory may be skipped only if the link text, resolved
   from the link's directory, is a directory (the outcome merge_contents documents), else the merge must refuse.
 * frame: every other path of the world (image included, victims, bystanders, children of colliding
   directories) is identical in type/mode/uid/gid/mtime/content/target; exempt: mtime of directories that
   received an entry, created missing parents, and a pre-existing `<entry>#new` sibling of a replaced entry
   may disappear (it is the temporary name). No `#new` name may be left behind by a merge that returned.
 * merge raised: accepted only if the model predicts a refusal (non-directory over directory, directory over
   non-directory, a missing parent that is a non-directory); then, and for any other exception, only the
   frame condition is checked.

Root causes that fan out into many symptoms are filed per case under one tag decided from the input alone
(`root_cause`): `stale-tmp-sibling:*` (a replaced entry has a pre-existing `<entry>#new`), `tempname-clash:*` (the
contents hold `X#new` next to a replaced `X`).

Scratch lives on tmpfs (/dev/shm) when available, else under ctx.scratch: an ext4 rmdir costs milliseconds here.

Dropped from DESIGN: device nodes (need no extra code path beyond mknod), sockets (`cp -Rp` fallback is
unreachable for scanned trees: gen_obj maps everything else to fsDev), two contents entries aliasing one node through
a symlinked directory (the generator's symlinked directories point to fresh `<name>.real` directories; aliased
entries would only get the frame check).
"""
import errno
import os

from .. import core, fsx
from ..gen import fstrees as T

ID = "C18"
TITLE = "Merging places exactly the package contents on the live filesystem"
LEVEL = "exploration"
TECHNIQUE = "model-based: random image x colliding root, before/after lstat snapshots vs. expected-state model + frame condition"
DESIGN_REF = "DESIGN.md §3 C18"
LEVEL_TEXT = (
    "Generated-input search: thousands of random (image tree, pre-existing root, offset/order variant) merges "
    "executed for real as root (tmpfs scratch, /var/tmp fallback); the resulting tree is compared entry by entry with an expected state "
    "computed from the image's lstat data, and everything else in the world directory must be untouched."
)
LEVEL_NOTE = (
    "Trusted: vf/fsx.py snapshots, the kernel's path resolution (realpath of the parents after the merge). "
    "Single filesystem only (no EXDEV fallback), no device nodes. No proof of absence."
)
RULE = (
    "case = {img spec, root spec, variant(offset|offset/|rewrite|missing, order, dropped leaf dirs)} from "
    "fstrees.merge_case; non-trivial = at least one contents entry collides with a pre-existing root entry, or the "
    "contents hold a hardlink group, or a directory of the contents is reached through a symlink; distinct = canonical JSON"
)
ASSUMPTIONS = [
    "runs as root on one local filesystem supporting hardlinks, fifos, chown to arbitrary ids",
    "a contents set scanned from an image holds the parent directory of every entry, except deliberately dropped leaf directories",
    "a symlink entry meeting an existing directory may be skipped iff its text resolves (from the link's directory) to a directory",
]
BUDGET = {"quick": 60, "thorough": 900}

def _imports():
    from pkgcore.fs import contents, livefs, ops

    return contents, livefs, ops


# ---------------------------------------------------------------------------------------------
class World:
    """scratch/world/{img,r}: everything a merge may legally or illegally touch is below `world`"""

    def __init__(self, base, case):
        self.case = case
        self.world = os.path.join(base, "w")
        self.img = os.path.join(self.world, "img")
        self.root = os.path.join(self.world, "r")
        os.makedirs(self.world)
        T.materialise(self.img, case["img"])
        os.utime(self.img, (5, 5))
        self.variant = case["variant"]
        if self.variant["offset"] != "missing":
            T.materialise(self.root, case["root"])
            os.utime(self.root, (7, 7))
        self.drop = set(self.variant.get("drop", ()))

    def entries(self):
        """[(relpath, image snapshot entry)] of the contents set, parents first"""
        return [(p, self.SI[p]) for p in sorted(self.SI) if p != "." and p not in self.drop]

    def snapshot_image(self):
        self.SI = fsx.snapshot(self.img)

    def snap(self):
        return fsx.snapshot(self.world)

    def cset(self):
        contents, livefs, _ops = _imports()
        ents = list(livefs.iter_scan(self.img, offset=self.img))
        dropped = {"/" + p for p in self.drop}
        ents = [e for e in ents if e.location not in dropped]
        order = self.variant["order"]
        if order == "sorted":
            ents.sort()
        elif order == "reversed":
            ents.sort(reverse=True)
        cs = contents.contentsSet(ents)
        off = self.variant["offset"]
        if off == "rewrite":
            return cs.insert_offset(self.root), None
        return cs, (self.root + "/" if off == "offset/" else self.root)

    def merge_op(self):
        _c, _l, ops = _imports()
        cs, offset = self.cset()
        if offset is None:
            return lambda: ops.merge_contents(cs)
        return lambda: ops.merge_contents(cs, offset=offset)

    def rel(self, abspath):
        return os.path.relpath(abspath, self.world)

    def node(self, p):
        """world-relative path of the filesystem node entry p occupies (parents resolved by the kernel *now*)"""
        d, b = os.path.split(p)
        parent = os.path.realpath(os.path.join(self.root, d))
        return self.rel(os.path.join(parent, b))

    def cleanup(self):
        T.rm_tree(self.world)


def _ftype(path, follow):
    try:
        st_ = os.stat(path) if follow else os.lstat(path)
    except OSError:
        return None
    return next(n for f, n in fsx._TYPES if f(st_.st_mode))


def pre_analysis(w):
    """facts about the root *before* the merge, per contents entry p:
    pre[p] = (lstat type | None, stat type | None); plus the refusal prediction"""
    pre, refuse = {}, []
    ents = w.entries()
    cset_dirs = {p for p, r in ents if r["type"] == "dir"}
    for p, rec in ents:
        d, b = os.path.split(p)
        parent = os.path.realpath(os.path.join(w.root, d))
        node = os.path.join(parent, b)
        lt, ft = _ftype(node, False), _ftype(node, True)
        pre[p] = (lt, ft)
        if rec["type"] == "dir":
            if lt is not None and not (lt == "dir" or (lt == "sym" and ft in (None, "dir"))):
                refuse.append((p, f"dir-over-{lt if lt != 'sym' else 'sym-to-' + str(ft)}"))
        else:
            if lt == "dir":
                refuse.append((p, f"{rec['type']}-over-dir"))
        # ancestors that are not contents directories (dropped ones, never the root itself) must be creatable
        parts = p.split("/")[:-1]
        for i in range(1, len(parts) + 1):
            anc = "/".join(parts[:i])
            if anc in cset_dirs:
                continue
            at = _ftype(os.path.join(w.root, anc), True)
            alt = _ftype(os.path.join(w.root, anc), False)
            if (alt is not None and at != "dir"):
                refuse.append((p, "parent-not-dir"))
    return pre, refuse


def twin_classes(w, pre):
    """how a pre-existing regular file relates to the file that replaces it (re-merge shapes)"""
    cl = set()
    for p, rec in w.entries():
        if rec["type"] != "file" or pre[p][0] != "file":
            continue
        d, b = os.path.split(p)
        old = fsx.entry(os.path.join(os.path.realpath(os.path.join(w.root, d)), b))
        perms_differ = old["mode"] != rec["mode"] or _owner(old) != _owner(rec)
        if old["size"] == rec["size"] and old["mtime"] == rec["mtime"]:
            cl.add("preexisting_same_size_mtime_diff_perms" if perms_differ else "preexisting_same_size_mtime_same_perms")
            if old["sha"] != rec["sha"]:
                cl.add("preexisting_same_size_mtime_other_content")
        elif old["sha"] == rec["sha"]:
            cl.add("preexisting_same_content_other_mtime")
        if old["sha"] == rec["sha"] and old["mtime"] == rec["mtime"] and not perms_differ:
            cl.add("preexisting_identical")
    return cl


def classify(w, pre, refuse):
    cl = set()
    ents = w.entries()
    for p, rec in ents:
        lt, ft = pre[p]
        if lt is not None:
            old = lt if lt != "sym" else {"dir": "symdir", None: "dangling"}.get(ft, "symfile")
            cl.add(f"coll:{rec['type']}-over-{old}")
            if rec["type"] == "dir" and old == "symdir":
                cl.add("symlinked_dir")
        if any(ch in p for ch in " \t\n#'\"*;\\") or not p.isascii():
            cl.add("odd_name")
        if rec["type"] == "file" and rec["size"] > 32768:
            cl.add("big_file")
        if rec["type"] == "file" and rec["mode"] & 0o6000:
            cl.add("setid_file")
    cl |= twin_classes(w, pre)
    if fsx.inode_groups({p: r for p, r in ents}):
        cl.add("hardlink_group")
    if any(e["path"].endswith("#new") for e in w.case["root"]):
        cl.add("stale_new_sibling")
    if any(e["type"] == "hardlink" for e in w.case["root"]):
        cl.add("root_hardlinked_victim")
    if w.drop:
        cl.add("missing_parent")
    if refuse:
        cl.add("refusal_predicted")
    cl.add("offset:" + w.variant["offset"])
    nontrivial = any(c.startswith("coll:") for c in cl) or "hardlink_group" in cl or "symlinked_dir" in cl
    return cl, nontrivial


def _owner(e):
    return (e["uid"], e["gid"])


def tempname_clash(w, pre):
    """the package needs both X and X#new (an entry, or a missing parent directory left out of the contents) while
    X is replaced through the temporary name X#new"""
    names = {p for p, _ in w.entries()}
    needed = set(w.SI)
    return sorted(p for p in names if p + "#new" in needed and pre[p][0] not in (None, "dir"))


def root_cause(w, pre):
    """case-level root-cause tag, decided before the merge from the shape of the input alone:
    'tempname-clash'    the contents hold X#new next to an X that gets replaced through the temporary name X#new
    'stale-tmp-sibling' an entry that gets replaced has a pre-existing `<entry>#new` sibling in the root
    Every violation of such a case is filed under that tag (one defect fans out into wrong content, wrong type,
    refusals, damaged bystanders, propagated through hardlinks); untagged cases keep the detailed buckets."""
    if tempname_clash(w, pre):
        return "tempname-clash"
    names = {p for p, _ in w.entries()}
    for p, rec in w.entries():
        if rec["type"] != "dir" and pre[p][0] not in (None, "dir") and p + "#new" not in names:
            d, b = os.path.split(p)
            node = os.path.join(os.path.realpath(os.path.join(w.root, d)), b)
            if os.path.lexists(node + "#new"):
                return "stale-tmp-sibling"
    return None


# buckets whose defect does not depend on the temporary-name root causes: never re-filed under a cause tag
INDEPENDENT = ("nonatomic:", "sym-over-dir:")


class Verdict:
    def __init__(self, ctx, case, cause=None, world=None):
        self.ctx, self.case, self.n, self.cause, self.world = ctx, case, 0, cause, world

    def __call__(self, bucket, msg):
        self.n += 1
        if self.world:
            msg = msg.replace(self.world, "<world>")  # scratch names carry pids: keep messages deterministic
        if self.cause and not bucket.startswith(INDEPENDENT):
            parts = bucket.split(":")
            keep = 3 if parts[0] == "frame" else (2 if parts[0] == "refused" else 1)
            bucket = self.cause + ":" + ":".join(parts[:keep])
        self.ctx.violation(bucket, self.case, msg)


def check_after(w, S0, S1, pre, refuse, outcome, viol, want_entries=True):
    """compare the world after a merge (outcome: 'ok' | exception text) with the model. `viol(bucket, msg)`."""
    ents = w.entries()
    nodes = {}
    for p, rec in ents:
        nodes.setdefault(w.node(p), []).append(p)
    aliased = {p for ps in nodes.values() if len(ps) > 1 for p in ps}
    clash = set(tempname_clash(w, pre))
    clash |= {p + "#new" for p in clash}
    allowed = {}  # world-relative path -> reason it may differ from S0
    rroot = w.rel(w.root)
    allowed[rroot] = "root"
    touched_dirs = {rroot}
    tag_of = {}

    for p, rec in ents:
        E = w.node(p)
        allowed[E] = "entry"
        touched_dirs.add(os.path.dirname(E))
        lt, ft = pre[p]
        tag = f"{rec['type']}-over-{lt or 'none'}"
        tag_of[p] = tag
        # missing parents that had to be created
        parts = p.split("/")[:-1]
        for i in range(1, len(parts) + 1):
            anc = "/".join(parts[:i])
            if anc in w.drop:
                allowed.setdefault(w.node(anc), "created-parent")
        if lt not in (None, "dir"):
            allowed.setdefault(E + "#new", "tmp-sibling")
        got = S1.get(E)
        if rec["type"] == "dir" and got is not None and got["type"] == "sym":
            D = w.rel(os.path.realpath(os.path.join(w.world, E)))
            allowed[D] = "entry"
            touched_dirs.add(D)
        was = S0.get(E)
        if rec["type"] == "dir" and was is not None and was["type"] == "sym" and not was["target"].startswith("/"):
            # the directory entry met a symlink to a directory: that directory is the entry's pre-existing directory
            # (its mtime is applied through the link) even if the link itself is gone by now -- e.g. removed as the
            # temporary name `X#new` of a neighbour X during a merge that then refused. Only the mtime is exempt.
            touched_dirs.add(os.path.normpath(os.path.join(os.path.dirname(E), was["target"])))
        if not want_entries or p in aliased:
            continue
        if got is None:
            viol(f"missing:{tag}", f"entry {p!r} does not exist after the merge")
            continue
        if rec["type"] == "dir":
            D, dgot = E, got
            if got["type"] == "sym" and S0.get(E) is not None and S0[E]["type"] == "sym":
                if got["target"] != S0[E]["target"]:
                    viol(f"symlinked-dir-retargeted:{tag}", f"{p!r}: {S0[E]['target']!r} -> {got['target']!r}")
                if _owner(got) not in (_owner(S0[E]), _owner(rec)):
                    viol(f"owner:{tag}", f"symlink {p!r} owner {_owner(got)}")
                D = w.rel(os.path.realpath(os.path.join(w.world, E)))
                dgot = S1.get(D)
            if dgot is None or dgot["type"] != "dir":
                viol(f"type:{tag}", f"{p!r} is {dgot and dgot['type']}, expected a directory")
                continue
            old = S0.get(D)
            if old is not None and old["type"] == "dir":
                if dgot["mode"] != old["mode"]:
                    viol(f"preexisting-dir-mode:{tag}", f"{p!r} mode {old['mode']:o} -> {dgot['mode']:o}")
                if _owner(dgot) not in (_owner(old), _owner(rec)):
                    viol(f"owner:{tag}", f"{p!r} owner {_owner(dgot)}, neither old {_owner(old)} nor recorded {_owner(rec)}")
            else:
                if dgot["mode"] != rec["mode"]:
                    viol(f"mode:{tag}", f"created dir {p!r} mode {dgot['mode']:o}, recorded {rec['mode']:o}")
                if _owner(dgot) != _owner(rec):
                    viol(f"owner:{tag}", f"created dir {p!r} owner {_owner(dgot)}, recorded {_owner(rec)}")
            continue
        if rec["type"] == "sym" and lt == "dir":
            # documented special case: symlink meets an existing directory
            link_dir = os.path.dirname(os.path.join(w.world, E))
            resolved = rec["target"] if rec["target"].startswith("/") else os.path.join(link_dir, rec["target"])
            if got["type"] == "dir":
                if not os.path.isdir(resolved):
                    viol("sym-over-dir:skipped-though-link-text-is-no-directory",
                         f"symlink {p!r} -> {rec['target']!r} silently not merged over an existing directory; "
                         f"{resolved!r} is not a directory")
                allowed.pop(E, None)  # the directory must be untouched
                continue
        if got["type"] != rec["type"]:
            viol(f"type:{tag}", f"{p!r} is a {got['type']}, expected {rec['type']}")
            continue
        if rec["type"] == "file" and got["sha"] != rec["sha"]:
            viol(f"content:{tag}", f"{p!r} has size {got['size']} hash {got['sha']}, image has size {rec['size']} hash {rec['sha']}")
        if rec["type"] == "sym" and got["target"] != rec["target"]:
            viol(f"target:{tag}", f"{p!r} -> {got['target']!r}, expected {rec['target']!r}")
        if rec["type"] != "sym" and got["mode"] != rec["mode"]:
            viol(f"mode:{tag}", f"{p!r} mode {got['mode']:o}, recorded {rec['mode']:o}")
        if _owner(got) != _owner(rec):
            viol(f"owner:{tag}", f"{p!r} owner {_owner(got)}, recorded {_owner(rec)}")
        if rec["type"] != "sym" and got["mtime"] != rec["mtime"]:
            viol(f"mtime:{tag}", f"{p!r} mtime {got['mtime']}, recorded {rec['mtime']}")

    if want_entries:
        # hardlink groups: image inode groups <-> root inode groups
        after_groups = {}
        for q, e in S1.items():
            if e.get("ino") and (q == rroot or q.startswith(rroot + "/")):
                after_groups.setdefault(tuple(e["ino"]), set()).add(q)
        for members in fsx.inode_groups({p: r for p, r in ents}).values():
            if any(m in aliased or m in clash for m in members):
                continue
            want = {w.node(m) for m in members}
            inos = {tuple(S1[q]["ino"]) if S1.get(q) and S1[q].get("ino") else None for q in want}
            if len(inos) != 1 or None in inos:
                viol("hardlink:group-not-linked", f"image hardlink group {members} is not one inode in the root")
                continue
            have = after_groups[next(iter(inos))]
            if have != want:
                viol("hardlink:linked-to-foreign-path", f"group {members} shares its inode with {sorted(have - want)}")
        for p, rec in ents:
            if rec["type"] == "file" and not rec.get("ino") and p not in aliased and p not in clash:
                got = S1.get(w.node(p))
                if got and got["type"] == "file" and got.get("ino"):
                    viol("hardlink:linked-to-foreign-path", f"{p!r} has nlink {got['nlink']} in the root but 1 in the image")
        # no temporary names left behind
        for p, rec in ents:
            E = w.node(p)
            sib = E + "#new"
            if sib in S1 and sib not in S0 and allowed.get(sib) not in ("entry", "created-parent"):
                viol(f"tmp-sibling-left-behind:{tag_of[p]}" + (":aliased" if p in aliased else ""),
                     f"{sib!r} exists after a merge that returned")

    # frame condition
    for q, kind, a, b in fsx.diff(S0, S1):
        why = allowed.get(q)
        if why in ("entry", "created-parent"):
            continue
        if why == "root" and (a is None or kind == "changed:mtime"):
            continue
        if q == "." and kind == "changed:mtime" and rroot not in S0:
            continue  # the offset directory itself was created
        if why == "tmp-sibling":
            if want_entries and kind == "added":
                pass  # reported above as left behind (or it is a contents entry itself)
            continue
        if kind == "changed:mtime" and a["type"] == "dir" and q in touched_dirs:
            continue
        where = "image" if q == "img" or q.startswith("img/") else ("victim" if "zz-victim" in q else "other")
        viol(f"frame:{kind.split(':')[0]}:{where}", f"path {q!r} outside the contents set {kind}: {_brief(a)} -> {_brief(b)}")


def _brief(e):
    if e is None:
        return None
    return {k: (oct(v) if k == "mode" else v) for k, v in e.items() if k in ("type", "mode", "uid", "gid", "mtime", "size", "target", "sha")}


def scratch_base(ctx):
    """a fresh empty directory for one world. tmpfs when available: an ext4 rmdir costs ~4 ms on this host, which
    would cap a quick run at a few hundred merges; the semantics exercised (link, rename, chown, mkfifo, utime) are
    the same. Falls back to ctx.scratch (/var/tmp)."""
    global _SHM
    if _SHM is None:
        _SHM = False
        if os.path.isdir("/dev/shm") and os.access("/dev/shm", os.W_OK):
            _reap_stale("/dev/shm")
            try:
                d = f"/dev/shm/vf-{ctx.pid}-{os.getpid()}"
                T.rm_tree(d)
                os.mkdir(d)
                _SHM = d
            except OSError:
                _SHM = False
    if _SHM:
        import tempfile

        return tempfile.mkdtemp(prefix="c-", dir=_SHM)
    return ctx.fresh_dir("c18")


_SHM = None


def scratch_done():
    """pool workers leave through os._exit: run_task/replay call this in a finally clause"""
    global _SHM
    if _SHM:
        T.rm_tree(_SHM)
    _SHM = None


def _reap_stale(top):
    """remove vf-C18-<pid>/vf-C19-<pid> directories of dead processes (a killed worker cannot clean up)"""
    for n in os.listdir(top):
        parts = n.split("-")
        if len(parts) == 3 and parts[0] == "vf" and parts[1] in ("C18", "C19") and parts[2].isdigit():
            if not os.path.exists(f"/proc/{parts[2]}"):
                T.rm_tree(os.path.join(top, n))


def run_case(ctx, case, record=True):
    _c, _l, ops = _imports()
    base = scratch_base(ctx)
    w = World(base, case)
    try:
        w.snapshot_image()
        pre, refuse = pre_analysis(w)
        cl, nontrivial = classify(w, pre, refuse)
        cause = root_cause(w, pre)
        if cause:
            cl.add(cause)
        S0 = w.snap()
        op = w.merge_op()
        outcome = "ok"
        exc = None
        try:
            r = core.guarded(ctx, case, op, expected=(ops.FailedCopy, OSError))
            if core.crashed(r):
                outcome = "crashed"
        except (ops.FailedCopy, OSError) as e:
            outcome = "raised"
            exc = e
        S1 = w.snap()
        viol = Verdict(ctx, case, cause, w.world)
        if outcome == "raised":
            cl.add("refused")
            if not refuse:
                if isinstance(exc, OSError):
                    name = errno.errorcode.get(exc.errno, str(exc.errno))
                else:
                    name = type(exc).__name__
                if getattr(exc, "filename2", None) and not str(exc.filename2).endswith("#new"):
                    name += ":link"  # os.link(merged, entry): the only two-path call on a final name
                viol(f"refused:{name}", f"merge raised {type(exc).__name__}: {exc} although nothing in the root forbids it")
        elif outcome == "ok" and refuse:
            cl.add("refusal_predicted_but_merged")
        check_after(w, S0, S1, pre, refuse, outcome, viol, want_entries=(outcome == "ok"))
        if outcome == "ok":
            for p, rec in w.entries():
                if rec["type"] == "sym" and pre[p][0] == "dir":
                    cl.add("sym_over_dir_skipped")
        if record:
            ctx.case(case, nontrivial=nontrivial, classes=sorted(cl))
        return viol.n
    finally:
        w.cleanup()
        T.rm_tree(base)


def strategy(tier):
    return T.merge_case(max_entries=10 if tier == "quick" else 14)


def plan(tier, seed):
    if tier == "quick":
        return [{"task": "merge", "examples": 300} for _ in range(16)]
    return [{"task": "merge", "examples": 9000} for _ in range(16)]


def run_task(ctx, task, **kw):
    os.umask(0o022)
    if task != "merge":
        raise core.HarnessError(f"unknown task {task}")
    try:
        core.hyp_run(ctx, strategy(ctx.tier), lambda c: run_case(ctx, c), kw["examples"], chunk=200)
    finally:
        scratch_done()


def replay(ctx, case):
    os.umask(0o022)
    try:
        run_case(ctx, case)
    finally:
        scratch_done()


def shrink_case(ctx, bucket, case):
    def pred(c):
        sub = core.Ctx(ID, ctx.tier, ctx.seed)
        try:
            run_case(sub, c, record=False)
            return bucket in sub.violations
        finally:
            sub.cleanup()

    try:
        return core.hyp_shrink(T.merge_case(max_entries=5, big=False), pred, seed=ctx.seed, max_examples=400)
    finally:
        scratch_done()
