"""C27 Metadata cache entries round-trip and are replaced atomically.

Generated: histories of `cache[cpv] = values` against `flat_hash.database` (chf mtime, eclass chfs
eclassdir+mtime) and `flat_hash.md5_cache` (chf md5, eclass chf md5); values are single-line stripped
strings over the known metadata keys (plus a few keys the cache does not know), `_eclasses_` maps of
LazilyHashedPath objects with preset mtime/md5, `_chf_` objects.

Oracle (independent model, never pkgcore's serializers): after every store a *fresh* cache object on the
same location must return exactly {known key: value}, the eclass list [(name, ((chf, value), ...))] in
inherit order and the entry chf (floor(mtime) / md5 integer); `list(cache.keys())` == stored cpvs.

Crash enumeration (vf.crash): the last store of the history is run in a forked child and stopped
before / after / with EIO at every mutating filesystem event below the cache root. Afterwards a fresh
cache object must read the cpv as the complete old or the complete new entry (KeyError only when there was
no old entry; a store that returned normally must be visible as new), every other entry is unchanged, and
`keys()` is the old key set, optionally plus the stored cpv - never a temp/partial name.

Dropped from DESIGN: the `mtime_in_entry = False` variant (no class in the tree uses it), values with
leading/trailing whitespace (the format strips lines), multi-line values.
"""
import math
import os
import shutil

from hypothesis import strategies as st

from .. import core
from ..ref import faultpoints as fp

ID = "C27"
TITLE = "Metadata cache entries round-trip and are replaced atomically"
LEVEL = "fault_enumeration"
TECHNIQUE = "model-based round trip over store histories (hypothesis) + fork/audit-hook crash and EIO injection at every file operation of a store"
DESIGN_REF = "DESIGN.md §3 C27"
LEVEL_TEXT = (
    "Generated store histories for both on-disk layouts are read back through a fresh cache object and compared "
    "with an independent model; for the final store of crash cases every Python-visible mutating filesystem event "
    "is enumerated and the process is killed before/after it or the event fails with EIO, after which entry "
    "contents, the other entries and the key listing are checked."
)
LEVEL_NOTE = (
    "Crash points are Python-level filesystem operations (audit events); os._exit drops buffered data (pessimistic, "
    "legal). Block-level torn writes and fsync ordering are not modelled. No proof of absence."
)
RULE = (
    "case = backend (flat|md5), optional auxdbkeys subset, 1-5 stores drawn over a pool of 1-3 cpvs (values over "
    "metadata keys incl. '=', empty, non-ASCII; 0-4 eclasses with dir + mtime/md5; entry chf); crash cases also "
    "enumerate all (event, mode) points of the last store. non-trivial = the last store carries >=1 eclass and "
    "replaces an existing entry of the same cpv; distinct = canonical JSON of the case"
)
ASSUMPTIONS = [
    "the model in this module (known-key filter, floor(mtime), md5 as 128-bit integer, eclass tuples in insertion order) states what the property calls 'the same keys, values, eclass data and checksum'",
    "a crash is modelled as process death at a Python-visible filesystem operation; data in user-space buffers is lost",
    "temp files that are not listed by keys() may remain after a crash (the statement only constrains readers and listings)",
]
BUDGET = {"quick": 50, "thorough": 900}

KEYS = (
    "BDEPEND", "DEPEND", "RDEPEND", "PDEPEND", "IDEPEND", "DEFINED_PHASES", "DESCRIPTION", "EAPI", "HOMEPAGE",
    "INHERIT", "INHERITED", "IUSE", "KEYWORDS", "LICENSE", "PROPERTIES", "REQUIRED_USE", "RESTRICT", "SLOT", "SRC_URI",
)
UNKNOWN_KEYS = ("FOO", "BAR_BAZ", "UNUSED")


def _imports():
    from snakeoil.chksum import LazilyHashedPath

    from pkgcore.cache import errors, flat_hash

    return flat_hash, errors, LazilyHashedPath


# ---------------------------------------------------------------- generators

_ALPHA = "abcdefghijklmnopqrstuvwxyzABCDEFGHIJKLMNOPQRSTUVWXYZ0123456789"
_name_first = st.sampled_from(_ALPHA + "_")
_name_rest = st.text(alphabet=_ALPHA + "_+", max_size=6)


@st.composite
def _cpv(draw):
    cat = draw(st.sampled_from(["dev-util", "sys-libs", "app-misc", "x11-base", "virtual", "dev-lang"]))
    # segments joined by '-' where no later segment starts with a digit (so it cannot look like a version)
    segs = [draw(_name_first) + draw(_name_rest)]
    for _ in range(draw(st.integers(min_value=0, max_value=2))):
        segs.append(draw(st.sampled_from(_ALPHA[:52])) + draw(_name_rest))
    pkg = "-".join(segs)
    ver = draw(st.sampled_from(["0", "1", "2.4", "1.0.3", "10", "3.11_p2", "1.2-r1", "0.9_rc1-r3", "20240101"]))
    return f"{cat}/{pkg}-{ver}"


_value_alphabet = st.one_of(
    st.sampled_from(list(" =/:.-_~<>!?*[](){}|\"'$#@%^&+,;\\\t") + list("éüß日本語✓")),
    st.sampled_from(list(_ALPHA)),
)
_value = st.one_of(
    st.just(""),
    st.sampled_from([
        "virtual/libc dev-lang/perl", "~amd64 ~ppc x86", "GPL-2", "0", "0/2.1", "a=b", "=", "==x=",
        "http://example.org/?q=1&r=2 -> f.tgz", "test? ( dev-util/x )", "|| ( a/b c/d )", "provides a trash can = fun",
    ]),
    st.text(alphabet=_value_alphabet, max_size=40).map(lambda s: s.strip()),
)

_eclass_name = st.one_of(
    st.sampled_from(["eutils", "toolchain-funcs", "multilib", "python-r1", "git-r3", "cmake", "qt5-build", "a", "x_y.z"]),
    st.builds(lambda a, b: a + b, st.sampled_from(list(_ALPHA)), st.text(alphabet=_ALPHA + "-_.", max_size=10)),
)
_seg = st.text(alphabet=_ALPHA + "-_. ", min_size=1, max_size=8).map(lambda s: s.strip(" .") or "d")
_eclassdir = st.one_of(
    st.sampled_from(["/var/db/repos/gentoo/eclass", "/usr/portage/eclass", "/var/lib/my overlay/eclass", "/eclass"]),
    st.lists(_seg, min_size=1, max_size=4).map(lambda l: "/" + "/".join(l)),
)
_mtime = st.one_of(
    st.integers(min_value=0, max_value=2**33),
    st.sampled_from([0, 1, 999999999, 1000000000, 1155996352, 2**31 - 1, 2**31, 2**32]),
    st.floats(min_value=0, max_value=float(2**33), allow_nan=False, allow_infinity=False),
    st.builds(lambda i, f: i + f, st.integers(min_value=0, max_value=2**31), st.sampled_from([0.5, 0.999999, 0.000001])),
)
_md5 = st.one_of(
    st.integers(min_value=0, max_value=2**128 - 1),
    st.integers(min_value=0, max_value=2**16),
    st.sampled_from([0, 1, 2**127, 2**128 - 1, 0x0000FFFF << 96, 0xD41D8CD98F00B204E9800998ECF8427E]),
).map(lambda i: f"{i:x}")  # hex text in the JSON case; the integer is what the API gets


@st.composite
def _store(draw, backend, pool, want_eclass=False):
    cpv = draw(st.sampled_from(pool))
    keys = draw(st.lists(st.sampled_from(KEYS), unique=True, max_size=8))
    values = {k: draw(_value) for k in keys}
    for k in draw(st.lists(st.sampled_from(UNKNOWN_KEYS), unique=True, max_size=1)):
        values[k] = draw(_value)
    chfval = _mtime if backend == "flat" else _md5
    n = draw(st.sampled_from([None, 0, 1, 1, 2, 3, 4]))
    if want_eclass and not n:
        n = draw(st.integers(min_value=1, max_value=3))
    ecl = None
    if n is not None:
        names = draw(st.lists(_eclass_name, unique=True, min_size=n, max_size=n))
        ecl = [[nm, draw(_eclassdir), draw(chfval)] for nm in names]
        values.setdefault("INHERIT", " ".join(names))
    return {"cpv": cpv, "values": values, "eclasses": ecl, "chf": draw(chfval)}


@st.composite
def cases(draw, crash_case=False):
    backend = draw(st.sampled_from(["flat", "md5"]))
    aux = None
    if draw(st.integers(min_value=0, max_value=4)) == 0:
        aux = sorted(draw(st.lists(st.sampled_from(KEYS), unique=True, min_size=3, max_size=12))) + (
            ["_eclasses_"] if draw(st.booleans()) else []
        )
    pool = draw(st.lists(_cpv(), unique=True, min_size=1, max_size=3))
    if crash_case:
        kind = draw(st.sampled_from(["replace", "replace", "replace", "fresh-dir", "fresh-key", "any"]))
        nops = draw(st.integers(min_value=0, max_value=3))
        ops = [draw(_store(backend, pool)) for _ in range(nops)]
        last = draw(_store(backend, pool, want_eclass=(kind == "replace")))
        if kind == "replace":
            if not any(o["cpv"] == last["cpv"] for o in ops):
                first = draw(_store(backend, [last["cpv"]]))
                ops.insert(draw(st.integers(min_value=0, max_value=len(ops))), first)
        elif kind == "fresh-dir":
            cat = last["cpv"].split("/")[0]
            ops = [o for o in ops if o["cpv"].split("/")[0] != cat]
        elif kind == "fresh-key":
            ops = [o for o in ops if o["cpv"] != last["cpv"]]
        ops.append(last)
    else:
        ops = [draw(_store(backend, pool)) for _ in range(draw(st.integers(min_value=1, max_value=5)))]
    return {"backend": backend, "auxdbkeys": aux, "ops": ops, "crash": bool(crash_case)}


# ---------------------------------------------------------------- model

def _chf_key(backend):
    return "_mtime_" if backend == "flat" else "_md5_"


def _known(case):
    aux = case["auxdbkeys"]
    base = set(KEYS) | {"_eclasses_"} if aux is None else set(aux)
    return base | {_chf_key(case["backend"])}


def _chf_model(backend, v):
    return int(math.floor(v)) if backend == "flat" else int(v, 16)


def expected_entry(case, op):
    """what a reader must get for a stored op (plain JSON-able structure)"""
    backend = case["backend"]
    known = _known(case)
    exp = {k: v for k, v in op["values"].items() if k in known}
    if op["eclasses"] is not None and "_eclasses_" in known:
        l = []
        for name, d, v in op["eclasses"]:
            if backend == "flat":
                l.append([name, [["eclassdir", d], ["mtime", _chf_model(backend, v)]]])
            else:
                l.append([name, [["md5", _chf_model(backend, v)]]])
        exp["_eclasses_"] = l
    exp[_chf_key(backend)] = _chf_model(backend, op["chf"])
    return exp


def _plain(d):
    """normalise what the cache returned into the model's shape"""
    out = {}
    for k, v in d.items():
        if k == "_eclasses_":
            out[k] = [[e, [[c, val] for c, val in chfs]] for e, chfs in v]
        else:
            out[k] = v
    return out


# ---------------------------------------------------------------- driving the real cache

class Env:
    def __init__(self):
        self.flat_hash, self.errors, self.LHP = _imports()

    def cache(self, case, root):
        kls = self.flat_hash.database if case["backend"] == "flat" else self.flat_hash.md5_cache
        kw = {}
        if case["auxdbkeys"] is not None:
            kw["auxdbkeys"] = tuple(case["auxdbkeys"])
        return kls(root, **kw)

    def api_values(self, case, op):
        backend = case["backend"]
        vals = dict(op["values"])

        def obj(path, v, **extra):
            if backend == "flat":
                return self.LHP(path, mtime=v, **extra)
            return self.LHP(path, md5=int(v, 16), **extra)

        if op["eclasses"] is not None:
            vals["_eclasses_"] = {
                name: obj(os.path.join(d, name + ".eclass"), v, eclassdir=d) for name, d, v in op["eclasses"]
            }
        vals["_chf_"] = obj("/nonexistent/" + op["cpv"] + ".ebuild", op["chf"])
        return vals

    def store(self, case, root, op):
        self.cache(case, root)[op["cpv"]] = self.api_values(case, op)


def _read(ctx, env, case, root, cpv, tag):
    """-> ("ok", plain dict) | ("missing", None) | ("error", text); a fresh cache object each time"""
    c = env.cache(case, root)
    try:
        return "ok", _plain(dict(c[cpv]))
    except KeyError as e:
        # base contract: KeyError == no such entry. A half-written file also surfaces as KeyError (missing chf key)
        on_disk = os.path.lexists(os.path.join(c.location, cpv))
        return ("missing", None) if not on_disk else ("error", f"KeyError({e}) although the entry file exists")
    except env.errors.CacheError as e:
        return "error", f"{type(e).__name__}: {e}"


def _diff_bucket(exp, got):
    for k in sorted(set(exp) | set(got)):
        if exp.get(k, None) != got.get(k, None) or (k in exp) != (k in got):
            if k == "_eclasses_":
                return "eclasses"
            if k in ("_mtime_", "_md5_"):
                return "chf"
            if k not in exp:
                return "unknown-key-returned"
            if k not in got:
                return "key-lost"
            return "value"
    return None


def _classes(case):
    last = case["ops"][-1]
    cl = [case["backend"]]
    if case["auxdbkeys"] is not None:
        cl.append("custom_auxdbkeys")
    prior = [o for o in case["ops"][:-1] if o["cpv"] == last["cpv"]]
    if prior:
        cl.append("replaces_existing")
    elif any(o["cpv"].split("/")[0] == last["cpv"].split("/")[0] for o in case["ops"][:-1]):
        cl.append("fresh_key_existing_dir")
    else:
        cl.append("fresh_dir")
    ne = len(last["eclasses"] or [])
    cl.append("eclasses_none" if last["eclasses"] is None else ("eclasses_0" if ne == 0 else "eclasses_1+"))
    if any("=" in v for v in last["values"].values()):
        cl.append("value_with_equals")
    if any(v == "" for v in last["values"].values()):
        cl.append("empty_value")
    if any(not v.isascii() for v in last["values"].values()):
        cl.append("non_ascii_value")
    if any(k in UNKNOWN_KEYS for k in last["values"]):
        cl.append("unknown_key_stored")
    if case["backend"] == "flat" and any(isinstance(e[2], float) for e in (last["eclasses"] or [])) or isinstance(last["chf"], float):
        cl.append("float_mtime")
    if case["backend"] == "md5" and (len(last["chf"]) < 32 or any(len(e[2]) < 32 for e in (last["eclasses"] or []))):
        cl.append("md5_leading_zero")
    if case["crash"]:
        cl.append("crash_case")
    return cl, bool(prior) and ne >= 1


def check_case(ctx, case, env=None):
    env = env or Env()
    cl, nontrivial = _classes(case)
    root = ctx.fresh_dir("c27")
    try:
        n = _check(ctx, env, case, root)
    finally:
        shutil.rmtree(root, ignore_errors=True)
    ctx.case(case, nontrivial=nontrivial, classes=cl, n=max(1, n))


def _check(ctx, env, case, root):
    evals = 0
    model = {}
    ops = case["ops"]
    upto = len(ops) - 1 if case["crash"] else len(ops)
    for i, op in enumerate(ops[:upto]):
        r = core.guarded(ctx, case, lambda op=op: env.store(case, root, op))
        if core.crashed(r):
            return evals
        model[op["cpv"]] = expected_entry(case, op)
        evals += 1
        if not _verify_all(ctx, env, case, root, model, f"after store #{i}", only=op["cpv"]):
            return evals
    if not _verify_all(ctx, env, case, root, model, "after all stores"):
        return evals
    if not case["crash"]:
        return evals
    return evals + _crash_part(ctx, env, case, root, model)


def _verify_all(ctx, env, case, root, model, when, only=None):
    ok = True
    for cpv in [only] if only else sorted(model):
        st_, got = _read(ctx, env, case, root, cpv, when)
        if st_ != "ok":
            ctx.violation(f"roundtrip:unreadable:{st_}", case, f"{when}: reading {cpv}: {got or 'KeyError'}")
            ok = False
            continue
        b = _diff_bucket(model[cpv], got)
        if b:
            ctx.violation(f"roundtrip:{b}", case, f"{when}: {cpv}: stored->expected {model[cpv]!r} but read {got!r}")
            ok = False
    c = env.cache(case, root)
    keys = core.guarded(ctx, case, lambda: sorted(c.keys()))
    if core.crashed(keys):
        return False
    if keys != sorted(model):
        ctx.violation("keys:listing-mismatch", case, f"{when}: keys()={keys} stored={sorted(model)}")
        ok = False
    for cpv in model:
        if cpv not in c:
            ctx.violation("keys:contains-false", case, f"{when}: {cpv!r} in cache is False")
            ok = False
    return ok


def _crash_part(ctx, env, case, pristine, model):
    op = case["ops"][-1]
    cpv = op["cpv"]
    old = model.get(cpv)
    new = expected_entry(case, op)
    base = ctx.fresh_dir("c27w")
    evals = 0
    try:
        def fresh(i):
            w = os.path.join(base, f"w{i}")
            shutil.copytree(pristine, w, symlinks=True)
            return w

        w = fresh("dry")
        dry = fp.log_run(lambda: env.store(case, w, op), [w])
        if dry.status != "completed":
            b = "store-raised:" + (dry.exc or dry.status).split(":")[0]
            ctx.violation(b, case, f"store of {cpv} did not complete without injection: {dry.status} {dry.exc}")
            return evals
        _inspect(ctx, env, case, w, model, cpv, old, new, "completed", "no injection", dry.events)
        evals += 1
        ctx.count("events_total", len(dry.events))
        for k, mode, res, w in fp.injections(ctx, dry.events, fresh, lambda w: (lambda: env.store(case, w, op))):
            ev = dry.events[k - 1]
            what = f"{mode} event {k}/{len(dry.events)} {ev['ev']} {ev.get('path')}"
            if res.status == "raised" and not (res.exc or "").startswith(("CacheCorruption", "CacheError", "OSError")):
                ctx.violation("eio:unexpected-exception:" + (res.exc or "").split(":")[0], case, f"{what}: {res.exc}")
            _inspect(ctx, env, case, w, model, cpv, old, new, res.status, what, dry.events)
            evals += 1
    finally:
        shutil.rmtree(base, ignore_errors=True)
    return evals


def _is_temp(name):
    return os.path.basename(name).startswith(".update.")


def _inspect(ctx, env, case, root, model, cpv, old, new, status, what, events):
    st_, got = _read(ctx, env, case, root, cpv, what)
    if st_ == "error":
        ctx.violation("crash-read:partial-entry", case, f"{what}: reader of {cpv} got {got}")
    elif st_ == "missing":
        if old is not None:
            ctx.violation("crash-read:old-entry-lost", case, f"{what}: {cpv} had an entry, now KeyError")
        elif status == "completed":
            ctx.violation("crash-read:completed-store-not-visible", case, f"{what}: store returned but {cpv} is missing")
    else:
        is_old = old is not None and _diff_bucket(old, got) is None
        is_new = _diff_bucket(new, got) is None
        if not (is_old or is_new):
            ctx.violation("crash-read:mixed-entry", case, f"{what}: {cpv} reads {got!r}; old={old!r} new={new!r}")
        elif status == "completed" and not is_new:
            ctx.violation("crash-read:completed-store-not-visible", case, f"{what}: store returned but {cpv} still reads old")
    # every other entry untouched
    for other in sorted(model):
        if other == cpv:
            continue
        s2, g2 = _read(ctx, env, case, root, other, what)
        if s2 != "ok" or _diff_bucket(model[other], g2):
            ctx.violation("crash-read:other-entry-damaged", case, f"{what}: {other} reads {s2} {g2!r}")
    c = env.cache(case, root)
    keys = core.guarded(ctx, case, lambda: sorted(c.keys()))
    if core.crashed(keys):
        return
    allowed = set(model) | {cpv}
    extra = [k for k in keys if k not in allowed]
    if extra:
        kind = "temp-file-listed" if all(_is_temp(k) for k in extra) else "unexpected-name"
        ctx.violation(f"crash-keys:{kind}", case, f"{what}: keys()={keys}; not packages: {extra}")
    lost = [k for k in model if k not in keys]
    if lost:
        ctx.violation("crash-keys:entry-not-listed", case, f"{what}: keys()={keys} lacks {lost}")
    if cpv in keys and st_ != "ok":
        ctx.violation("crash-keys:partial-entry-listed", case, f"{what}: {cpv} listed but unreadable ({got})")


# ---------------------------------------------------------------- runner glue

def smoke_cases():
    """small deterministic family run first on every run: for both layouts a replace / fresh key / fresh directory
    store under full crash+EIO enumeration (incl. death right after the rename), with the value, eclass and chf
    shapes the round trip is sensitive to; detection of the covered classes does not depend on the budget guard"""
    out = []
    for backend in ("flat", "md5"):
        flat = backend == "flat"
        chf = (lambda m, h: m) if flat else (lambda m, h: h)
        ecl_old = [["eutils", "/var/db/repos/gentoo/eclass", chf(1155996352, "d41d8cd98f00b204e9800998ecf8427e")]]
        ecl_new = [
            ["toolchain-funcs", "/var/lib/my overlay/eclass", chf(1156014349.5, "ffff")],
            ["python-r1", "/usr/portage/eclass", chf(2**31, "80000000000000000000000000000000")],
        ]
        old = {"cpv": "dev-util/a-1", "values": {"SLOT": "0", "DESCRIPTION": "old entry", "INHERIT": "eutils"},
               "eclasses": ecl_old, "chf": chf(1000, "1")}
        new = {"cpv": "dev-util/a-1",
               "values": {"SLOT": "0/2.1", "DESCRIPTION": "provides a = b caf\u00e9 \u65e5\u672c", "IUSE": "", "KEYWORDS": "~amd64 x86",
                          "SRC_URI": "http://example.org/?q=1&r=2 -> f.tgz", "INHERIT": "toolchain-funcs python-r1", "FOO": "dropped"},
               "eclasses": ecl_new, "chf": chf(1700000000.999999, "00ff" + "ab" * 14)}
        other = {"cpv": "dev-util/b-2.4-r1", "values": {"EAPI": "8", "RDEPEND": "|| ( a/b c/d )"}, "eclasses": None, "chf": chf(5, "5")}
        far = {"cpv": "sys-libs/c-10", "values": {"EAPI": "8"}, "eclasses": [], "chf": chf(7, "7")}
        out.append({"backend": backend, "auxdbkeys": None, "crash": True, "ops": [old, other, new]})          # replace
        out.append({"backend": backend, "auxdbkeys": None, "crash": True, "ops": [other, new]})               # fresh key, dir exists
        out.append({"backend": backend, "auxdbkeys": None, "crash": True, "ops": [far, new]})                 # fresh directory
        out.append({"backend": backend, "auxdbkeys": ["DESCRIPTION", "EAPI", "SLOT", "_eclasses_"], "crash": False,
                    "ops": [old, new, other, far]})
        out.append({"backend": backend, "auxdbkeys": ["DESCRIPTION", "SLOT"], "crash": False, "ops": [new]})
    return out


def _interleave(a, b):
    """alternate the two task kinds so that both make progress whatever the job count / budget"""
    out = []
    for i in range(max(len(a), len(b))):
        out += a[i:i + 1] + b[i:i + 1]
    return out


def plan(tier, seed):
    # quick is sized for the verification host: a forked injection costs ~0.15 s and forks do not scale over
    # workers (about 15 injections/s in total), so the generated crash cases are few; thorough keeps the full sizes
    if tier == "quick":
        return [{"task": "smoke"}] + _interleave([{"task": "roundtrip", "examples": 200} for _ in range(6)],
                                                  [{"task": "crash", "examples": 12} for _ in range(4)])
    return [{"task": "smoke"}] + _interleave([{"task": "roundtrip", "examples": 10000} for _ in range(8)],
                                              [{"task": "crash", "examples": 1200} for _ in range(16)])


def run_task(ctx, task, **kw):
    env = Env()
    if task == "smoke":
        for c in smoke_cases():
            check_case(ctx, c, env)
    elif task == "roundtrip":
        core.hyp_run(ctx, cases(False), lambda c: None if ctx.out_of_time() else check_case(ctx, c, env), kw["examples"], chunk=150)
    elif task == "crash":
        core.hyp_run(ctx, cases(True), lambda c: None if ctx.out_of_time() else check_case(ctx, c, env), kw["examples"], chunk=12, seed_salt=7)
    else:
        raise core.HarnessError(f"unknown task {task}")


def replay(ctx, case):
    check_case(ctx, case)


def shrink_case(ctx, bucket, case):
    """greedy structural minimisation keeping the bucket"""
    env = Env()

    def hits(c):
        sub = core.Ctx(ID, ctx.tier, ctx.seed)
        try:
            check_case(sub, c, env)
        except Exception:  # noqa: BLE001
            return False
        finally:
            sub.cleanup()
        return bucket in sub.violations

    import copy

    cur = copy.deepcopy(case)
    changed = True
    while changed:
        changed = False
        cands = []
        for i in range(len(cur["ops"]) - 1):
            c = copy.deepcopy(cur)
            del c["ops"][i]
            cands.append(c)
        for i, op in enumerate(cur["ops"]):
            for k in list(op["values"]):
                c = copy.deepcopy(cur)
                del c["ops"][i]["values"][k]
                cands.append(c)
            if op["eclasses"]:
                c = copy.deepcopy(cur)
                c["ops"][i]["eclasses"] = op["eclasses"][:-1] or None
                cands.append(c)
        if cur["auxdbkeys"] is not None:
            c = copy.deepcopy(cur)
            c["auxdbkeys"] = None
            cands.append(c)
        for c in cands:
            if hits(c):
                cur = c
                changed = True
                break
    return cur
